#!/venv/bin/python
"""Demonstration that the trace specifications are bound to what the code logs (run on demand, no verdict about geometer):

for each Trace_Cxx.tla a trace is recorded from the real library, validated (must be accepted with no bad step), then
corrupted in one place -- one logged field changed, or one event removed where the events carry state -- and validated
again: TLC must reject exactly the corrupted step (and, for the stateful diagram trace, what follows from it).

usage: selftest/binding.py          exit 0 = every pristine trace accepted and every corruption rejected where expected
"""
import copy
import sys

sys.path.insert(0, "/verif")
from harness.core import Ctx  # noqa: E402
from harness.props import diagram, joinmeet, kernels, purity  # noqa: E402

ok = True


def expect(name, cond, detail=""):
    global ok
    print(("PASS  " if cond else "FAIL  ") + name + (("   " + str(detail)[:200]) if detail and not cond else ""))
    ok = ok and cond


def lines(bad):
    return sorted({b[0] for b in bad})


def main():
    ctx = Ctx("selftest", "quick", 0)
    try:
        # ---- C01/C02: one event per join/meet call
        ev = joinmeet.record_events(7, 300)
        expect("Trace_C01 pristine accepted", joinmeet.validate_trace(ctx, ev, "c01-ok") == [])
        k = next(i for i, e in enumerate(ev) if e["e"] == "none" and len(e["v"]) >= 3 and any(e["v"]))
        c = copy.deepcopy(ev)
        c[k]["v"][0] += 1                                        # wrong result class
        expect("Trace_C01 corrupted result rejected at that event", lines(joinmeet.validate_trace(ctx, c, "c01-v")) == [k + 1])
        k2 = next(i for i, e in enumerate(ev) if e["e"] == "LinearDependence")
        c = copy.deepcopy(ev)
        c[k2].update(e="none", k="point", v=[1, 0, 0])           # a silent answer logged for a dependent input
        expect("Trace_C01 silent answer on dependent input rejected", lines(joinmeet.validate_trace(ctx, c, "c01-e")) == [k2 + 1])
        # ---- C05: stateful; every event logs the projected state of the diagram
        ev = diagram.record_trace(5, 60)
        expect("Trace_C05 pristine accepted", diagram.validate_trace(ctx, ev, "c05-ok") == [])
        k = next(i for i, e in enumerate(ev) if e["op"] == "add_edge" and e["err"] == "none" and e["edges"])
        c = copy.deepcopy(ev)
        c[k]["edges"][-1][2], c[k]["edges"][-1][3] = c[k]["edges"][-1][3] + 1, c[k]["edges"][-1][2]      # other index pair
        bad = lines(diagram.validate_trace(ctx, c, "c05-edge"))
        expect("Trace_C05 corrupted contraction pair rejected at that event", bool(bad) and bad[0] == k + 1, bad)
        k = next(i for i, e in enumerate(ev) if e["op"] == "add_edge" and e["err"] == "none"
                 and i + 1 < len(ev) and ev[i + 1]["op"] != "world")
        c = ev[:k] + ev[k + 1:]                                   # one step removed: the next logged state cannot follow
        bad = lines(diagram.validate_trace(ctx, c, "c05-drop"))
        expect("Trace_C05 dropped event makes the next one unexplainable", bool(bad) and bad[0] == k + 1, bad)
        k = next(i for i, e in enumerate(ev) if e["op"] == "calculate" and e["flat"])
        c = copy.deepcopy(ev)
        c[k]["flat"][0] += 1
        bad = lines(diagram.validate_trace(ctx, c, "c05-val"))
        expect("Trace_C05 corrupted einsum value rejected", bad == [k + 1], bad)
        # ---- C12: digests of every object after every call
        purity.import_geometer()
        hists = [(i, [3, 17, 40, 5]) for i in range(1, 4)]
        events, _ = purity.exec_histories(hists)
        n = len(purity.OPS())
        b = purity.baseline()
        nobjs = len(b["keys"]) + len(b["ckeys"])

        def val12(evs, name):
            from harness.core import cfg_text, read_dump
            from harness.record import write_ndjson
            path = ctx.work / f"{name}.ndjson"
            write_ndjson(path, evs)
            cfg = cfg_text(spec="TraceSpec", constants={"NOps": n, "NObjs": nobjs, "MaxLen": 1000, "DoDump": False},
                           invariants=[], constraints=["Report"], postcondition="TraceAccepted")
            rt = ctx.tlc("Trace_C12", cfg, name=name, workers=1, dump=True, env={"TRACE_FILE": str(path)})
            return list(read_dump(rt["dump"]))[-1]["bad"]
        expect("Trace_C12 pristine accepted", val12(events, "c12-ok") == [])
        c = copy.deepcopy(events)
        c[5]["post"][2] = 1                                      # one object's digest differs after the call
        bad = val12(c, "c12-post")
        expect("Trace_C12 changed digest rejected as impurity", [x[0] for x in bad] == [6] and bad[0][1] == "purity", bad)
        c = copy.deepcopy(events)
        c[6]["ans"] = 1
        bad = val12(c, "c12-ans")
        expect("Trace_C12 history-dependent answer rejected", [x[0] for x in bad] == [7] and bad[0][1] == "answer", bad)
        # ---- C20: det / adjugate of recorded matrices
        ev = kernels.record_events(3, 200)
        expect("Trace_C20 pristine accepted", kernels.validate_trace(ctx, ev, "c20-ok") == [])
        k = next(i for i, e in enumerate(ev) if e["err"] == "none")
        c = copy.deepcopy(ev)
        c[k]["det"] += 1
        expect("Trace_C20 corrupted determinant rejected", lines(kernels.validate_trace(ctx, c, "c20-det")) == [k + 1])
        c = copy.deepcopy(ev)
        c[k]["adj"][0][0] += 1
        expect("Trace_C20 corrupted adjugate entry rejected", lines(kernels.validate_trace(ctx, c, "c20-adj")) == [k + 1])
        # ---- Trace_Ops: stateless operations on larger coordinates
        from harness import optrace
        ops = ["dist2_pp", "foot_ph", "seg_contains", "poly_contains2", "crossratio", "apply_hyper", "is_coplanar", "area2"]
        c0 = len(ctx.violations)
        optrace.run_optrace(ctx, ops, n_quick=400)
        expect("Trace_Ops pristine accepted", len(ctx.violations) == c0)
        real_record = optrace.record

        def corrupted(ops_, seed, n):
            ev = real_record(ops_, seed, n)
            ev[8]["r"] = [ev[8]["r"][0] + 1, ev[8]["r"][1]]           # dist2_pp: wrong squared distance
            ev[10]["r"] = not ev[10]["r"]                            # seg_contains: wrong truth value
            ev[13]["r"] = [ev[13]["r"][1], ev[13]["r"][0]] + ev[13]["r"][2:]   # apply_hyper: another class
            return ev
        optrace.record = corrupted
        optrace.run_optrace(ctx, ops, n_quick=400)
        optrace.record = real_record
        got = sorted((v["site"], v["stratum"]) for v in ctx.violations[c0:])
        expect("Trace_Ops: three corrupted results rejected, clause named",
               got == [("apply_hyper/trace", "trace:result-class"), ("dist2_pp/trace", "trace:value"), ("seg_contains/trace", "trace:truth-value")], got)
    finally:
        import shutil
        shutil.rmtree(ctx.work, ignore_errors=True)
    print("binding self-test:", "all demonstrations behaved as expected" if ok else "SOME DEMONSTRATION FAILED")
    return 0 if ok else 1


if __name__ == "__main__":
    sys.exit(main())
