AND = " /\\ "
IN = " \\in Int"
def vars_decl(names):
    return ",\n".join("  \\* @type: Int;\n  " + n for n in names)
pts = [x + str(k) for x in "abc" for k in range(1, 5)]
def det3(r):
    (a, b, c), (d, e, f), (g, h, i) = r
    return "(%s * (%s * %s - %s * %s) - %s * (%s * %s - %s * %s) + %s * (%s * %s - %s * %s))" % (a, e, i, f, h, b, d, i, f, g, c, d, h, e, g)
rows = {x: [x + str(k) for k in range(1, 5)] for x in "abc"}
def minor(cols):
    return det3([[rows[x][c] for c in cols] for x in "abc"])
E = [minor([1, 2, 3]), "(0 - " + minor([0, 2, 3]) + ")", minor([0, 1, 3]), "(0 - " + minor([0, 1, 2]) + ")"]
s = """------------------------------- MODULE L_Space -------------------------------
(***************************************************************************)
(* Lifted to all integers: the plane spanned by three points of P^3        *)
(* (Proj.tla: Join3PPP, signed 3 x 3 minors) is incident with each of      *)
(* them - dually, the meet of three planes lies in each - and the Pluecker *)
(* coordinates of the join of two points satisfy the Klein relation        *)
(* p12 p34 - p13 p24 + p14 p23 = 0 (PlueckerOfPoints yields a line).       *)
(***************************************************************************)
EXTENDS Integers
VARIABLES
VARS
Init == INIT
Next == UNCHANGED <<TUPLE>>
E1 == EE1
E2 == EE2
E3 == EE3
E4 == EE4
PlaneIncident == /\\ E1 * a1 + E2 * a2 + E3 * a3 + E4 * a4 = 0
                 /\\ E1 * b1 + E2 * b2 + E3 * b3 + E4 * b4 = 0
                 /\\ E1 * c1 + E2 * c2 + E3 * c3 + E4 * c4 = 0
P12 == a1 * b2 - a2 * b1
P13 == a1 * b3 - a3 * b1
P14 == a1 * b4 - a4 * b1
P23 == a2 * b3 - a3 * b2
P24 == a2 * b4 - a4 * b2
P34 == a3 * b4 - a4 * b3
Klein == P12 * P34 - P13 * P24 + P14 * P23 = 0
\\* the point a + b lies on the line ab (the incidence relation PointOnLine3 of Proj.tla: all four 3 x 3 minors vanish)
OnLine == LET s1 == a1 + b1 s2 == a2 + b2 s3 == a3 + b3 s4 == a4 + b4 IN
          /\\ P12 * s3 - P13 * s2 + P23 * s1 = 0 /\\ P12 * s4 - P14 * s2 + P24 * s1 = 0
          /\\ P13 * s4 - P14 * s3 + P34 * s1 = 0 /\\ P23 * s4 - P24 * s3 + P34 * s2 = 0
Falsified == E1 * a1 + E2 * a2 + E3 * a3 - E4 * a4 = 0
=============================================================================
"""
s = s.replace("VARS", vars_decl(pts)).replace("INIT", AND.join(n + IN for n in pts)).replace("TUPLE", ", ".join(pts))
for k in range(4):
    s = s.replace("EE%d" % (k + 1), E[k])
open("/verif/spec/lemmas/L_Space.tla", "w").write(s)
names = [x + str(k) for x in ("ar", "ai", "br", "bi") for k in range(1, 4)]
def cross(u, v):
    return ["(%s2 * %s3 - %s3 * %s2)" % (u, v, u, v), "(%s3 * %s1 - %s1 * %s3)" % (u, v, u, v), "(%s1 * %s2 - %s2 * %s1)" % (u, v, u, v)]
rr, ii, ri, ir = cross("ar", "br"), cross("ai", "bi"), cross("ar", "bi"), cross("ai", "br")
R = ["(%s - %s)" % (rr[k], ii[k]) for k in range(3)]
I = ["(%s + %s)" % (ri[k], ir[k]) for k in range(3)]
def dot(U, v):
    return " + ".join("%s * %s%d" % (U[k], v, k + 1) for k in range(3))
s = """------------------------------ MODULE L_Complex ------------------------------
(***************************************************************************)
(* Lifted to all Gaussian integers: the complex cross product computed by  *)
(* C01_Complex.tla from the integer operator (BiRe, BiIm) pairs to zero    *)
(* with both arguments under the bilinear (not conjugated) pairing.        *)
(***************************************************************************)
EXTENDS Integers
VARIABLES
VARS
Init == INIT
Next == UNCHANGED <<TUPLE>>
\\* <R + iI, ar + i ai> = (R.ar - I.ai) + i (R.ai + I.ar)
Incident == /\\ (D1) - (D2) = 0
            /\\ (D3) + (D4) = 0
            /\\ (D5) - (D6) = 0
            /\\ (D7) + (D8) = 0
\\* with a conjugated pairing it is false: must be refuted
Falsified == (D1) + (D2) = 0
=============================================================================
"""
s = s.replace("VARS", vars_decl(names)).replace("INIT", AND.join(n + IN for n in names)).replace("TUPLE", ", ".join(names))
ds = [dot(R, "ar"), dot(I, "ai"), dot(R, "ai"), dot(I, "ar"), dot(R, "br"), dot(I, "bi"), dot(R, "bi"), dot(I, "br")]
for k in range(8):
    s = s.replace("D%d" % (k + 1), ds[k])
open("/verif/spec/lemmas/L_Complex.tla", "w").write(s)
