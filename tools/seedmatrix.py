#!/venv/bin/python
"""Run the quick check of the targeted property (and optionally others) against every kept seeded change, in a scratch
worktree of /repo (GEOMETER_SRC), never touching /repo itself.  Writes seeded/MATRIX.md and updates meta.json.
usage: tools/seedmatrix.py [seed-name ...]"""
import json
import os
import subprocess
import sys
from pathlib import Path

ROOT = Path(os.environ.get("VERIF_ROOT", "/verif"))
WT = "/tmp/seedwt"
EXTRA = {"C14-components-abs-threshold": [("C14", "thorough")]}
ALSO = {  # further properties whose quick check is expected/observed to notice the change
    "C01-lineline-multiaxis-meshgrid": ["C02"], "C07-inverse-rigid-fastpath": ["C06"], "C16-segment-contains-unnormalised": ["C03", "C18"],
    "C18-segment-contains-mixed-sign": ["C03", "C16"], "C09-polygon3d-drop-coordinate": ["C16"], "C03-rotation-axis-sign": [],
    "C04-normalize-any-all": [], "C12-perpendicular-inplace-view": [],
    "C09c-plane-basis-cached-property": ["C12"], "C13c-foci-cached-property": ["C12"], "C14c-dual-cached-property": ["C12"],
    "C15c-components-cached-property": ["C12"], "C17c-projection-basis-cached": ["C12"], "C18c-edges-cached-property": ["C12", "C16"],
    "C16c-edges-cached-property": ["C18"], "C06c-inverse-memo-never-invalidated": ["C07", "C12"], "C07c-inverse-cache-array-identity": ["C06"],
    "C10c-perpendicular-complex-alias": ["C12"], "C11c-crossratio-fill-aliases-operand": ["C12"], "C19c-normalize-astype-nocopy": ["C12"],
    "C03c-sphere-int-centre-dtype": ["C13"], "C03d-pencil-section-normalized-argmax": ["C11"], "C07d-lineline-any-coplanar": ["C02"],
    "C06d-adjugate3-cross-stack-axis": ["C20"], "C09d-basepoint-any-over-collection": ["C04"], "C04d-iscoplanar-early-exit-all": ["C10"],
    "C01d-meshgrid-xy-indexing": ["C02"],
    "C06b-inv-reciprocal-int-batch": ["C20"], "C02b-meshgrid-xy-indexing": ["C01"], "C12b-normalize-asarray-alias": ["C03"],
}


def sh(*cmd, **kw):
    return subprocess.run(cmd, capture_output=True, text=True, **kw)


def main():
    names = sys.argv[1:] or sorted(p.name for p in (ROOT / "seeded").iterdir() if (p / "patch.diff").exists())
    sh("git", "-C", "/repo", "worktree", "remove", "--force", WT)
    r = sh("git", "-C", "/repo", "worktree", "add", "--detach", WT, "HEAD")
    if r.returncode:
        print(r.stderr)
        sys.exit(2)
    rows = []
    try:
        for name in names:
            d = ROOT / "seeded" / name
            meta = json.loads((d / "meta.json").read_text())
            prop = meta["property"]
            a = sh("git", "-C", WT, "apply", str(d / "patch.diff"))
            if a.returncode:
                rows.append((name, prop, "PATCH DOES NOT APPLY", ""))
                continue
            detected = []
            runs = [(prop, "quick")] + EXTRA.get(name, []) + ([] if os.environ.get("MATRIX_NO_ALSO") else [(p, "quick") for p in ALSO.get(name, [])])
            for p, tier in runs:
                env = dict(os.environ, GEOMETER_SRC=WT)
                out = sh(str(ROOT / "bin" / "check"), p, tier, env=env, cwd=str(ROOT))
                nv = out.stdout.count("VIOLATION property=")
                groups = [l.split("in group ")[1].rstrip(")") for l in out.stdout.splitlines() if "in group " in l][:3]
                status = f"{p}/{tier}: " + ("DETECTED (" + "; ".join(groups) + ")" if nv else ("MACHINERY" if out.returncode == 2 else "not detected"))
                detected.append(status)
                print(name, status, flush=True)
            sh("git", "-C", WT, "checkout", "--", ".")
            meta["detected_by"] = detected
            (d / "meta.json").write_text(json.dumps(meta, indent=1))
            rows.append((name, prop, detected[0], " | ".join(detected[1:])))
    finally:
        sh("git", "-C", "/repo", "worktree", "remove", "--force", WT)
        sh("git", "-C", str(ROOT), "checkout", "--", "evidence")
    lines = ["# Seeded changes x checks", "",
             "Each seeded change (sub-agent written, confirmed: suite 126 passed, demo fails with / passes without) applied to a scratch",
             "worktree of /repo at HEAD (GEOMETER_SRC), then the quick check of the targeted property (further checks in the last column).", "",
             "| seed | property | targeted check | other checks |", "|---|---|---|---|"]
    # one row per kept seed, from its meta.json (so that a partial run does not drop the others)
    for d in sorted(p for p in (ROOT / "seeded").iterdir() if (p / "meta.json").exists()):
        meta = json.loads((d / "meta.json").read_text())
        det = meta.get("detected_by") or ["(not run)"]
        lines.append("| " + " | ".join([d.name + (" (rebased)" if meta.get("rebased") else ""), meta["property"], det[0], " ; ".join(det[1:])]) + " |")
    (ROOT / "seeded" / "MATRIX.md").write_text("\n".join(lines) + "\n")


if __name__ == "__main__":
    main()
