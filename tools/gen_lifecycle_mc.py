#!/venv/bin/python
"""Regenerate spec/Lifecycle_MC.tla from the action tables of harness/props/lifecycle.py."""
import sys
sys.path.insert(0, "/verif")
from harness.props.lifecycle import spec_tables_text  # noqa: E402

open("/verif/spec/Lifecycle_MC.tla", "w").write(spec_tables_text())
print("written")
