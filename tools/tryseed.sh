#!/bin/sh
# tools/tryseed.sh <worktree-suffix e.g. C01c> <property> [more properties...]: run the quick checks against the sub-agent's
# scratch worktree /tmp/wt_<suffix> (GEOMETER_SRC), print which groups fire, restore the evidence files afterwards.
n="$1"; shift
cd /verif || exit 2
for p in "$@"; do
  GEOMETER_SRC=/tmp/wt_$n ./bin/check "$p" quick > /tmp/out_${n}_$p.txt 2>&1
  rc=$?
  echo "$n/$p rc=$rc $(grep -c 'VIOLATION property' /tmp/out_${n}_$p.txt) group(s): $(grep 'in group' /tmp/out_${n}_$p.txt | sed 's/.*in group //' | head -4 | tr '\n' ';' | cut -c1-300)"
  [ "$rc" = 2 ] && tail -5 /tmp/out_${n}_$p.txt
done
git checkout -- evidence
