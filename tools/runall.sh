#!/bin/sh
# tools/runall.sh [quick|thorough]: every claimed check on the current tree, one summary line each
tier="${1:-quick}"
cd /verif
for p in C01 C02 C03 C04 C05 C06 C07 C08 C09 C10 C11 C12 C13 C14 C15 C16 C17 C18 C19 C20; do
  start=$(date +%s)
  out=$(./bin/check $p $tier 2>&1); rc=$?
  end=$(date +%s)
  echo "$p rc=$rc $((end-start))s $(echo "$out" | grep -c VIOLATION) violation-lines | $(echo "$out" | grep -E 'done:|MACHINERY' | tail -1 | cut -c1-150)"
done
