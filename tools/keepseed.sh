#!/bin/sh
# tools/keepseed.sh <prop id> <seed name> [worktree]: confirm a sub-agent's seeded change (suite passes, demo fails with it and
# passes without it), keep it under seeded/<name>/, remove the scratch worktree.
id="$1"; name="$2"; wt="${3:-/tmp/wt_$id}"
cd "$wt" || exit 2
export PYTHONPATH="$wt"
demo=$(ls demo_*.py | head -1)
git diff -- geometer > /tmp/keepseed.diff
[ -s /tmp/keepseed.diff ] || { echo "no change in worktree"; exit 2; }
suite=$(/venv/bin/python -m pytest -q -p no:cacheprovider tests 2>&1 | tail -1)
echo "suite with change: $suite"
/venv/bin/python "$demo" >/tmp/keepseed.with 2>&1; with=$?
git apply -R /tmp/keepseed.diff
/venv/bin/python "$demo" >/tmp/keepseed.without 2>&1; without=$?
git apply /tmp/keepseed.diff
echo "demo with change: exit $with ; without: exit $without"
case "$suite" in *"126 passed"*) ;; *) echo "REJECT: suite"; exit 1;; esac
[ "$with" -ne 0 ] && [ "$without" -eq 0 ] || { echo "REJECT: demo"; exit 1; }
d=/verif/seeded/$name; mkdir -p "$d"
cp /tmp/keepseed.diff "$d/patch.diff"; cp "$demo" "$d/"; [ -f meta.txt ] && cp meta.txt "$d/agent_notes.txt"
cat > "$d/meta.json" <<EOM
{"property": "$id", "name": "$name",
 "confirmed": {"suite_with_change": "$suite", "demo_exit_with_change": $with, "demo_exit_without_change": $without,
               "how": "tools/keepseed.sh in the scratch worktree (PYTHONPATH=worktree)"},
 "needs": "see agent_notes.txt", "detected_by": []}
EOM
cd /; git -C /repo worktree remove --force "$wt"; echo "kept $d"
