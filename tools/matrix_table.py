#!/venv/bin/python
"""Rebuild seeded/MATRIX.md from the meta.json files (detected_by is written by tools/seedmatrix.py seed by seed, so a partial
or a snapshot run - VERIF_ROOT=<copy> - can be merged: tools/matrix_table.py [<other root whose meta.json files are newer>])."""
import json
import sys
from pathlib import Path

ROOT = Path("/verif")
if len(sys.argv) > 1:
    src = Path(sys.argv[1]) / "seeded"
    for d in sorted(p for p in src.iterdir() if (p / "meta.json").exists()):
        dst = ROOT / "seeded" / d.name / "meta.json"
        if not dst.exists():
            continue
        new, old = json.loads((d / "meta.json").read_text()), json.loads(dst.read_text())
        if new.get("detected_by") and new.get("detected_by") != old.get("detected_by"):
            old["detected_by"] = new["detected_by"]
            old["matrix_run"] = new.get("matrix_run", "snapshot")
            dst.write_text(json.dumps(old, indent=1))
lines = ["# Seeded changes x checks", "",
         "Each seeded change (sub-agent written, confirmed: suite 126 passed, demo fails with / passes without) applied to a scratch",
         "worktree of /repo at HEAD (GEOMETER_SRC), then the quick check of the targeted property (further checks in the last column).", "",
         "| seed | property | targeted check | other checks |", "|---|---|---|---|"]
n = det = 0
for d in sorted(p for p in (ROOT / "seeded").iterdir() if (p / "meta.json").exists()):
    meta = json.loads((d / "meta.json").read_text())
    dby = meta.get("detected_by") or ["(not run)"]
    n += 1
    det += "DETECTED" in dby[0]
    lines.append("| " + " | ".join([d.name + (" (rebased)" if meta.get("rebased") else ""), meta["property"], dby[0], " ; ".join(dby[1:])]) + " |")
lines += ["", f"{det} of {n} seeded changes are detected by the quick check of the targeted property."]
(ROOT / "seeded" / "MATRIX.md").write_text("\n".join(lines) + "\n")
print(det, "of", n)
