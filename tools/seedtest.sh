#!/bin/sh
# tools/seedtest.sh <patch.diff> <property id>... : apply a seeded change to /repo, run the quick checks, undo it.
patch="$1"; shift
git -C /repo diff --quiet || { echo "/repo is dirty"; exit 2; }
git -C /repo apply "$patch" || { echo "patch does not apply"; exit 2; }
for p in "$@"; do
  ( cd /verif && ./bin/check "$p" ${TIER:-quick} 2>&1 | grep -E "VIOLATION|KNOWN-FINDING|MACHINERY|done:" | cut -c1-200 | (head -8; tail -1) )
done
git -C /repo checkout -- .
git -C /repo status --short | head -3
