#!/venv/bin/python
"""Regenerate MANIFEST.json from the table of claimed checks below (properties.jsonl is fixed)."""
import json
from pathlib import Path

ROOT = Path(__file__).resolve().parent.parent
props = [json.loads(l) for l in open(ROOT / "properties.jsonl")]

TRUST = ("TLC's evaluator and 32-bit exact integers (overflow is an error); the projection in "
         "harness/abstraction.py (classes up to scale, tol 1e-6); numpy; the bounded lattice: "
         "configurations outside it are reached only by the recorded-trace direction")

CLAIMS = {
 "C01": dict(
    text="TLC enumerates every join/meet configuration of the lattice (all 12 arity/kind families, both "
         "dimensions, plus the two round trips), certifies the constructive oracle against the declarative "
         "statement (incident with every argument, unique, order independent, round trip = first argument) and "
         "every enumerated case is replayed into geometer (function, method, constructor, lines built from "
         "arrays and from points, single objects and collections of several shapes); recorded geometer traces on "
         "a larger lattice are validated by TLC against the same operators.",
    design="5/C01", technique="TLC exhaustive lattice enumeration + spec-to-code replay + TLC trace validation"),
 "C02": dict(
    text="Same TLC run as C01: the enumeration contains every degenerate configuration of the lattice; the "
         "specification's outcome (none / LinearDependence / NotCoplanar, defined by incidence and certified "
         "against the zero test of the contraction) is compared exactly with the exception class geometer "
         "raises, for singles and for collections whose dependent_values mask must equal the spec's pattern.",
    design="5/C02", technique="TLC exhaustive lattice enumeration of degenerate strata + replay with exact error/mask comparison"),
 "C20": dict(
    text="TLC enumerates all 2x2 (entries -2..2) and 3x3 (entries -1..1) integer matrices, seeded 4x4/5x5 matrices with "
         "controlled rank defects, all root multisets (simple/double/triple/complex pair/lower degree), all lattice vector "
         "pairs; it certifies every formula variant the code selects (closed 2x2, Sarrus, minor table with sign pattern, "
         "epsilon contraction) against the Leibniz determinant and A adj(A) = det(A) I, so the algorithm choice is an unlogged "
         "variable. Each matrix is replayed through det/adjugate/inv on both sides of the 64-matrix thresholds, in several batch "
         "shapes and int/float/complex dtype; null_space/orth through rank facts; recorded batches of larger random matrices are "
         "validated by TLC.",
    design="5/C20", technique="TLC enumeration + certified exact oracle, replay on both sides of the batch thresholds, TLC trace validation"),
 "C05": dict(
    text="Diagram.tla is a state machine transcribed from TensorDiagram (_nodes/_unused_indices/_contraction_list, add_node, "
         "add_edge with the code's order of effects, calculate); TLC explores every history over every assignment of index-type "
         "patterns to the tensor objects, certifies the bookkeeping against the declarative pairing/Einstein sum, and every "
         "complete history is replayed on real tensors (stepwise, constructor, __mul__/__rmul__/__pow__/tensor_product) with "
         "exact integer comparison; recorded executions of real diagrams (private state logged after every call) are validated "
         "action by action; EpsDelta.tla gives every entry of eps(n), n<=6, and delta(n,p) from the definitions, compared under "
         "adversarial construction orders of the caches.",
    design="5/C05", technique="TLC state-graph exploration of the diagram state machine + replay + state-logging trace validation"),
 "C06": dict(
    text="C06_Group.tla is a state machine (object x0, applied operations t*x / t.inverse()*x / (t**k)*x, accumulated matrix); "
         "TLC checks on every reachable history that cur = Act(acc, x0) for every kind (point, line, plane, 3D line, quadric, dual "
         "quadric, segment, polygon, polyhedron), the kind is preserved, the cached supporting line/plane is the image, and the "
         "power law; every history is replayed on real objects sequentially, through apply(), as a composite transformation, on "
         "collections and through TransformationCollection.",
    design="5/C06", technique="TLC exploration of call histories with a group-action invariant + replay of every history"),
 "C07": dict(
    text="C07_Invariance.tla enumerates (configuration, matrix) pairs: all join/meet families on lattice classes incl. dependent and "
         "skew ones, incidence pairs, lattice points on/off quadrics with their polars, four collinear points by parameters; TLC "
         "certifies that the constructive action (cofactor matrix on hyperplanes, adj^T Q adj on quadrics) commutes with join/meet "
         "and preserves incidence/tangency/cross ratio; geometer is replayed on both sides of each equation.",
    design="5/C07", technique="TLC enumeration with commutation invariants + replay of both sides in geometer"),
 "C08": dict(
    text="C08_Constructors.tla gives the exact integer matrix (up to scale) of every constructor: lattice translations, "
         "Pythagorean rotations of the plane (+2 pi k), Rodrigues rotations about rational-length axes in every octant (both "
         "handedness candidates, one consistent choice required), scalings, Householder reflections in every lattice line/plane, "
         "projective frame maps by adjugates, conic frame maps; TLC certifies them against the Euclidean definitions on lattice "
         "points (adds the offset, isometry of positive determinant fixing the axis with trace 1+2cos and additive composition, "
         "involution fixing the mirror pointwise = mirror image, maps each frame point); geometer's matrices and images are compared.",
    design="5/C08", technique="TLC enumeration of constructor arguments with definitional invariants + replay of matrices and images"),
 "C12": dict(
    text="Purity.tla: a workspace of ~50 objects of every class (2D/3D, single/collection, polytopes with cached supporting "
         "line/plane, quadrics, transformations) plus module constants and the epsilon/delta caches; every public operation is "
         "the action Call(op) with UNCHANGED pool and the fresh-workspace answer.  TLC generates every ordered pair of the 203 "
         "operations (writer x reader matrix) and seeded random histories; each is executed on a freshly built real workspace, "
         "the bit-exact digest of every object/constant/cache and the answer are logged after every call, and TLC validates the "
         "log against Purity (rejecting at the writing step or at the reading step).",
    design="5/C12", technique="TLC-generated call histories + digest-logging trace validation against a purity state machine"),
 "C09": dict(
    text="C09_Metric.tla gives exact squared distances (rationals, infinity) and angle classes ([cos:sin] modulo pi in the plane, "
         "cos^2 in space) for every supported kind combination on the lattice: point-point incl. one at infinity, point-line/"
         "plane incl. proportional coordinate vectors, point-3D line, point-segment with clamping, point-polygon (region) in 2D "
         "and 3D incl. planes far from the origin, point-cuboid, parallel plane-plane/plane-line, angles of points/lines/planes; "
         "TLC certifies symmetry, zero-iff-incident, foot realises the distance, clamping minimality, antisymmetry and isometry "
         "invariance; geometer is replayed in both argument orders, singles and collections.",
    design="5/C09", technique="TLC lattice enumeration with an exact rational metric oracle + replay"),
 "C16": dict(
    text="C16_Membership.tla enumerates every simple polygon with 3 and 4 vertices on a grid as an ordered vertex list (all cyclic "
         "starts, both directions, convex and non-convex) and every query point of the surrounding grid, half-grid points and "
         "points at infinity, labelled by the spec (vertex, edge, edge extension, level with a vertex, interior, exterior), the same "
         "polygons under five integer embeddings into 3-space (incl. a plane far from the origin crossing z=0) with off-plane "
         "queries, and segments/rays in 2D/3D; membership is declarative (boundary or winding number; p = a + x(b-a)), certified "
         "against crossing parity, barycentric coordinates and cycle invariance; Polygon/Triangle/Rectangle/PolygonCollection/"
         "Segment.contains are replayed through the single-point and the collection code paths.",
    design="5/C16", technique="TLC exhaustive enumeration of grid polygons x query points with a winding-number oracle + replay"),
 "C17": dict(
    text="C17_Measures.tla: exact shoelace area, area centroid, vector area of embedded polygons, circumcentre, determinant volume, "
         "cuboid surface on orthogonal integer frames, regular-polygon read-backs, and cyclic equality of vertex lists; TLC "
         "certifies invariance under rotation/reversal of the vertex list and lattice translation, fan decomposition, the "
         "embedding's area factor, equidistance of the circumcentre and symmetry of equality; geometer is replayed for Polygon/"
         "Triangle/Rectangle/RegularPolygon/Simplex/Cuboid, for collection areas, items obtained by indexing/iteration and the "
         "faces of polyhedra, and for == over all 24 orderings of quadrilateral vertex lists.",
    design="5/C17", technique="TLC enumeration of grid polytopes with exact measure oracles + replay"),
 "C18": dict(
    text="C18_Intersect.tla computes the exact set of common points (or, for overlapping operands, the relation 'subset of the "
         "common points') for grid segments x segments/lines, convex and non-convex polygons x lines/segments, polygons of 3-space "
         "and cuboids x lines/segments, segments x planes; TLC certifies that every expected point is on both operands and every "
         "lattice point on both operands is expected, at most two points for convex polygons/cuboids; geometer's result lists are "
         "compared as sets of projective points with each point once, in both argument orders, with mixed-sign homogeneous "
         "representatives of the vertices, and through SegmentCollection.",
    design="5/C18", technique="TLC enumeration with an exact intersection-set oracle + replay"),
 "C10": dict(
    text="C10_Constructions.tla gives exact homogeneous results for perpendicular/parallel/project/mirror of every lattice line of "
         "the plane and plane of space against every lattice point (also points on the subspace), of lines of 3-space through "
         "lattice points, exact truth values of is_parallel/is_perpendicular/is_cocircular/is_collinear/is_concurrent/is_coplanar "
         "(incl. repeated points and more than dim+1 arguments), rational angle bisectors; TLC certifies the defining relations "
         "(foot on s with p-foot normal, mirror an involution with midpoint the foot, parallel through p, bisectors perpendicular "
         "with equal angles); results whose choice the property leaves open (base_point, basis_matrix, general_point, perpendicular "
         "through a point on a 3D line, irrational bisectors) are checked through the stated relation; singles and collections "
         "with mixed on/off masks.",
    design="5/C10", technique="TLC lattice enumeration with exact constructions + replay (exact classes or stated relations)"),
 "C11": dict(
    text="C11_CrossRatio.tla: points a + x b with parameters from P^1(Q) (incl. the point b itself and the origin, one repeated "
         "point) on carriers of P^1, P^2, P^3, pencils of lines through vertices at the origin / on the axes / at infinity / "
         "generic, pencils of planes through lattice axes (incl. an axis at infinity), the from_point form, harmonic sets, "
         "collinear and non-collinear quadruples; TLC certifies the closed form from the coordinates, the five symmetries, the "
         "pencil value through dual coordinates, invariance under the matrix pool and cr(a,b,c,harmonic) = -1; geometer's values, "
         "harmonic points and NotCollinear/NotConcurrent are compared, singles, scaled representatives and collections.",
    design="5/C11", technique="TLC enumeration of parameter quadruples and pencils with a rational cross-ratio oracle + replay"),
 "C13": dict(
    text="C13_QuadricCtors.tla gives the exact integer matrix (up to scale) of the conic through five points (bracket formula; "
         "also the cross-ratio form), of circles/ellipses/spheres at lattice centres with rational radii and of cones/cylinders "
         "with lattice vertices, rational radii and axis directions in all octants, from the Cartesian locus polynomials; TLC "
         "certifies that the five points, rational rim points from orthogonal integer frames with Pythagorean angles, the apex / "
         "the axis point at infinity (singular point) satisfy them; geometer's matrices are compared as classes, contains() on "
         "the exact on/off probe sets, and center/radius/foci/area/volume read-backs; from_tangent/from_foci are checked through "
         "the stated relation (incidence, tangency and isotropic tangents evaluated by the harness in complex arithmetic).",
    design="5/C13", technique="TLC enumeration of defining data with exact locus matrices + replay (classes, probes, relations)"),
 "C14": dict(
    text="C14_QuadricLine.tla parametrises every lattice line as sA+tB, forms the binary quadratic of the quadric on it and "
         "assigns the stratum from the discriminant (tangent, secant-rational, complex-gaussian, secant-/complex-irrational, "
         "line-in-quadric) for generic symmetric matrices, circles, ellipse, hyperbola, parabola, imaginary conic, line pairs, "
         "double line, spheres, cone, cylinder, hyperboloid and plane pairs; exact real/Gaussian points are emitted where they "
         "exist and certified (on both; a secant through two lattice points of the quadric returns those two); pole/polar "
         "reciprocity, tangency via the adjugate and dual-of-dual are certified; geometer's intersect/tangent/polar/dual/"
         "is_tangent are compared per stratum (exact sets, contact point once or twice, conjugate pairs, facts for irrational "
         "points) for every quadric class.",
    design="5/C14", technique="TLC enumeration with discriminant-stratified exact intersection oracle + replay"),
 "C15": dict(
    text="C15_Degenerate.tla enumerates every ordered pair of lattice lines (all sign patterns, non-primitive representatives, "
         "equal lines) and planes for from_lines/from_planes, certifies that the pair quadric contains exactly the lattice "
         "points of its two components, and builds conic pairs from KNOWN common points: pencils through four lattice points "
         "(second or first conic possibly degenerate), tangent pencils (double base point = repeated resolvent root), circle "
         "pairs (I, J), concentric and tangent circles, conjugate Gaussian pairs, certified by 'base points on both, no other "
         "lattice point on both'; geometer's is_degenerate/components (single and collection), NotReducible for irreducible "
         "quadrics and Conic.intersect(Conic) (at most four, each on both, every common point present) are compared.",
    design="5/C15", technique="TLC enumeration of component pairs and of conic pencils with known base points + replay"),
 "C19": dict(
    text="C19_Index.tla transcribes numpy's indexing rules (Ellipsis expansion, integers turning advanced next to arrays, masks "
         "consuming their rank, adjacency judged on the original tuple, placement of the broadcast block) into a model that "
         "yields result shape and per-axis provenance, certifies provenance injectivity / type inheritance / the rank law, and "
         "is itself checked against numpy's result shape on every case; TLC enumerates every index expression up to length 3 (4) "
         "over nine item kinds x every tensor up to rank 3 (4) with every placement of collection/covariant/contravariant axes; "
         "C19_Arith.tla gives exact rational results for the operator x operand-kind table (tensor, ndarray, broadcast row, "
         "python/numpy scalars, left and right, numpy ufuncs), affine point arithmetic with points at infinity and non-normalised "
         "representatives, and transpose in permutation and cycle notation.",
    design="5/C19", technique="TLC enumeration of index expressions against a numpy-indexing model + exact arithmetic table + replay"),
 "C04": dict(
    text="C04_Coll.tla states what a collection operation means: CollOp(A,B)[i] = Op(A[Proj(i,sa)], B[Proj(i,sb)]) on the broadcast "
         "box (right alignment, single object = shape <<>>), certifies the broadcasting laws and that the index map covers every "
         "element and is a bijection on full-shape arguments; TLC enumerates 61 operations x every collection shape (one or two "
         "axes, length 1 included) x every mix of single and collection arguments x contents picked from lattice pools, and emits "
         "for every result position which element of every argument it must be computed from.  The property is relational: the "
         "replay stacks real single objects accordingly and compares every position with the same operation on the singles "
         "(exceptions and dependent_values masks included); indexing, negative indexing, iteration and two-axis indexing of every "
         "collection class must give the element class with its attributes (is_dual, pdim, index types, covariant 3D lines).",
    design="5/C04", technique="TLC enumeration of operation x shape x single/collection mixes with a broadcast index-map spec + replay against singles"),
 "C03": dict(
    text="C03_Repr.tla is a state machine over stored representatives: Rescale(i, k) replaces the representative of argument i by a "
         "non-zero multiple and the action property [][Rescale => answer' = answer]_vars must hold; every answer (==, contains, "
         "dist, angle, cross ratio, join/meet, segment/polygon membership, polygon area, conic membership/polar, transformation "
         "apply/compose, parallel/perpendicular/collinear/cocircular, midpoint, project, mirror, 3D variants) is computed from the "
         "RAW representatives, so TLC certifies that the oracle itself is representative independent (negative factors, "
         "non-primitive vectors, up to two rescalings of any arguments).  The replay multiplies each argument position (each "
         "vertex, each matrix) of every configuration by the float factor table incl. negative factors (complex ones for the "
         "algebraic operations) and compares with the exact answer; constructors taking points/lines as data are compared with "
         "their unscaled call.",
    design="5/C03", technique="TLC action property over a rescaling state machine + replay with float/complex factor table"),
}

# what was added after the first version of each check (DESIGN.md 0.3 - 0.5)
OPS = " Recorded calls on coordinates up to +-9 (denominators up to 3) are validated by TLC against spec/Trace_Ops.tla."
MOVED = " Used-then-moved variants (harness/moved.py): the object answers, is moved by an exact integer isometry and must answer for its new position."
ADDED = {
 "C01": " C01_Complex.tla adds Gaussian-integer coordinates (multilinear expansion of the integer operators); a far-from-origin variant (integer "
        "translation by 1e8 / 4e5) is compared with exact rational arithmetic; the thorough tier lifts the incidence lemmas to all integers with Apalache.",
 "C02": " C01_Complex.tla adds Gaussian-integer dependent configurations; the thorough tier lifts the incidence lemmas to all integers with Apalache.",
 "C03": " Integer representatives whose last coordinate does not divide the others are compared with the float representative.",
 "C04": " Every case also runs with the elements of each collection rescaled by factors between 0.001 and 2000 (matrices: 0.05 - 30); cross ratio / harmonic "
        "set / special-position 3D line families were added to the operation table.",
 "C06": OPS + " Transformation collections of 70 elements, a transformation object reused after item assignment, expand_dims after inverse.",
 "C07": OPS + " Polytope images vertex by vertex in order; a transformation object reused after item assignment; Apalache lifts the cofactor lemma (thorough).",
 "C08": " Offsets given as points: scaled, negative and at-infinity (direction) representatives.",
 "C09": OPS + " Polytope x PointCollection and plane x LineCollection groups; isometry invariance on operands that were already used." ,
 "C10": OPS + " Complex-dtype and complex-multiple representatives of the hyperplanes; the operand must come out unchanged.",
 "C11": OPS + " All lattice carrier lines incl. dyadic ones, pencils of lines in 3-space, a = b positions, operands-unchanged and repeated-call checks for collections; "
        "Apalache lifts the three-term relation (thorough).",
 "C12": " Three workspace modes (integer, float64 with w = 2, complex128), derive-then-query operations, collections mixing points at infinity with "
        "non-normalised points.  Second state machine Lifecycle.tla: objects are derived (transformed, translated, copied, given an axis) and edited by "
        "item assignment with queries interleaved in every order; every answer must be bit-identical to that of the object rebuilt from a fresh root by "
        "its derive/edit path.",
 "C13": OPS + MOVED + " Integer centres with w = 2 and integer radii.",
 "C14": MOVED + " Collection replay (one quadric x LineCollection, QuadricCollection x LineCollection) with mixed scales.",
 "C15": MOVED + " Exact integer translation far from the origin (classification only).",
 "C16": OPS + MOVED + " Vertices assigned in place through item assignment.",
 "C17": OPS + MOVED,
 "C18": MOVED + " Segments on the supporting line of a polygon edge (exact when the overlap is at most a point), collections mixing collinear pairs, polygon x "
        "LineCollection and PolygonCollection x line in 3-space.",
 "C19": " Index items also cover negative numpy integers, stepped and reversed slices, 0-d arrays; point arithmetic on float representatives must leave "
        "its operands unchanged.",
 "C20": " Full column rank, dim = 0, tall and wide matrices for null_space/orth; column-major, permuted-axes and read-only inputs; Apalache lifts "
        "A adj(A) = det(A) I (thorough).",
}

ADDED2 = {'C01': ' Coordinates stored as uint8/16/32/64, int16/32, float32; all pairwise joins / meets of two collections through expand_dims.', 'C03': ' Conic constructors (from_points, from_tangent, from_crossratio, from_foci) and polytope == (same cycle from another start / reversed, per-vertex factors) under rescaling; Rescale replayed over the whole operation table shared with Purity.tla (266 operations, rescaled workspaces and one object at a time; harness/tableinv.py).', 'C04': ' Triangle collections; membership of points known to lie inside / on an edge / at a vertex / outside, with negative and mixed representatives.', 'C05': ' Kronecker deltas up to n = 9.', 'C06': ' Group laws of identity(), t**0, t.inverse()*t after an earlier identity was edited in place.', 'C07': ' Pencils of lines and planes over every cross-ratio case (vertices sent to infinity, four argument orders; invariant PencilCRInvariant).', 'C08': ' Rotation axes given as long vectors stored in int16/int32/int64/uint16.', 'C09': ' Task angld2: a line and a direction (both argument orders, rescaled, collections; invariant AngleDirectionLaws).', 'C10': ' Lines of 3-space used and then moved by exact isometries (project, base_point, basis_matrix, perpendicular).', 'C12': ' Every operation asked first in a new interpreter (harness/fresh.py) and the cache-reading operations in all ordered pairs from empty caches; every answer overwritten in place and asked again on a new workspace.', 'C13': ' from_points far out on the integer lattice (x90, x400, integer dtype).', 'C14': ' tangent(at) at the (possibly complex) points intersect returns and at exact Gaussian-integer points.', 'C15': ' Collections of plane pairs of 3-space, alone and with irreducible / non-degenerate quadrics mixed in.', 'C17': ' Regular polygons of 3-space about ten axis vectors (any length, any direction).', 'C18': ' In-plane segments / lines mixed into 3D collections (single polygon and PolygonCollection, both orders); collections after all their properties were read.', 'C19': ' Tasks tprod (tensor_product for every index-type layout; invariant TensorProductAxes) and expand (expand_dims for every layout incl. a collection axis behind a tensor index; invariant ExpandKeepsTypes).', 'C20': " Task cubic: every polynomial of an integer coefficient box (cubic / quadratic / linear), oracle = Vieta's relations, strata = the case analysis of Cardano's method (invariants VietaOnChosenRoots, DiscriminantOnChosenRoots, DiscriminantSound)."}

checks = []
for p in props:
    c = CLAIMS.get(p["id"])
    if not c:
        continue
    c = dict(c, text=c["text"] + ADDED.get(p["id"], "") + ADDED2.get(p["id"], ""), design=c["design"] + "; 0.3-0.5")
    checks.append({
        "property_id": p["id"],
        "quick_cmd": f"./bin/check {p['id']} quick",
        "thorough_cmd": f"./bin/check {p['id']} thorough",
        "evidence_file": f"/verif/evidence/{p['id']}.json",
        "replay_cmd_template": f"./bin/check {p['id']} --replay {{path}}",
        "engine": "tlc-lattice-oracle",
        "level_claimed": {"category": "model_checking", "text": c["text"], "design_ref": c["design"]},
        "level_note": TRUST,
        "technique": c["technique"],
    })

NA = {}
m = {
 "version": 1,
 "setup_cmd": "./bin/setup",
 "hooks": {"guard": "GEOMETER_VERIF_TRACE",
           "enable": "no source hooks in /repo are needed: the recorder wraps geometer's public API inside the harness "
                     "process and is active only when GEOMETER_VERIF_TRACE=1 (set by bin/check)",
           "baseline_off_cmd": "cd /repo && /venv/bin/python -m pytest -ra -q -p no:cacheprovider --timeout=900 --continue-on-collection-errors",
           "source_commits": [], "add_only": True},
 "engines": [{"name": "tlc-lattice-oracle", "path": "spec/", "serves_properties": [c["property_id"] for c in checks],
              "kind_free_text": "explicit TLA+ specification (exact integer oracle on a lattice, constructive layer shaped like the "
                                "implementation, declarative layer = property text) model-checked by TLC; bound to geometer by replay of "
                                "TLC-dumped behaviours and by TLC validation of traces recorded from geometer"}],
 "checks": checks,
 "notes": "see DESIGN.md; exit 2 = machinery failure (no verdict)",
 "not_applicable": [{"property_id": p["id"], "reason": NA.get(p["id"], "check not built yet in this round (no claim yet)")}
                    for p in props if p["id"] not in CLAIMS],
}
json.dump(m, open(ROOT / "MANIFEST.json", "w"), indent=1)
print("claimed:", [c["property_id"] for c in checks])
