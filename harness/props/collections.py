"""C04: collections compute element by element (C04_Coll.tla): broadcasting semantics from the spec, singles as oracle."""
from __future__ import annotations

import json
from multiprocessing import Pool

import numpy as np

from ..abstraction import coords_of, kind_of, same_class
from ..core import Ctx, MachineryError, S, cfg_text, import_geometer, read_dump

RULE = ("cases = operation x tuple of argument shapes (single object, one or two collection axes, axes of length 1) x contents "
        "chosen by the spec from pools of lattice objects; each result position is compared with the same operation on the single "
        "objects the spec's index map designates; indexing/iteration of every collection class must give the element class with "
        "its attributes; non-trivial = a single object broadcast against a collection, a length-1 axis, two collection axes")

# ---- pools of single objects (by kind), integer lattice data ------------------------------------------------
def pools():
    g = import_geometer()
    P2 = [(1, 2, 1), (0, 0, 1), (3, -1, 1), (-2, 1, 2), (2, 2, 1), (0, 1, 1), (1, 0, 1), (-1, -1, 1), (4, 1, 2), (1, 3, 1), (2, -3, 1)]
    L2 = [(1, 2, -3), (0, 1, -2), (1, 0, 1), (2, -1, 1), (1, 1, 0), (3, 1, -2), (1, -2, 4), (0, 1, 0), (2, 3, -6), (1, -1, 1), (-1, 2, 2)]
    P3 = [(1, 2, 3, 1), (0, 0, 0, 1), (2, -1, 1, 1), (1, 1, 1, 2), (0, 1, -1, 1), (3, 0, 1, 1), (-1, 2, 0, 1), (1, 0, 0, 1), (0, 2, 2, 1), (2, 2, -1, 1), (1, -2, 1, 1)]
    E3 = [(1, 0, -1, 2), (0, 1, 1, -1), (1, 1, 1, -3), (2, -1, 0, 1), (0, 0, 1, -2), (1, 2, -2, 3), (1, 0, 0, 0), (3, 1, -1, 0), (0, 1, 0, 4), (1, -1, 1, 1), (2, 0, 1, -5)]
    # lines of 3-space through the common point (1,2,3): any two are coplanar
    D3 = [(1, 0, 0), (0, 1, 0), (0, 0, 1), (1, 1, 0), (1, -1, 2), (2, 1, -1), (0, 1, 1), (1, 2, 2), (-1, 0, 1), (3, 1, 0), (1, 1, 1)]
    Q2 = [np.diag([1, 1, -4]), np.diag([1, -1, -1]), np.array([[1, 2, 0], [2, 1, 1], [0, 1, 3]]), np.diag([4, 9, -36]), np.array([[0, 0, -1], [0, 2, 0], [-1, 0, 0]]),
          np.array([[1, 0, -1], [0, 1, -2], [-1, -2, 1]]), np.diag([2, 1, -3]), np.array([[1, 1, 0], [1, -1, 2], [0, 2, 1]]), np.diag([1, 2, 3]), np.array([[2, 0, 1], [0, -1, 0], [1, 0, 1]]),
          np.array([[1, 0, 0], [0, 1, 0], [0, 0, -1]])]
    T2 = [np.array([[1, 0, 1], [0, 1, 2], [0, 0, 1]]), np.array([[1, 1, 0], [0, 1, 0], [0, 0, 1]]), np.array([[2, 0, 0], [0, -1, 0], [0, 0, 1]]),
          np.array([[0, -1, 0], [1, 0, 0], [0, 0, 1]]), np.array([[1, 0, 0], [0, 1, 0], [1, 1, 1]]), np.array([[1, 2, 0], [0, 1, 1], [1, 0, 2]]),
          np.array([[0, 1, 0], [0, 0, 1], [1, 0, 0]]), np.array([[1, 0, 3], [0, 2, -1], [0, 0, 1]]), np.array([[3, 1, 0], [1, 1, 0], [0, 0, 1]]),
          np.array([[1, 0, 0], [2, 1, 0], [0, 0, 2]]), np.array([[1, -1, 1], [1, 1, 0], [0, 0, 1]])]
    SEG = [((0, 0), (2, 1)), ((1, 1), (3, 1)), ((-1, 2), (2, -1)), ((0, 2), (2, 0)), ((1, 0), (1, 3)), ((2, 2), (-1, 0)), ((0, 0), (0, 2)), ((3, 1), (1, -2)),
           ((1, 2), (4, 2)), ((-2, -1), (1, 1)), ((0, 1), (3, 3))]
    POLY = [((0, 0), (2, 0), (2, 2), (0, 2)), ((1, 1), (4, 1), (4, 3), (1, 3)), ((0, 0), (3, 0), (1, 1), (0, 3)), ((-1, 0), (1, -1), (2, 1), (0, 2)),
            ((0, 0), (4, 0), (4, 1), (0, 1)), ((1, 0), (3, 1), (2, 3), (0, 2)), ((2, 2), (5, 2), (5, 5), (2, 5)), ((0, 1), (1, 0), (2, 1), (1, 2)),
            ((-2, -2), (0, -2), (0, 0), (-2, 0)), ((1, -1), (3, 0), (2, 2), (0, 1)), ((0, 0), (1, 0), (1, 4), (0, 4))]
    TS = [(0, 1), (1, 1), (-1, 1), (2, 1), (1, 2), (3, 1), (-2, 1), (1, 0), (5, 2), (-1, 3), (4, 1)]       # parameters x = s/t on a carrier
    CP2 = [(1 * t + 2 * s, 1 * t + 1 * s, t) for s, t in TS]                    # collinear: (1,1) + x (2,1), one of them at infinity
    CP3 = [(1 * t + s, 2 * t - s, 3 * t + 2 * s, t) for s, t in TS]             # collinear in space: (1,2,3) + x (1,-1,2)
    CL2 = [(t, s, -(t + 2 * s)) for s, t in TS]                                 # concurrent in (1,2)
    CE3 = [(t, -t, s, -s) for s, t in TS]                                       # coaxial: the planes through (0,0,1) + x (1,1,0)
    # lines of space in special positions: through the origin, parallel to an axis, in a coordinate plane, at infinity, generic
    LX = [((0, 0, 0), (1, 2, 3)), ((0, 0, 3), (1, 0, 3)), ((-2, -2, 0), (-1, -2, 0)), ((2, 2, 3), (2, 5, 3)), ((1, 1, 1), (2, 3, 5)), ((0, 0, 0), (0, 0, 1)),
          ((1, 0, 0), (1, 0, 4)), ((0, 1, 2), (3, 1, 2)), ((1, 2, 0), (3, -1, 0)), ((0, 0, 0), (1, 1, 0)), ((4, -1, 2), (0, 1, 1))]
    # points of which many triples / quadruples are collinear (on y = x) or coplanar (in z = x + y) and many are not
    MP2 = [(0, 0, 1), (1, 1, 1), (2, 2, 1), (3, 3, 1), (1, 0, 1), (0, 2, 1), (4, 4, 1), (2, 1, 1), (-1, -1, 1), (5, 5, 2), (3, 1, 1)]
    ML2 = [(1, -1, 0), (1, 0, -1), (0, 1, -1), (1, 1, -2), (2, -1, -1), (1, 0, 0), (1, 2, -3), (0, 1, 2), (3, -2, -1), (1, 1, 1), (1, -3, 2)]   # many pass through (1,1)
    MP3 = [(0, 0, 0, 1), (1, 0, 1, 1), (0, 1, 1, 1), (1, 1, 2, 1), (2, 1, 3, 1), (1, 2, 3, 1), (0, 0, 1, 1), (2, 2, 4, 1), (1, 0, 0, 1), (-1, 1, 0, 1), (3, 0, 3, 1)]
    Q3 = [np.diag([1, 1, 1, -25]), np.diag([1, 1, -1, -1]), np.diag([4, 1, 9, -36]), np.diag([1, -1, 1, 1]), np.diag([1, 2, 3, -6]),
          np.array([[1, 0, 0, -1], [0, 1, 0, 0], [0, 0, 1, -2], [-1, 0, -2, -4]]), np.diag([2, 1, 1, -9]), np.diag([1, 1, 4, -16]),
          np.array([[1, 1, 0, 0], [1, 2, 0, 1], [0, 0, -1, 1], [0, 1, 1, 3]]), np.diag([1, 3, 1, -12]), np.diag([3, 1, 2, -18])]
    return {
        "quadric3": ([g.Quadric(q) for q in Q3], lambda xs: g.QuadricCollection(np.array([x.array for x in xs]))),
        "mpoint2": ([g.Point(np.array(p)) for p in MP2], lambda xs: g.PointCollection(np.array([x.array for x in xs]))),
        "mline2": ([g.Line(np.array(l)) for l in ML2], lambda xs: g.LineCollection(np.array([x.array for x in xs]))),
        "mpoint3": ([g.Point(np.array(p)) for p in MP3], lambda xs: g.PointCollection(np.array([x.array for x in xs]))),
        "line3x": ([g.Line(g.Point(*a), g.Point(*b)) for a, b in LX], lambda xs: g.LineCollection(np.array([x.array for x in xs]))),
        "cpoint2": ([g.Point(np.array(p)) for p in CP2], lambda xs: g.PointCollection(np.array([x.array for x in xs]))),
        "cpoint3": ([g.Point(np.array(p)) for p in CP3], lambda xs: g.PointCollection(np.array([x.array for x in xs]))),
        "cline2": ([g.Line(np.array(l)) for l in CL2], lambda xs: g.LineCollection(np.array([x.array for x in xs]))),
        "cplane3": ([g.Plane(np.array(e)) for e in CE3], lambda xs: g.PlaneCollection(np.array([x.array for x in xs]))),
        # concurrent and coplanar lines of space: through (1,2,3) in the plane spanned by (1,0,1) and (0,1,1)
        "cline3": ([g.Line(g.Point(1, 2, 3), g.Point(np.array([1 * 1 + t * 1, 2 + s, 3 + t + s, 1]))) for s, t in TS],
                   lambda xs: g.LineCollection(np.array([x.array for x in xs]))),
        "point2": ([g.Point(np.array(p)) for p in P2], lambda xs: g.PointCollection(np.array([x.array for x in xs]))),
        "line2": ([g.Line(np.array(l)) for l in L2], lambda xs: g.LineCollection(np.array([x.array for x in xs]))),
        "point3": ([g.Point(np.array(p)) for p in P3], lambda xs: g.PointCollection(np.array([x.array for x in xs]))),
        "plane3": ([g.Plane(np.array(e)) for e in E3], lambda xs: g.PlaneCollection(np.array([x.array for x in xs]))),
        "line3": ([g.Line(g.Point(1, 2, 3), g.Point(1 + d[0], 2 + d[1], 3 + d[2])) for d in D3], lambda xs: g.LineCollection(np.array([x.array for x in xs]))),
        "quadric2": ([g.Conic(q) for q in Q2], lambda xs: g.QuadricCollection(np.array([x.array for x in xs]))),
        "trafo2": ([g.Transformation(t) for t in T2], lambda xs: g.TransformationCollection(np.array([x.array for x in xs]))),
        "seg2": ([g.Segment(g.Point(*a), g.Point(*b)) for a, b in SEG], lambda xs: g.SegmentCollection(np.array([x.array for x in xs]))),
        "poly2": ([g.Polygon(*[g.Point(*v) for v in vs]) for vs in POLY], lambda xs: g.PolygonCollection(np.array([x.array for x in xs]))),
        # three-vertex polygons: the items of such a collection are Triangle objects (their own membership code), the single
        # side of the comparison is built with the Triangle class
        "tri2": ([g.Triangle(*[g.Point(*v) for v in vs[:3]]) for vs in POLY], lambda xs: g.PolygonCollection(np.array([x.array for x in xs]))),
    }


def optable():
    g = import_geometer()
    T = {}

    def op(name, kinds, fn):
        T[name] = (kinds, fn)

    op("join_pp2", ("point2", "point2"), lambda a, b: g.join(a, b))
    op("meet_ll2", ("line2", "line2"), lambda a, b: g.meet(a, b))
    op("join_pp3", ("point3", "point3"), lambda a, b: g.join(a, b))
    op("join_ppp3", ("point3", "point3", "point3"), lambda a, b, c: g.join(a, b, c))
    op("join_lp3", ("line3", "point3"), lambda a, b: g.join(a, b))
    op("meet_ee3", ("plane3", "plane3"), lambda a, b: g.meet(a, b))
    op("meet_eee3", ("plane3", "plane3", "plane3"), lambda a, b, c: g.meet(a, b, c))
    op("meet_el3", ("plane3", "line3"), lambda a, b: g.meet(a, b))
    op("meet_ll3", ("line3", "line3"), lambda a, b: g.meet(a, b))
    op("join_ll3", ("line3", "line3"), lambda a, b: g.join(a, b))
    op("contains_lp2", ("line2", "point2"), lambda a, b: a.contains(b))
    op("contains_ep3", ("plane3", "point3"), lambda a, b: a.contains(b))
    op("contains_lp3", ("line3", "point3"), lambda a, b: a.contains(b))
    op("contains_el3", ("plane3", "line3"), lambda a, b: a.contains(b))
    op("is_parallel_ll2", ("line2", "line2"), lambda a, b: a.is_parallel(b))
    op("is_parallel_ee3", ("plane3", "plane3"), lambda a, b: a.is_parallel(b))
    op("parallel_lp2", ("line2", "point2"), lambda a, b: a.parallel(b))
    op("perpendicular_lp2", ("line2", "point2"), lambda a, b: a.perpendicular(b))
    op("project_lp2", ("line2", "point2"), lambda a, b: a.project(b))
    op("mirror_lp2", ("line2", "point2"), lambda a, b: a.mirror(b))
    op("perpendicular_ep3", ("plane3", "point3"), lambda a, b: a.perpendicular(b))
    op("project_ep3", ("plane3", "point3"), lambda a, b: a.project(b))
    op("mirror_ep3", ("plane3", "point3"), lambda a, b: a.mirror(b))
    op("project_lp3", ("line3", "point3"), lambda a, b: a.project(b))
    op("perpendicular_lp3", ("line3", "point3"), lambda a, b: a.perpendicular(b))
    op("base_point_l2", ("line2",), lambda a: a.base_point)
    op("direction_l2", ("line2",), lambda a: a.direction)
    op("direction_l3", ("line3",), lambda a: a.direction)
    op("base_point_l3", ("line3x",), lambda a: a.base_point)
    op("direction_l3x", ("line3x",), lambda a: a.direction)
    op("project_l3x", ("line3x", "point3"), lambda a, b: a.project(b))
    op("perpendicular_l3x", ("line3x", "point3"), lambda a, b: a.perpendicular(b))
    op("parallel_l3x", ("line3x", "point3"), lambda a, b: a.parallel(b))
    op("contains_l3x", ("line3x", "point3"), lambda a, b: a.contains(b))
    op("dist_l3x_p", ("line3x", "point3"), lambda a, b: g.dist(a, b))
    op("is_parallel_ll3x", ("line3x", "line3x"), lambda a, b: a.is_parallel(b))
    op("dist_el3", ("plane3", "line3x"), lambda a, b: g.dist(a, b))
    op("dist_le3", ("line3x", "plane3"), lambda a, b: g.dist(a, b))
    op("basis_matrix_l3", ("line3x",), lambda a: a.basis_matrix)
    op("isinf_p2", ("point2",), lambda a: a.isinf)
    op("dist_pp2", ("point2", "point2"), lambda a, b: g.dist(a, b))
    op("dist_pp3", ("point3", "point3"), lambda a, b: g.dist(a, b))
    op("dist_lp2", ("line2", "point2"), lambda a, b: g.dist(a, b))
    op("dist_ep3", ("plane3", "point3"), lambda a, b: g.dist(a, b))
    op("angle_ppp2", ("point2", "point2", "point2"), lambda a, b, c: g.angle(a, b, c))
    op("angle_ll2", ("line2", "line2"), lambda a, b: g.angle(a, b))
    op("angle_ee3", ("plane3", "plane3"), lambda a, b: g.angle(a, b))
    op("crossratio_from2", ("point2", "point2", "point2", "point2", "point2"), lambda a, b, c, d, e: g.crossratio(a, b, c, d, e))
    op("crossratio_pppp2", ("cpoint2",) * 4, lambda a, b, c, d: g.crossratio(a, b, c, d))
    op("crossratio_pppp3", ("cpoint3",) * 4, lambda a, b, c, d: g.crossratio(a, b, c, d))
    op("crossratio_llll2", ("cline2",) * 4, lambda a, b, c, d: g.crossratio(a, b, c, d))
    op("crossratio_llll3", ("cline3",) * 4, lambda a, b, c, d: g.crossratio(a, b, c, d))
    op("crossratio_eeee3", ("cplane3",) * 4, lambda a, b, c, d: g.crossratio(a, b, c, d))
    op("harmonic_set_ppp2", ("cpoint2",) * 3, lambda a, b, c: g.harmonic_set(a, b, c))
    op("harmonic_set_ppp3", ("cpoint3",) * 3, lambda a, b, c: g.harmonic_set(a, b, c))
    op("is_concurrent_lll2", ("line2",) * 3, lambda a, b, c: g.is_concurrent(a, b, c))
    op("is_collinear_pppp2", ("mpoint2",) * 4, lambda a, b, c, d: g.is_collinear(a, b, c, d))
    op("is_concurrent_llll2", ("mline2",) * 4, lambda a, b, c, d: g.is_concurrent(a, b, c, d))
    op("is_coplanar_ppppp3", ("mpoint3",) * 5, lambda a, b, c, d, e: g.is_coplanar(a, b, c, d, e))
    op("is_collinear_ppp2", ("point2", "point2", "point2"), lambda a, b, c: g.is_collinear(a, b, c))
    op("is_cocircular2", ("point2", "point2", "point2", "point2"), lambda a, b, c, d: g.is_cocircular(a, b, c, d))
    op("is_perpendicular_ll2", ("line2", "line2"), lambda a, b: g.is_perpendicular(a, b))
    op("add_pp2", ("point2", "point2"), lambda a, b: a + b)
    op("sub_pp2", ("point2", "point2"), lambda a, b: a - b)
    op("apply_tp2", ("trafo2", "point2"), lambda a, b: a * b)
    op("apply_tl2", ("trafo2", "line2"), lambda a, b: a * b)
    op("apply_tq2", ("trafo2", "quadric2"), lambda a, b: a * b)
    op("compose_tt2", ("trafo2", "trafo2"), lambda a, b: a * b)
    op("inverse_t2", ("trafo2",), lambda a: a.inverse())
    op("pow_t2", ("trafo2",), lambda a: a ** 3)
    op("powneg_t2", ("trafo2",), lambda a: a ** -2)
    op("quadric_contains2", ("quadric2", "point2"), lambda a, b: a.contains(b))
    op("quadric_tangent2", ("quadric2", "point2"), lambda a, b: a.tangent(b) if not isinstance(a, g.Conic) else g.Quadric(a.array).tangent(b))
    op("quadric_is_tangent2", ("quadric2", "line2"), lambda a, b: a.is_tangent(b))
    op("quadric_intersect2", ("quadric2", "line2"), lambda a, b: a.intersect(b))
    op("quadric_intersect3", ("quadric3", "line3x"), lambda a, b: a.intersect(b))
    op("quadric_contains3", ("quadric3", "point3"), lambda a, b: a.contains(b))
    op("quadric_dual2", ("quadric2",), lambda a: a.dual)
    op("quadric_is_degenerate2", ("quadric2",), lambda a: a.is_degenerate)
    op("seg_contains2", ("seg2", "point2"), lambda a, b: a.contains(b))
    op("seg_midpoint2", ("seg2",), lambda a: a.midpoint)
    op("seg_length2", ("seg2",), lambda a: a.length)
    op("dist_sp2", ("seg2", "point2"), lambda a, b: g.dist(a, b))
    op("poly_contains2", ("poly2", "point2"), lambda a, b: a.contains(b))
    op("poly_area2", ("poly2",), lambda a: a.area)
    op("tri_contains2", ("tri2", "point2"), lambda a, b: a.contains(b))
    op("tri_area2", ("tri2",), lambda a: a.area)
    # (a TransformationCollection is aligned with the LAST collection axis of its operand, for polytopes that is the vertex
    #  axis, so "elementwise" application to polytope collections is not defined; single transformations are covered by C06)
    return T


def flat(x):
    """canonical numeric view of a result: list of arrays"""
    g = import_geometer()
    if isinstance(x, (list, tuple)):
        out = []
        for y in x:
            out += flat(y)
        return out
    if isinstance(x, g.base.Tensor):
        return [x]
    return [np.asarray(x)]


def coords(t):
    from geometer.base import Tensor
    if isinstance(t, Tensor):
        k = kind_of(t)
        return np.asarray(coords_of(t)) if k in ("point", "line", "plane", "line3") else np.asarray(t.array)
    return np.asarray(t)


def compare_pos(cres, sres, pos, out_shape, opname=""):
    """collection result at position pos vs the single result"""
    from geometer.base import Tensor
    cf, sf = flat(cres), flat(sres)
    if opname.startswith("quadric_intersect") and len(cf) == 2 and len(sf) == 1:
        sf = [sf[0], sf[0]]        # a tangent line: the single call returns the contact point once, the collection a coincident pair
    if len(cf) != len(sf):
        return f"{len(cf)} result parts for the collection, {len(sf)} for the singles"
    for c, s in zip(cf, sf):
        ca, sa = coords(c), coords(s)
        if tuple(ca.shape[: len(out_shape)]) != tuple(out_shape):
            return {"collection result shape": list(ca.shape), "expected leading": list(out_shape)}
        el = ca[pos]
        if opname.startswith("crossratio") and (np.any(np.isnan(el)) or np.any(np.isnan(sa))):
            continue        # 0/0: a repeated point seen from a point collinear with it (undefined; the single call short-cuts a == b)
        if opname.startswith("angle"):
            # angles are defined modulo pi (and undefined, nan, for coincident points)
            ok = np.shape(el) == np.shape(sa) and (np.allclose(np.exp(2j * np.asarray(el)), np.exp(2j * np.asarray(sa)), atol=1e-8)
                                                   or (np.all(np.isnan(el)) and np.all(np.isnan(sa))))
        elif isinstance(s, Tensor):
            tol = 1e-5 if opname.startswith("quadric_intersect") else 1e-6
            ok = el.shape == sa.shape and (same_class(el.reshape(-1), sa.reshape(-1), tol) if np.any(sa != 0) else np.allclose(el, 0, atol=1e-9))
        else:
            ok = el.shape == sa.shape and np.allclose(el, sa, rtol=1e-9, atol=1e-9, equal_nan=True)
        if not ok:
            return {"collection": np.asarray(el).tolist(), "single": np.asarray(sa).tolist()}
    return None


SCALES = [1, 2000, 0.001, -3, 1500, -0.5]
QSCALES = [1, 30, 0.05, -3, 20, -0.5]     # matrices of quadrics and transformations: moderate factors (absolute tolerances on
                                          # quadratic / cubic expressions of the entries are by design not scale free)
SCALABLE = ("point2", "line2", "point3", "plane3", "line3", "quadric2", "trafo2", "cpoint2", "cpoint3", "cline2", "cplane3", "cline3", "line3x", "mpoint2", "mline2", "mpoint3", "quadric3")


def _rescaled(x, f):
    if f == 1:
        return x
    y = x.copy()
    y.array = np.asarray(x.array) * f
    return y


def replay(recs):
    out = []
    for d in recs:
        out += replay_one(d, False)
        if d["r"]["seed"] == 1:
            # the same case with the homogeneous coordinates of the elements rescaled by factors of very different magnitude
            # (element by element; the single objects are the same rescaled representatives)
            out += replay_one(d, True)
    return out


def replay_one(d, mixed):
    g = import_geometer()
    PL = pools()
    OT = optable()
    out = []
    for d in [d]:
        r, st = d["r"], d["s"]
        kinds, fn = OT[r["op"]]
        shapes = [tuple(s) for s in r["shapes"]]
        out_shape = tuple(r["out"])
        # singles chosen by the spec
        singles = []
        args = []
        for a, (kind, shape) in enumerate(zip(kinds, shapes)):
            pool, mk = PL[kind]
            els = [pool[(i - 1) % len(pool)] for i in r["contents"][a]]
            if mixed and kind in SCALABLE:
                tab = QSCALES if kind in ("quadric2", "quadric3", "trafo2") else SCALES
                els = [_rescaled(x, tab[(k + 2 * a) % len(tab)]) for k, x in enumerate(els)]
            singles.append(els)
            if shape == ():
                args.append(els[0])
            else:
                c = mk(els)
                if len(shape) > 1 or True:
                    arr = np.asarray(c.array)
                    arr = arr.reshape(shape + arr.shape[1:])
                    c = type(c)(arr, **({"is_dual": c.is_dual} if hasattr(c, "is_dual") else {}))
                args.append(c)
        case = {"op": r["op"], "shapes": r["shapes"], "contents": r["contents"]}
        site = r['op'] + ("/mixed-scales" if mixed else "")
        if mixed:
            case["scales"] = "element k of argument a is multiplied by S[(k + 2a) % 6], S = " + str(SCALES) + " (quadric / transformation matrices: " + str(QSCALES) + ")"
        try:
            with np.errstate(all="ignore"):
                cres = fn(*args)
            cexc = None
        except Exception as e:  # noqa: BLE001
            cres, cexc = None, e
        # the singles, position by position (row-major order of the broadcast box)
        positions = list(np.ndindex(*out_shape)) if out_shape else [()]
        sres, sexc = [], []
        for p, m in zip(positions, r["map"]):
            xs = [singles[a][m[a] - 1] for a in range(len(kinds))]
            try:
                with np.errstate(all="ignore"):
                    sres.append(fn(*xs))
                sexc.append(None)
            except Exception as e:  # noqa: BLE001
                sres.append(None)
                sexc.append(e)
        if cexc is not None:
            same = [e for e in sexc if e is not None and type(e) is type(cexc)]
            if not same:
                out.append(dict(site=site, stratum=st, case=case, expected="what the single objects compute (none of them raises this)",
                                observed=f"collection raised {type(cexc).__name__}: {cexc}"))
            elif hasattr(cexc, "dependent_values") and np.shape(cexc.dependent_values) == out_shape:
                mask = np.array([e is not None for e in sexc]).reshape(out_shape)
                if not np.array_equal(mask, np.asarray(cexc.dependent_values)):
                    out.append(dict(site=site + "/mask", stratum=st, case=case, expected=mask.tolist(), observed=np.asarray(cexc.dependent_values).tolist()))
            continue
        if any(e is not None for e in sexc):
            bad = [str(p) for p, e in zip(positions, sexc) if e is not None]
            out.append(dict(site=site, stratum=st, case=case, expected=f"an exception (the single objects raise at {bad[:3]})", observed="the collection returned"))
            continue
        for p, s in zip(positions, sres):
            dd = compare_pos(cres, s, p, out_shape, r["op"])
            if dd is not None:
                out.append(dict(site=site, stratum=st, case={**case, "position": list(p)}, expected="the single result at this position", observed=dd))
                break
    return out


def replay_indexing(_):
    """collection[i], iteration, collection[i][j]: element class and attributes"""
    g = import_geometer()
    PL = pools()
    out = []

    def chk(site, exp, cond, obs):
        if not cond:
            out.append(dict(site=site, stratum="indexing", case={}, expected=exp, observed=obs))

    elem = {"quadric3": g.Quadric, "mpoint2": g.Point, "mline2": g.Line, "mpoint3": g.Point, "line3x": g.Line, "cpoint2": g.Point, "cpoint3": g.Point, "cline2": g.Line, "cplane3": g.Plane, "cline3": g.Line, "point2": g.Point, "line2": g.Line, "point3": g.Point, "plane3": g.Plane, "line3": g.Line, "quadric2": g.Quadric,
            "trafo2": g.Transformation, "seg2": g.Segment, "poly2": g.Polygon, "tri2": g.Triangle}
    for kind, (pool, mk) in PL.items():
        xs = pool[:6]
        c = mk(xs)
        variants = [("", c, xs)]
        if kind == "quadric2":
            duals = [g.Quadric(np.linalg.inv(x.array.astype(float)), is_dual=True) for x in xs if abs(np.linalg.det(x.array)) > 0.5]
            variants.append(("/dual", g.QuadricCollection(np.array([x.array for x in duals]), is_dual=True), duals))
            variants.append(("/collection.dual", g.QuadricCollection(np.array([x.array for x in xs if abs(np.linalg.det(x.array)) > 0.5])).dual, duals))
        if kind == "line3":
            variants.append(("/covariant", c.covariant_tensor, [x.covariant_tensor for x in xs]))
        if kind == "poly2":
            pent = [g.Polygon(*[g.Point(*v) for v in vs]) for vs in (((0, 0), (2, 0), (3, 1), (2, 3), (0, 2)), ((1, 1), (3, 1), (4, 2), (3, 4), (1, 3)))]
            variants.append(("/pentagons", g.PolygonCollection(np.array([x.array for x in pent])), pent))
            tri = [g.Polygon(*[g.Point(*v) for v in vs]) for vs in (((0, 0), (2, 0), (0, 2)), ((1, 1), (3, 1), (1, 4)))]
            variants.append(("/triangles", g.PolygonCollection(np.array([x.array for x in tri])), tri))
        for vname, coll, singles in variants:
            name = type(coll).__name__ + vname
            for how, items in (("[i]", lambda: [coll[i] for i in range(len(singles))]), ("iter", lambda: list(coll)), ("[-1]", lambda: [coll[-1]])):
                try:
                    got = items()
                except Exception as e:  # noqa: BLE001
                    chk(f"{name}{how}", "elements", False, f"raised {type(e).__name__}: {e}")
                    continue
                ref = singles if how != "[-1]" else singles[-1:]
                for i, (x, s) in enumerate(zip(got, ref)):
                    ok_cls = isinstance(x, elem[kind]) and (x.free_indices == 0 or kind in ("seg2", "poly2", "tri2"))
                    chk(f"{name}{how}/class", elem[kind].__name__, ok_cls, {"class": type(x).__name__, "free_indices": getattr(x, "free_indices", None)})
                    if not ok_cls:
                        break
                    ok_val = np.asarray(x.array).shape == np.asarray(s.array).shape and same_class(np.asarray(x.array).reshape(-1), np.asarray(s.array).reshape(-1))
                    chk(f"{name}{how}/value", "the element", ok_val, np.asarray(x.array).tolist())
                    chk(f"{name}{how}/index-types", [sorted(s._covariant_indices), sorted(s._contravariant_indices)],
                        sorted(x._covariant_indices) == sorted(s._covariant_indices) and sorted(x._contravariant_indices) == sorted(s._contravariant_indices),
                        [sorted(x._covariant_indices), sorted(x._contravariant_indices)])
                    for attr in ("is_dual", "pdim"):
                        if hasattr(s, attr):
                            chk(f"{name}{how}/{attr}", getattr(s, attr), getattr(x, attr, None) == getattr(s, attr), getattr(x, attr, None))
                    # the element must be usable like the single object
                    try:
                        if kind == "quadric2":
                            x.contains(g.Point(1, 2) if not x.is_dual else g.Line(1, 2, 3))
                        if kind == "seg2":
                            x.contains(g.Point(1, 1)); x.midpoint
                        if kind in ("poly2", "tri2"):
                            x.contains(g.Point(1, 1)); x.area
                    except Exception as e:  # noqa: BLE001
                        chk(f"{name}{how}/usable", "works like the single object", False, f"raised {type(e).__name__}: {e}")
            # two collection axes: coll2[i] is a collection, coll2[i][j] the element
            try:
                arr = np.asarray(coll.array)
                n = (len(singles) // 2) * 2
                if n >= 2:
                    arr2 = arr[:n].reshape((2, n // 2) + arr.shape[1:])
                    c2 = type(coll)(arr2, **({"is_dual": coll.is_dual} if hasattr(coll, "is_dual") else {}), **({"covariant": True} if vname == "/covariant" else {}))
                    row = c2[1]
                    chk(f"{name}[i]/two-axes", "a collection of the same class", type(row) is type(coll) or isinstance(row, type(coll)), type(row).__name__)
                    e = c2[1][0]
                    s = singles[n // 2]
                    chk(f"{name}[i][j]/class", elem[kind].__name__, isinstance(e, elem[kind]), type(e).__name__)
                    chk(f"{name}[i][j]/value", "the element", same_class(np.asarray(e.array).reshape(-1), np.asarray(s.array).reshape(-1)), np.asarray(e.array).tolist())
                    e2 = c2[1, 0]
                    chk(f"{name}[i, j]/class", elem[kind].__name__, isinstance(e2, elem[kind]), type(e2).__name__)
            except Exception as e:  # noqa: BLE001
                chk(f"{name}/two-axes", "indexing works", False, f"raised {type(e).__name__}: {e}")
    return out


def replay_membership(_):
    """Polygon / triangle collections against points that are known to lie inside, on an edge, at a vertex and outside (the
    pools of the operation table rarely put a point INTO the polygon at the same position), the points given by positive and
    negative representatives: the collection answer at each position is the answer of the single objects."""
    g = import_geometer()
    PL = pools()
    out = []
    for kind, cls in (("poly2", g.Polygon), ("tri2", g.Triangle)):
        singles = PL[kind][0]
        coll = PL[kind][1](singles)
        for pname, pick in (("centroid", lambda V: V.mean(axis=0)), ("edge-midpoint", lambda V: (V[0] + V[1]) / 2), ("vertex", lambda V: V[1]),
                            ("outside", lambda V: 2.5 * V[1] - 1.5 * V.mean(axis=0)), ("edge-extension", lambda V: 2 * V[1] - V[0])):
            for fname, facs in (("positive", [1, 2.5, 0.5]), ("negative", [-1, -3, -0.5]), ("mixed", [1, -2, 3])):
                pts = []
                for k, x in enumerate(singles):
                    V = np.asarray(x.normalized_array, dtype=float)[:, :-1]
                    q = pick(V)
                    pts.append(np.array([q[0], q[1], 1.0]) * facs[k % 3])
                site = f"{'Polygon' if kind == 'poly2' else 'Triangle'}Collection.contains/{pname}/{fname}-representatives"
                try:
                    pc = g.PointCollection(np.array(pts))
                    got = np.asarray(coll.contains(pc))
                    want = np.array([bool(x.contains(g.Point(q))) for x, q in zip(singles, pts)])
                    item = np.array([bool(coll[k].contains(pc[k])) for k in range(len(singles))])
                    one = np.array([bool(np.asarray(coll.contains(g.Point(pts[k])))[k]) for k in range(len(singles))])
                    for nm, val in (("collection", got), ("items", item), ("collection-with-single-point", one)):
                        if val.shape != want.shape or not np.array_equal(val, want):
                            out.append(dict(site=site + "/" + nm, stratum="one-collection-axis", case={"points": np.array(pts).tolist()},
                                            expected=want.tolist(), observed=val.tolist()))
                except Exception as e:  # noqa: BLE001
                    out.append(dict(site=site, stratum="one-collection-axis", case={"points": np.array(pts).tolist()}, expected="booleans",
                                    observed=f"raised {type(e).__name__}: {e}"))
    return out


def replay_quadric_lines(_):
    """A quadric of 3-space against the LineCollection of ALL special-position lines of the pool (through the origin, parallel
    to each axis, in a coordinate plane, generic), in every cyclic order (each line comes first once): the two returned
    collections hold at each position the two points the single line gives."""
    g = import_geometer()
    PL = pools()
    lines = PL["line3x"][0]
    out = []
    for qi, q in enumerate(PL["quadric3"][0][:6]):
        singles = []
        for l in lines:
            try:
                with np.errstate(all="ignore"):
                    singles.append([np.asarray(p.array, dtype=complex) for p in q.intersect(l)])
            except Exception:  # noqa: BLE001
                singles.append(None)
        for rot in range(len(lines)):
            order = [(k + rot) % len(lines) for k in range(len(lines))]
            site = "quadric_intersect3/all-special-position-lines"
            try:
                with np.errstate(all="ignore"):
                    res = q.intersect(PL["line3x"][1]([lines[k] for k in order]))
                arrs = [np.asarray(r.array, dtype=complex) for r in res]
                for pos, k in enumerate(order):
                    if singles[k] is None or len(singles[k]) != 2 or len(arrs) != 2:
                        continue
                    got = [a[pos] for a in arrs]
                    if not all(np.all(np.isfinite(x)) for x in got + singles[k]):
                        continue
                    a, b = singles[k]
                    ok = (same_class(got[0], a, 1e-6) and same_class(got[1], b, 1e-6)) or (same_class(got[0], b, 1e-6) and same_class(got[1], a, 1e-6))
                    if not ok:
                        out.append(dict(site=site, stratum="one-collection-axis", case={"quadric": np.asarray(q.array).tolist(), "first line": order[0], "position": pos, "line": k},
                                        expected=[str(x.tolist()) for x in singles[k]], observed=[str(x.tolist()) for x in got]))
                        break
            except Exception as e:  # noqa: BLE001
                out.append(dict(site=site, stratum="one-collection-axis", case={"quadric": qi, "first line": order[0]}, expected="two point collections",
                                observed=f"raised {type(e).__name__}: {e}"))
    return out


def _work(job):
    try:
        if job[0] == "qlines":
            return replay_quadric_lines(None)
        if job[0] == "member":
            return replay_membership(None)
        return replay(job[1]) if job[0] == "recs" else replay_indexing(None)
    except Exception:  # noqa: BLE001
        import traceback

        return [dict(site="harness", stratum="machinery", case="", expected="", observed=traceback.format_exc())]


TIER = {"quick": dict(seeds=1), "thorough": dict(seeds=6)}


def run(ctx: Ctx):
    import_geometer()
    t = TIER[ctx.tier]
    OT = optable()
    names = sorted(OT)
    table = ", ".join(f"{n} |-> {len(OT[n][0])}" for n in names)
    cfg = cfg_text(constants={"Arities": "ArityTable", "OpNames": "OpNamesDef", "NSeeds": t["seeds"], "PoolSize": 11, "DoDump": True},
                   invariants=["MapInRange", "MapCovers", "MapBijectiveOnFull"], constraints=["Dump"])
    cfg = cfg.replace("Arities = ArityTable", "Arities <- ArityTable").replace("OpNames = OpNamesDef", "OpNames <- OpNamesDef")
    # the operation table of the specification must be the harness's table
    spec_text = (ctx.work.parent.parent / "spec" / "C04_Ops.tla").read_text()
    for n in names:
        if f'"{n}"' not in spec_text and f"{n} |->" not in spec_text:
            raise MachineryError(f"operation {n} missing from spec/C04_Ops.tla")
    r = ctx.tlc("C04_Ops", cfg, dump=True)
    recs = list(read_dump(r["dump"]))
    ops_seen = {x["r"]["op"] for x in recs}
    if ops_seen != set(names):
        raise MachineryError(f"operation tables differ: {sorted(set(names) ^ ops_seen)}")
    strata = {}
    for x in recs:
        strata[x["s"]] = strata.get(x["s"], 0) + 1
    for need in ("single-with-collection", "length-1-axis", "two-collection-axes", "one-collection-axis"):
        if not strata.get(need):
            raise MachineryError(f"stratum {need} never visited (vacuous)")
    ctx.log(f"{len(recs)} (operation, shapes, contents) cases over {len(names)} operations")
    jobs = [("recs", recs[i:i + 60]) for i in range(0, len(recs), 60)] + [("idx", None), ("member", None), ("qlines", None)]
    with Pool(16) as pool:
        results = pool.map(_work, jobs, chunksize=1)
    for res in results:
        for m in res:
            if m["stratum"] == "machinery":
                raise MachineryError(m["observed"])
            ctx.mismatch(m["site"], m["stratum"], m["case"], m["expected"], m["observed"])
    npos = 0
    for x in recs:
        ctx.count(x["s"], n=len(x["r"]["map"]))
        npos += len(x["r"]["map"])
        if x["s"] != "one-collection-axis":
            ctx.nontrivial((x["r"]["op"], json.dumps(x["r"]["shapes"]), x["r"]["seed"]))
    ctx.cov["traces_validated_against_impl"] += npos
    ctx.cov["operations"] = len(names)
    ctx.sample({k: recs[0]["r"][k] for k in ("op", "shapes", "contents", "out", "map")})
