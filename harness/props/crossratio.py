"""C11: cross ratio against C11_CrossRatio.tla."""
from __future__ import annotations

from multiprocessing import Pool

import numpy as np

from ..abstraction import TOL, same_class
from ..core import Ctx, MachineryError, S, cfg_text, import_geometer, read_dump

RULE = ("cases = parameter quadruples (incl. the point at infinity and the origin of the parametrisation, one repeated point) on "
        "carrier lines of P^1, P^2, P^3; pencils of lines through 8 vertices (origin, on the axes, at infinity, generic) and of "
        "planes through lattice axes; the from_point form; harmonic sets in 1D/2D/3D; collinear and non-collinear quadruples for "
        "the error cases; non-trivial = param-infinity / param-origin / repeated-point / vertex on an axis, at the origin or at "
        "infinity / not-collinear")
INVS = ["Symmetries", "ClosedForm", "PencilCR", "Invariant", "HarmonicIsMinusOne"]


def cr_ok(val, cr):
    n, d = cr
    v = complex(np.asarray(val).reshape(-1)[0]) if np.size(val) == 1 else None
    if v is None:
        return False
    if (n, d) == (0, 0):
        return True            # three coincident points: not defined
    if d == 0:
        return (not np.isfinite(v.real)) or abs(v) > 1e9
    return np.isfinite(v.real) and abs(v - n / d) <= TOL * max(1.0, abs(n / d))


def replay(recs):
    g = import_geometer()
    out = []

    def chk(site, st, case, exp, fn, ok):
        try:
            with np.errstate(all="ignore"):
                val = fn()
            good = bool(ok(val))
        except Exception as e:  # noqa: BLE001
            val, good = f"raised {type(e).__name__}: {e}", False
        if not good:
            out.append(dict(site=site, stratum=st, case=case, expected=exp,
                            observed=val if isinstance(val, str) else str(np.asarray(getattr(val, "array", val)).tolist())))

    for d in recs:
        r, st = d["r"], d["s"]
        t = r["t"]
        if t == "pts":
            P = [g.Point(np.array(p)) for p in r["pts"]]
            case = {"pts": r["pts"], "params": r["q"]}
            chk(f"crossratio(points)/{r['d']}D", st, case, r["cr"], lambda: g.crossratio(*P), lambda v: cr_ok(v, r["cr"]))
            # other representatives of the same points
            Q = [g.Point(np.array(p) * f) for p, f in zip(r["pts"], [2, -1, 0.5, -3])]
            chk(f"crossratio(points)/{r['d']}D/scaled-representatives", st, case, r["cr"], lambda: g.crossratio(*Q), lambda v: cr_ok(v, r["cr"]))
        elif t == "lines":
            L = [g.Line(np.array(l)) for l in r["ls"]]
            case = {"vertex": r["v"], "lines": r["ls"], "params": r["q"]}
            chk("crossratio(lines)", st, case, r["cr"], lambda: g.crossratio(*L), lambda v: cr_ok(v, r["cr"]))
        elif t == "lines3":
            V = g.Point(np.array(r["v"]))
            case = {"vertex": r["v"], "points": r["pts"], "params": r["q"]}
            chk("crossratio(lines)/3D", st, case, r["cr"], lambda: g.crossratio(*[g.Line(V, g.Point(np.array(p))) for p in r["pts"]]),
                lambda v: cr_ok(v, r["cr"]))
            chk("crossratio(lines)/3D/scaled-representatives", st, case, r["cr"],
                lambda: g.crossratio(*[g.Line(g.Point(np.array(r["v"]) * f), g.Point(np.array(p) * -2)) for p, f in zip(r["pts"], [2, -1, 0.5, -3])]),
                lambda v: cr_ok(v, r["cr"]))
        elif t == "planes":
            E = [g.Plane(np.array(e)) for e in r["es"]]
            case = {"axis": [r["A"], r["B"]], "planes": r["es"], "params": r["q"]}
            chk("crossratio(planes)", st, case, r["cr"], lambda: g.crossratio(*E), lambda v: cr_ok(v, r["cr"]))
        elif t == "frompt":
            P = [g.Point(np.array(p)) for p in r["pts"]]
            V = g.Point(np.array(r["v"]))
            case = {"pts": r["pts"], "from_point": r["v"], "params": r["q"]}
            chk("crossratio(points, from_point)", st, case, r["cr"], lambda: g.crossratio(*P, V), lambda v: cr_ok(v, r["cr"]))
        elif t == "harm":
            P = [g.Point(np.array(p)) for p in r["pts"]]
            case = {"pts": r["pts"], "params": r["q"]}
            chk(f"harmonic_set/{r['d']}D", st, case, r["h"], lambda: g.harmonic_set(*P), lambda v: same_class(v.array, r["h"]))
        elif t == "err":
            P = [g.Point(np.array(p)) for p in r["pts"]]
            case = {"pts": r["pts"]}
            if r["coll"]:
                chk(f"crossratio(points)/{r['d']}D/collinear", st, case, "a value", lambda: g.crossratio(*P), lambda v: True)
            else:
                def raises():
                    try:
                        g.crossratio(*P)
                    except g.exceptions.NotCollinear:
                        return "NotCollinear"
                    return "returned"
                chk(f"crossratio(points)/{r['d']}D/not-collinear", st, case, "NotCollinear", raises, lambda v: v == "NotCollinear")
                if r["d"] == 2:
                    L = [g.Line(np.array(p)) for p in r["pts"]]

                    def raises2():
                        try:
                            g.crossratio(*L)
                        except g.exceptions.NotConcurrent:
                            return "NotConcurrent"
                        return "returned"
                    chk("crossratio(lines)/not-concurrent", "not-concurrent", case, "NotConcurrent", raises2, lambda v: v == "NotConcurrent")
                if r["d"] == 2:
                    # the same four lines as lines of 3-space, in the plane z = 0 and in a tilted plane: coplanar, not concurrent
                    def line3(l, tilt):
                        l = np.array(l)
                        cand = [np.cross(l, e) for e in ((1, 0, 0), (0, 1, 0), (0, 0, 1))]
                        cand = [c for c in cand if np.any(c != 0)]
                        p1 = cand[0]
                        p2 = next(c for c in cand[1:] if np.any(np.cross(c, p1) != 0))
                        up = lambda p: g.Point(np.array([p[0], p[1], (p[0] + 2 * p[1] + 3 * p[2]) if tilt else 0, p[2]]))  # noqa: E731
                        return g.Line(up(p1), up(p2))
                    for tilt in (False, True):
                        def raises3(tilt=tilt):
                            try:
                                with np.errstate(all="ignore"):
                                    v = g.crossratio(*[line3(p, tilt) for p in r["pts"]])
                            except g.exceptions.NotConcurrent:
                                return "NotConcurrent"
                            return "returned " + str(v)
                        chk("crossratio(lines)/3D/coplanar-not-concurrent" + ("/tilted-plane" if tilt else ""), "not-concurrent", case, "NotConcurrent",
                            raises3, lambda v: v == "NotConcurrent")
    return out


def replay_coll(recs):
    g = import_geometer()
    out = []
    try:
        cols = [g.PointCollection(np.array([r["r"]["pts"][i] for r in recs])) for i in range(4)]
        keep = [np.array(c.array, copy=True) for c in cols]
        with np.errstate(all="ignore"):
            val = np.asarray(g.crossratio(*cols))
            again = np.asarray(g.crossratio(*cols))
        if any(not np.array_equal(np.asarray(c.array), k) for c, k in zip(cols, keep)):
            out.append(dict(site=f"crossratio(points)/{recs[0]['r']['d']}D/collection/operands-unchanged", stratum="general",
                            case={"count": len(recs)}, expected="the four collections are left as they were",
                            observed={"changed argument": [i for i, (c, k) in enumerate(zip(cols, keep)) if not np.array_equal(np.asarray(c.array), k)]}))
        if not np.allclose(val, again, equal_nan=True):
            out.append(dict(site=f"crossratio(points)/{recs[0]['r']['d']}D/collection/repeated-call", stratum="general",
                            case={"count": len(recs)}, expected="the same values", observed="the second call differs"))
        # the same collections with two collection axes (2 x n/2): position (i, j) must hold the cross ratio of that element
        n2 = (len(recs) // 2) * 2
        if n2 >= 4:
            grid = [g.PointCollection(np.asarray(c.array)[:n2].reshape((2, n2 // 2) + np.asarray(c.array).shape[1:])) for c in cols]
            with np.errstate(all="ignore"):
                gv = np.asarray(g.crossratio(*grid))
            if gv.shape != (2, n2 // 2):
                out.append(dict(site=f"crossratio(points)/{recs[0]['r']['d']}D/collection/two-axes", stratum="general", case={"count": n2},
                                expected={"shape": [2, n2 // 2]}, observed={"shape": list(gv.shape)}))
            else:
                for i, r in enumerate(recs[:n2]):
                    if not cr_ok(gv.reshape(-1)[i], r["r"]["cr"]):
                        out.append(dict(site=f"crossratio(points)/{r['r']['d']}D/collection/two-axes", stratum=r["s"],
                                        case={"pts": r["r"]["pts"], "position": [i // (n2 // 2), i % (n2 // 2)]}, expected=r["r"]["cr"], observed=str(gv.reshape(-1)[i])))
                        break
        for i, r in enumerate(recs):
            if not cr_ok(val[i], r["r"]["cr"]):
                out.append(dict(site=f"crossratio(points)/{r['r']['d']}D/collection", stratum=r["s"], case={"pts": r["r"]["pts"], "position": i},
                                expected=r["r"]["cr"], observed=str(val[i])))
                break
    except Exception as e:  # noqa: BLE001
        out.append(dict(site="crossratio(points)/collection", stratum="general", case={"count": len(recs)}, expected="values",
                        observed=f"raised {type(e).__name__}: {e}"))
    return out


def replay_collerr(job):
    """collections of collinear quadruples with ONE non-collinear quadruple mixed in (in the middle / at the end / first): the
    call must raise NotCollinear, as the single objects at that position do"""
    g = import_geometer()
    recs, err = job
    out = []
    dim = recs[0]["r"]["d"]
    for where in ("first", "middle", "last"):
        quads = [r["r"]["pts"] for r in recs]
        pos = {"first": 0, "middle": len(quads) // 2, "last": len(quads)}[where]
        quads.insert(pos, err["r"]["pts"])
        site = f"crossratio(points)/{dim}D/collection/one-position-not-collinear/{where}"
        for form in ("collections", "single-first-argument"):
            try:
                cols = [g.PointCollection(np.array([q[i] for q in quads])) for i in range(4)]
                if form == "single-first-argument":
                    if len({tuple(q[0]) for q in quads}) != 1:
                        continue
                    cols[0] = g.Point(np.array(quads[0][0]))
                with np.errstate(all="ignore"):
                    val = g.crossratio(*cols)
                out.append(dict(site=site + "/" + form, stratum="not-collinear", case={"pts": err["r"]["pts"], "position": pos, "count": len(quads)},
                                expected="NotCollinear", observed="returned " + str(np.asarray(val).tolist())[:200]))
            except g.exceptions.NotCollinear:
                pass
            except Exception as e:  # noqa: BLE001
                out.append(dict(site=site + "/" + form, stratum="not-collinear", case={"pts": err["r"]["pts"], "position": pos, "count": len(quads)},
                                expected="NotCollinear", observed=f"raised {type(e).__name__}: {e}"))
    return out


def _work(job):
    try:
        if job[0] == "collerr":
            return replay_collerr(job[1])
        return replay(job[1]) if job[0] == "single" else replay_coll(job[1])
    except Exception:  # noqa: BLE001
        import traceback

        return [dict(site="harness", stratum="machinery", case="", expected="", observed=traceback.format_exc())]


TIER = {"quick": dict(stride=3), "thorough": dict(stride=1)}
TASKS = ["pts1", "pts2", "pts3", "lines", "lines3", "planes", "frompt", "harm", "err"]


def run(ctx: Ctx):
    t = TIER[ctx.tier]
    cfg = cfg_text(constants={"Tasks": {S(x) for x in TASKS}, "Stride": t["stride"], "Seed": ctx.seed % 97, "DoDump": True},
                   invariants=INVS, constraints=["Dump"])
    r = ctx.tlc("C11_CrossRatio", cfg, dump=True)
    recs = list(read_dump(r["dump"]))
    strata = {}
    for x in recs:
        strata[(x["r"]["t"], x["s"])] = strata.get((x["r"]["t"], x["s"]), 0) + 1
    for need in [("pts", "param-infinity"), ("pts", "param-origin"), ("pts", "repeated-point"), ("lines", "vertex-on-y-axis"),
                 ("lines", "vertex-origin"), ("lines", "vertex-at-infinity"), ("lines", "vertex-on-x-axis"), ("planes", "general"),
                 ("lines3", "general"), ("lines3", "vertex-origin"), ("lines3", "vertex-at-infinity"), ("lines3", "repeated-line"),
                 ("frompt", "general"), ("harm", "param-infinity"), ("err", "not-collinear"), ("err", "collinear")]:
        if not strata.get(need):
            raise MachineryError(f"stratum {need} never visited (vacuous)")
    ctx.log(f"{len(recs)} cases")
    jobs = [("single", recs[i:i + 400]) for i in range(0, len(recs), 400)]
    for dim in (1, 2, 3):
        sel = [x for x in recs if x["r"]["t"] == "pts" and x["r"]["d"] == dim]
        for i in range(0, len(sel), 200):
            jobs.append(("coll", sel[i:i + 200]))
    nerr = 0
    for dim in (2, 3):
        sel = [x for x in recs if x["r"]["t"] == "pts" and x["r"]["d"] == dim and x["r"]["cr"][1] != 0]
        errs = [x for x in recs if x["r"]["t"] == "err" and x["r"]["d"] == dim and not x["r"]["coll"]]
        for j, e in enumerate(errs[:40]):
            chunk = sel[(j * 5) % max(1, len(sel) - 6):][:5]
            if len(chunk) >= 2:
                jobs.append(("collerr", (chunk, e)))
                nerr += 1
    if nerr < 10:
        raise MachineryError("too few collections with a non-collinear position (vacuous)")
    with Pool(16) as pool:
        results = pool.map(_work, jobs, chunksize=1)
    for res in results:
        for m in res:
            if m["stratum"] == "machinery":
                raise MachineryError(m["observed"])
            ctx.mismatch(m["site"], m["stratum"], m["case"], m["expected"], m["observed"])
    for x in recs:
        ctx.count(x["s"])
        if x["s"] != "general":
            ctx.nontrivial(str(x["r"]))
    ctx.cov["traces_validated_against_impl"] += len(recs)
    if ctx.tier == "thorough":      # the three-term relation behind cr(a,b,c,d) = 1 - cr(a,c,b,d): for all integers
        ctx.lift_lemmas([("L_Adjugate", "ThreeTerm", True), ("L_Adjugate", "Falsified", False)])
    ctx.sample(recs[0]["r"])
    ctx.sample(recs[-1]["r"])
    # ---- code -> spec: recorded calls on larger coordinates, validated by TLC against Trace_Ops.tla
    from ..optrace import run_optrace

    run_optrace(ctx, ['crossratio'])
