"""C10: perpendicular / parallel / project / mirror constructions and predicates against C10_Constructions.tla."""
from __future__ import annotations

from multiprocessing import Pool

import numpy as np

from ..abstraction import TOL, coords_of, kind_of, line3_pluecker, same_class
from ..core import Ctx, MachineryError, S, cfg_text, import_geometer, read_dump

RULE = ("cases = (subspace, point) pairs and predicate arguments enumerated by TLC: every lattice line of the plane and plane of "
        "space (vertical, horizontal, through the origin, generic) x every lattice point incl. points ON the subspace, lines of "
        "3-space through two lattice points x points, line/plane pairs for is_parallel/is_perpendicular, point quadruples for "
        "is_cocircular/is_collinear (repeated points incl.), quintuples for is_coplanar, line pairs for angle_bisectors; "
        "non-trivial = point-on-subspace, parallel, perpendicular, equal, cocircular, collinear, repeated-point, coplanar")
INVS = ["DirectionMirror", "HyperLaws", "Perp2Laws", "Perp3eLaws", "Line3Laws", "BisLaws", "CocircDef"]


def replay(recs):
    g = import_geometer()
    out = []
    P = lambda v: g.Point(np.array(v))  # noqa: E731

    def chk(site, st, case, exp, fn, ok):
        try:
            with np.errstate(all="ignore"):
                val = fn()
            good = bool(ok(val))
        except Exception as e:  # noqa: BLE001
            val, good = f"raised {type(e).__name__}: {e}", False
        if not good:
            if isinstance(val, tuple):
                val = [np.asarray(coords_of(v)).tolist() for v in val]
            elif hasattr(val, "array"):
                val = np.asarray(coords_of(val)).tolist()
            elif not isinstance(val, str):
                val = np.asarray(val).tolist()
            out.append(dict(site=site, stratum=st, case=case, expected=exp, observed=val))

    def cls(kind, vec):
        return lambda v: kind_of(v) == kind and v.free_indices == 0 and same_class(coords_of(v), vec)

    def basis_ok(sub, nrows):
        def f(m):
            m = np.asarray(m)
            if m.shape != (nrows, sub.shape[-1]):
                return False
            gram = m @ m.conj().T
            if not np.allclose(gram, np.eye(nrows), atol=1e-8):
                return False
            return all(bool(sub.contains(g.Point(row))) for row in m)
        return f

    for d in recs:
        r, st = d["r"], d["s"]
        t = r["t"]
        if t in ("c2", "c3e"):
            dim = 2 if t == "c2" else 3
            h = g.Line(np.array(r["h"])) if dim == 2 else g.Plane(np.array(r["h"]))
            hk = "Line" if dim == 2 else "Plane"
            p = P(r["p"])
            case = {"h": r["h"], "p": r["p"]}
            chk(f"{hk}.perpendicular/{dim}D", st, case, r["perp"], lambda: h.perpendicular(p), cls("line" if dim == 2 else "line3", r["perp"]))
            chk(f"{hk}.parallel/{dim}D", st, case, r["par"], lambda: h.parallel(p), cls("line" if dim == 2 else "plane", r["par"]))
            chk(f"{hk}.project/{dim}D", st, case, r["foot"], lambda: h.project(p), cls("point", r["foot"]))
            chk(f"{hk}.mirror/{dim}D", st, case, r["mir"], lambda: h.mirror(p), cls("point", r["mir"]))
            if dim == 3 and r.get("mird"):
                # a point at infinity: the library's construction does not handle every direction (it may raise
                # LinearDependenceError); when it returns, the result must be the reflected direction
                dpt = g.Point(np.array(list(r["p"][:-1]) + [0]))

                def mirror_dir():
                    try:
                        return h.mirror(dpt)
                    except g.exceptions.LinearDependenceError:
                        return None
                chk("Plane.mirror(direction)/3D", st, {"h": r["h"], "direction": list(r["p"][:-1]) + [0]}, r["mird"], mirror_dir,
                    lambda v: v is None or (kind_of(v) == "point" and same_class(coords_of(v), r["mird"])))
            # the hyperplane stored with complex dtype (what angle_bisectors, mirror and perpendicular themselves return) and
            # scaled: the four constructions in sequence on the SAME object, which must also come out unchanged
            hc = (g.Line if dim == 2 else g.Plane)(np.array(r["h"], dtype=complex) * 2)
            before = np.array(hc.array, copy=True)
            chk(f"{hk}.perpendicular/{dim}D/complex-dtype", st, case, r["perp"], lambda: hc.perpendicular(p), cls("line" if dim == 2 else "line3", r["perp"]))
            chk(f"{hk}.project/{dim}D/complex-dtype", st, case, r["foot"], lambda: hc.project(p), cls("point", r["foot"]))
            chk(f"{hk}.mirror/{dim}D/complex-dtype", st, case, r["mir"], lambda: hc.mirror(p), cls("point", r["mir"]))
            chk(f"{hk}.parallel/{dim}D/complex-dtype", st, case, r["par"], lambda: hc.parallel(p), cls("line" if dim == 2 else "plane", r["par"]))
            chk(f"{hk}/{dim}D/complex-dtype/operand-unchanged", st, case, before.tolist(), lambda: hc.array,
                lambda v: np.array_equal(np.asarray(v), before))
            if dim == 2:
                chk("Line.direction/2D", "general", case, r["dir"], lambda: h.direction, cls("point", r["dir"]))
                chk("Line.base_point/2D", "general", case, "a finite point of the line", lambda: h.base_point,
                    lambda v: (not bool(v.isinf)) and bool(h.contains(v)))
            chk(f"{hk}.basis_matrix/{dim}D", "general", case, "orthonormal rows spanning the subspace", lambda: h.basis_matrix, basis_ok(h, dim))
            chk(f"{hk}.general_point/{dim}D", "general", case, "a point outside the subspace", lambda: h.general_point, lambda v: not bool(h.contains(v)))
        elif t == "c3l":
            L = g.Line(g.Point(*r["a"]), g.Point(*r["b"]))
            p = P(r["p"])
            u = np.array(r["u"], dtype=float)
            case = {"a": r["a"], "b": r["b"], "p": r["p"]}
            chk("Line.project/3D", st, case, r["foot"], lambda: L.project(p), cls("point", r["foot"]))
            if r["on"]:
                def perp_on(v):
                    if kind_of(v) != "line3" or not bool(v.contains(p)):
                        return False
                    dvec = np.asarray(v.direction.array, dtype=complex)[:3]
                    return abs(np.dot(dvec, u)) <= 1e-6 * np.linalg.norm(dvec) * np.linalg.norm(u)
                chk("Line.perpendicular/3D", st, case, "a line through p perpendicular to the line", lambda: L.perpendicular(p), perp_on)
            else:
                chk("Line.perpendicular/3D", st, case, r["perp"], lambda: L.perpendicular(p), cls("line3", r["perp"]))
                chk("Line.mirror/3D", st, case, r["mir"], lambda: L.mirror(p), cls("point", r["mir"]))
            chk("Line.parallel/3D", st, case, r["par"], lambda: L.parallel(p), cls("line3", r["par"]))
            chk("Line.direction/3D", "general", case, r["dir"], lambda: L.direction, cls("point", r["dir"]))
            chk("Line.base_point/3D", "general", case, "a finite point of the line", lambda: L.base_point,
                lambda v: (not bool(v.isinf)) and bool(L.contains(v)))
            chk("Line.basis_matrix/3D", "general", case, "orthonormal rows spanning the line", lambda: L.basis_matrix, basis_ok(L, 2))
            chk("Line.general_point/3D", "general", case, "a point outside the line", lambda: L.general_point, lambda v: not bool(L.contains(v)))
            if (sum(r["a"]) + 3 * sum(r["p"])) % 4 == 0:
                # used, then moved by an exact isometry: the constructions of the moved line are the moved constructions
                from ..moved import motions, mp, warm
                for mname, mv, T, Ti in motions(3):
                    def moved_line(mv=mv):
                        L0 = warm(g.Line(g.Point(*r["a"]), g.Point(*r["b"])))
                        for q in (p, g.Point(*r["a"])):       # a point off the line and a point of the line
                            for fn in (L0.project, L0.perpendicular, L0.parallel):
                                try:
                                    fn(q)
                                except Exception:  # noqa: BLE001
                                    pass
                        return mv(L0)
                    mp_ = P(mp(T, r["p"]))
                    foot_m = mp(T, r["foot"])
                    site = f"/3D/used-then-moved/{mname}"
                    chk("Line.project" + site, st, case, foot_m, lambda: moved_line().project(mp_), cls("point", foot_m))
                    hold = {}

                    def keep(LM, hold=hold):
                        hold["L"] = LM
                        return LM
                    chk("Line.base_point" + site, "general", case, "a finite point of the moved line",
                        lambda: keep(moved_line()).base_point, lambda v: (not bool(v.isinf)) and bool(hold["L"].contains(v)))
                    chk("Line.basis_matrix" + site, "general", case, "orthonormal rows spanning the moved line",
                        lambda: keep(moved_line()).basis_matrix, lambda v: basis_ok(hold["L"], 2)(v))
                    am = P(mp(T, list(r["a"]) + [1]))
                    um = (np.array(T, dtype=float)[:3, :3] @ u)

                    def perp_on_m(v, am=am, um=um):
                        if kind_of(v) != "line3" or not bool(v.contains(am)):
                            return False
                        dvec = np.asarray(v.direction.array, dtype=complex)[:3]
                        return abs(np.dot(dvec, um)) <= 1e-6 * np.linalg.norm(dvec) * np.linalg.norm(um)
                    chk("Line.perpendicular(point of the line)" + site, st, case, "a line through the point perpendicular to the moved line",
                        lambda: moved_line().perpendicular(am), perp_on_m)
                    if not r["on"]:
                        exp_perp = g.Line(mp_, P(foot_m))
                        chk("Line.perpendicular" + site, st, case, "the join of the moved point and the moved foot",
                            lambda: moved_line().perpendicular(mp_), lambda v: kind_of(v) == "line3" and bool(v == exp_perp))
        elif t in ("pred2", "pred3e"):
            if r["same"]:
                continue        # identical subspaces: meet() raises, the predicates are not defined by the property
            mk = (lambda v: g.Line(np.array(v))) if t == "pred2" else (lambda v: g.Plane(np.array(v)))
            a, b = (r["l"], r["m"]) if t == "pred2" else (r["h"], r["g"])
            case = {"a": a, "b": b}
            k = "line" if t == "pred2" else "plane"
            chk(f"is_parallel({k},{k})", st, case, r["par"], lambda: mk(a).is_parallel(mk(b)), lambda v: bool(v) == r["par"])
            if not r["par"] or t == "pred2":
                chk(f"is_perpendicular({k},{k})", st, case, r["perp"], lambda: g.is_perpendicular(mk(a), mk(b)), lambda v: bool(v) == r["perp"])
        elif t == "pred3l":
            a = np.array(r["a"])
            L1 = g.Line(g.Point(*a), g.Point(*(a + np.array(r["u"]))))
            L2 = g.Line(g.Point(*a), g.Point(*(a + np.array(r["v"]))))
            chk("is_perpendicular(line3,line3)", st, {k: r[k] for k in ("a", "u", "v")}, r["perp"],
                lambda: g.is_perpendicular(L1, L2), lambda v: bool(v) == r["perp"])
            # two lines through one point lie in a plane; so does a line with itself (the very same object, a copy, a multiple)
            chk("Line.is_coplanar(line3)/concurrent", st, {k: r[k] for k in ("a", "u", "v")}, True, lambda: L1.is_coplanar(L2), lambda v: bool(v) is True)
            chk("Line.is_coplanar(line3)/same-object", st, {k: r[k] for k in ("a", "u")}, True, lambda: L1.is_coplanar(L1), lambda v: bool(v) is True)
            chk("Line.is_coplanar(line3)/multiple", st, {k: r[k] for k in ("a", "u")}, True, lambda: L1.is_coplanar(g.Line(np.asarray(L1.array) * -2)), lambda v: bool(v) is True)
            L3 = g.Line(g.Point(*(a + np.array([0, 0, 1]) + np.cross(r["u"], r["v"]))), g.Point(*(a + np.array([0, 0, 1]) + np.cross(r["u"], r["v"]) + np.array(r["v"]))))
            skew = bool(np.dot(np.array([0, 0, 1]) + np.cross(r["u"], r["v"]), np.cross(r["u"], r["v"])) != 0) and bool(np.any(np.cross(r["u"], r["v"]) != 0))
            if skew:
                chk("Line.is_coplanar(line3)/skew", st, {k: r[k] for k in ("a", "u", "v")}, False, lambda: L1.is_coplanar(L3), lambda v: bool(v) is False)
        elif t == "bis":
            l, m = g.Line(np.array(r["l"])), g.Line(np.array(r["m"]))
            o = g.Point(np.array(r["o"]))
            ul = np.array([r["l"][1], -r["l"][0]], dtype=float)
            um = np.array([r["m"][1], -r["m"][0]], dtype=float)

            def bis_ok(v):
                if len(v) != 2:
                    return False
                ds = []
                for b in v:
                    if kind_of(b) != "line" or not bool(b.contains(o)):
                        return False
                    arr = np.asarray(b.array, dtype=complex)
                    arr = arr / arr[np.argmax(np.abs(arr))]      # a projective class: complex scale factors are irrelevant
                    if np.max(np.abs(arr.imag)) > 1e-9:
                        return False
                    arr = arr.real
                    w = np.array([arr[1], -arr[0]])
                    ds.append(w / np.linalg.norm(w))
                    c1 = abs(np.dot(w, ul)) / (np.linalg.norm(w) * np.linalg.norm(ul))
                    c2 = abs(np.dot(w, um)) / (np.linalg.norm(w) * np.linalg.norm(um))
                    if abs(c1 - c2) > 1e-6:
                        return False
                if abs(np.dot(ds[0], ds[1])) > 1e-6:
                    return False
                if r["dirs"]:
                    exp = [np.array(x, dtype=float) / np.linalg.norm(x) for x in r["dirs"]]
                    return all(any(abs(abs(np.dot(dd, e)) - 1) < 1e-6 for e in exp) for dd in ds)
                return True
            chk("angle_bisectors/2D", st, {"l": r["l"], "m": r["m"]},
                {"through": r["o"], "directions": r["dirs"] or "perpendicular pair with equal angles to both lines"},
                lambda: g.angle_bisectors(l, m), bis_ok)
            # other representatives of the same two lines: a complex scalar multiple, and the line as the library itself returns
            # it from a construction (k.perpendicular(q) with k the perpendicular of l in o and q a second point of l)
            exp_b = {"through": r["o"], "directions": r["dirs"] or "perpendicular pair with equal angles to both lines"}
            chk("angle_bisectors/2D/complex-multiple", st, {"l": r["l"], "m": r["m"], "l scaled by": "1j"}, exp_b,
                lambda: g.angle_bisectors(g.Line(np.array(r["l"]) * 1j), m), bis_ok)
            chk("angle_bisectors/2D/complex-multiple", st, {"l": r["l"], "m": r["m"], "m scaled by": "2-1j"}, exp_b,
                lambda: g.angle_bisectors(l, g.Line(np.array(r["m"]) * (2 - 1j))), bis_ok)
            ox, oy, ow = r["o"]
            if ow != 0:
                def from_construction(h):
                    u0, u1 = h[1], -h[0]
                    k = g.Line(np.array([u0 * ow, u1 * ow, -(u0 * ox + u1 * oy)]))
                    q = g.Point(np.array([ox + u0 * ow, oy + u1 * ow, ow]))
                    return k.perpendicular(q)
                chk("angle_bisectors/2D/line-from-perpendicular()", st, {"l": r["l"], "m": r["m"], "constructed": "l"}, exp_b,
                    lambda: g.angle_bisectors(from_construction(r["l"]), m), bis_ok)
                chk("angle_bisectors/2D/line-from-perpendicular()", st, {"l": r["l"], "m": r["m"], "constructed": "m"}, exp_b,
                    lambda: g.angle_bisectors(l, from_construction(r["m"])), bis_ok)
        elif t == "cocirc":
            pts = [g.Point(*v) for v in r["pts"]]
            chk("is_cocircular", st, {"pts": r["pts"]}, r["b"], lambda: g.is_cocircular(*pts), lambda v: bool(v) == r["b"])
        elif t == "coll2":
            pts = [g.Point(*v) for v in r["pts"]]
            lines = [g.Line(np.array(list(v) + [1])) for v in r["pts"]]
            case = {"pts": r["pts"]}
            chk("is_collinear(3)", "general" if not r["b3"] else "collinear", case, r["b3"], lambda: g.is_collinear(*pts[:3]), lambda v: bool(v) == r["b3"])
            chk("is_collinear(4)", st, case, r["b4"], lambda: g.is_collinear(*pts), lambda v: bool(v) == r["b4"])
            chk("is_concurrent(4)", st, case, r["b4"], lambda: g.is_concurrent(*lines), lambda v: bool(v) == r["b4"])
        elif t == "copl3":
            pts = [g.Point(*v) for v in r["pts"]]
            case = {"pts": r["pts"]}
            chk("is_coplanar(4)", "coplanar" if r["b4"] else "general", case, r["b4"], lambda: g.is_coplanar(*pts[:4]), lambda v: bool(v) == r["b4"])
            chk("is_coplanar(5)", st, case, r["b5"], lambda: g.is_coplanar(*pts), lambda v: bool(v) == r["b5"])
    return out


def replay_pred_coll(recs):
    """the predicates with more than dim + 1 arguments on collections: positions that are collinear / coplanar, positions that
    fail at an early subset of the arguments and positions that fail only at a late one, in the same collection"""
    g = import_geometer()
    out = []
    t = recs[0]["r"]["t"]
    try:
        n = len(recs[0]["r"]["pts"])
        cols = [g.PointCollection(np.array([list(r["r"]["pts"][i]) + [1] for r in recs])) for i in range(n)]
        checks = []
        if t == "coll2":
            lcols = [g.LineCollection(np.array([list(r["r"]["pts"][i]) + [1] for r in recs])) for i in range(n)]
            checks = [("is_collinear(4)/collection", lambda: g.is_collinear(*cols), "b4"), ("is_collinear(3)/collection", lambda: g.is_collinear(*cols[:3]), "b3"),
                      ("is_concurrent(4)/collection", lambda: g.is_concurrent(*lcols), "b4")]
        else:
            checks = [("is_coplanar(5)/collection", lambda: g.is_coplanar(*cols), "b5"), ("is_coplanar(4)/collection", lambda: g.is_coplanar(*cols[:4]), "b4")]
        for site, fn, key in checks:
            got = np.asarray(fn())
            exp = np.array([r["r"][key] for r in recs])
            if got.shape != exp.shape:
                out.append(dict(site=site, stratum="general", case={"count": len(recs)}, expected={"shape": list(exp.shape)}, observed={"shape": list(got.shape)}))
                continue
            for i in np.flatnonzero(got != exp)[:2]:
                out.append(dict(site=site, stratum=recs[i]["s"], case={"pts": recs[i]["r"]["pts"], "position": int(i), "count": len(recs)},
                                expected=bool(exp[i]), observed=bool(got[i])))
    except Exception as e:  # noqa: BLE001
        out.append(dict(site=f"{t}/collection", stratum="general", case={"count": len(recs)}, expected="booleans", observed=f"raised {type(e).__name__}: {e}"))
    return out


def replay_coll(recs):
    """one subspace (or a collection of subspaces) against a collection of points with a MIXED on/off mask"""
    if recs[0]["r"]["t"] in ("coll2", "copl3"):
        return replay_pred_coll(recs)
    g = import_geometer()
    out = []
    t = recs[0]["r"]["t"]
    dim = 2 if t == "c2" else 3
    try:
        pts = g.PointCollection(np.array([r["r"]["p"] for r in recs]))
        hs = np.array([r["r"]["h"] for r in recs])
        hc = g.LineCollection(hs) if dim == 2 else g.PlaneCollection(hs)
        n2 = (len(recs) // 2) * 2
        pts2 = g.PointCollection(np.asarray(pts.array)[:n2].reshape(2, n2 // 2, -1)) if n2 >= 4 else None
        hc2 = type(hc)(hs[:n2].reshape(2, n2 // 2, -1)) if n2 >= 4 else None
        for name, fn, key, kind in (("perpendicular", lambda: hc.perpendicular(pts), "perp", "line" if dim == 2 else "line3"),
                                    ("project", lambda: hc.project(pts), "foot", "point"),
                                    ("mirror", lambda: hc.mirror(pts), "mir", "point"),
                                    ("parallel", lambda: hc.parallel(pts), "par", "line" if dim == 2 else "plane"),
                                    ("perpendicular/two-axes", lambda: hc2.perpendicular(pts2), "perp", "line" if dim == 2 else "line3"),
                                    ("project/two-axes", lambda: hc2.project(pts2), "foot", "point"),
                                    ("mirror/two-axes", lambda: hc2.mirror(pts2), "mir", "point"),
                                    ("parallel/two-axes", lambda: hc2.parallel(pts2), "par", "line" if dim == 2 else "plane")):
            if name.endswith("two-axes") and hc2 is None:
                continue
            try:
                with np.errstate(all="ignore"):
                    val = fn()
                c = np.asarray(coords_of(val))
                if name.endswith("two-axes"):
                    if c.shape[:2] != (2, n2 // 2):
                        raise ValueError(f"result shape {c.shape}")
                    c = c.reshape((n2,) + c.shape[2:])
                    c = np.concatenate([c, np.asarray([r["r"][key] for r in recs[n2:]], dtype=c.dtype).reshape((len(recs) - n2,) + c.shape[1:])]) if len(recs) > n2 else c
                if kind_of(val) != kind or c.shape[0] != len(recs):
                    raise ValueError(f"result kind {kind_of(val)} shape {c.shape}")
                for i, r in enumerate(recs):
                    if not same_class(c[i], r["r"][key]):
                        out.append(dict(site=f"{'Line' if dim == 2 else 'Plane'}Collection.{name}/{dim}D", stratum=r["s"],
                                        case={"h": r["r"]["h"], "p": r["r"]["p"], "position": i}, expected=r["r"][key], observed=c[i].tolist()))
                        break
            except Exception as e:  # noqa: BLE001
                out.append(dict(site=f"{'Line' if dim == 2 else 'Plane'}Collection.{name}/{dim}D", stratum="general",
                                case={"count": len(recs)}, expected="a collection", observed=f"raised {type(e).__name__}: {e}"))
    except Exception as e:  # noqa: BLE001
        out.append(dict(site="collection", stratum="general", case={"count": len(recs)}, expected="", observed=f"raised {type(e).__name__}: {e}"))
    return out


def _work(job):
    try:
        return replay(job[1]) if job[0] == "single" else replay_coll(job[1])
    except Exception:  # noqa: BLE001
        import traceback

        return [dict(site="harness", stratum="machinery", case="", expected="", observed=traceback.format_exc())]


TIER = {"quick": dict(stride=3), "thorough": dict(stride=1)}
TASKS = ["c2", "c3e", "c3l", "pred2", "pred3e", "pred3l", "bis", "cocirc", "coll2", "copl3"]


def run(ctx: Ctx):
    t = TIER[ctx.tier]
    cfg = cfg_text(constants={"Tasks": {S(x) for x in TASKS}, "Stride": t["stride"], "Seed": ctx.seed % 97, "DoDump": True},
                   invariants=INVS, constraints=["Dump"])
    r = ctx.tlc("C10_Constructions", cfg, dump=True)
    recs = list(read_dump(r["dump"]))
    strata = {}
    for x in recs:
        strata[(x["r"]["t"], x["s"])] = strata.get((x["r"]["t"], x["s"]), 0) + 1
    for need in [("c2", "point-on-subspace"), ("c3e", "point-on-subspace"), ("c3l", "point-on-subspace"), ("c3l", "general"),
                 ("pred2", "parallel"), ("pred2", "perpendicular"), ("pred3e", "perpendicular"), ("pred3l", "perpendicular"),
                 ("bis", "rational-bisectors"), ("bis", "irrational-bisectors"), ("cocirc", "cocircular"), ("coll2", "repeated-point"),
                 ("coll2", "collinear"), ("copl3", "coplanar"), ("copl3", "first-four-coplanar")]:
        if not strata.get(need):
            raise MachineryError(f"stratum {need} never visited (vacuous)")
    ctx.log(f"{len(recs)} cases")
    jobs = [("single", recs[i:i + 300]) for i in range(0, len(recs), 300)]
    for tt in ("c2", "c3e", "coll2", "copl3"):
        sel = [x for x in recs if x["r"]["t"] == tt]
        for i in range(0, len(sel), 50):
            jobs.append(("coll", sel[i:i + 50]))
    with Pool(16) as pool:
        results = pool.map(_work, jobs, chunksize=1)
    for res in results:
        for m in res:
            if m["stratum"] == "machinery":
                raise MachineryError(m["observed"])
            ctx.mismatch(m["site"], m["stratum"], m["case"], m["expected"], m["observed"])
    for x in recs:
        ctx.count(x["s"])
        if x["s"] != "general":
            ctx.nontrivial(str(x["r"]))
    ctx.cov["traces_validated_against_impl"] += len(recs)
    ctx.sample(recs[0]["r"])
    ctx.sample(recs[-1]["r"])
    # ---- code -> spec: recorded calls on larger coordinates, validated by TLC against Trace_Ops.tla
    from ..optrace import run_optrace

    run_optrace(ctx, ['foot_ph', 'mirror_ph', 'is_collinear', 'is_coplanar'])
