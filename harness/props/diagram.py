"""C05: tensor diagrams (Diagram.tla) and epsilon/delta tables (EpsDelta.tla)."""
from __future__ import annotations

import random
from multiprocessing import Pool

import numpy as np

from ..core import Ctx, MachineryError, S, cfg_text, import_geometer, read_dump

RULE = ("cases = complete histories of add_node/add_edge/calculate over every assignment of index-type patterns to the "
        "tensor objects (TLC state graph), plus every entry of eps(n), delta(n,p); non-trivial = history with an error, a "
        "self edge, a repeated edge, value-equal copies, collection axes or no edge at all")
INVS = ["TypeOK", "IndexOnce", "ErrAgrees", "PairingAgrees"]
ED_INVS = ["DeltaIsDefinition", "DeltaEpsIdentity", "DeltaVanishes", "EpsAntisymmetric", "EpsCount"]


def make_tensors(w, vals=None):
    """Real Tensor objects for the world of a history. ids are 1-based."""
    import_geometer()
    from geometer.base import Tensor

    T = {}
    for i, pat in enumerate(w["pat"], start=1):
        dims = [2 if t == "free" else w["dim"][i - 1] for t in pat]
        if vals is None:
            c = w["copy"][i - 1]
            arr = np.zeros(dims, dtype=np.int64)
            for idx in np.ndindex(*dims):
                enc = sum(x * 3 ** k for k, x in enumerate(idx))
                arr[idx] = 1 + c * 7 + enc * (1 + c)
        else:
            arr = np.array(vals[i - 1], dtype=np.int64).reshape(dims)
        nfree = sum(1 for t in pat if t == "free")
        tens = pat[nfree:]
        T[i] = Tensor(arr, covariant=[k for k, t in enumerate(tens) if t == "cov"], tensor_rank=len(tens))
    return T


def check_result(r, res):
    """None if the Tensor r is the specification's result record res."""
    arr = np.asarray(r.array)
    if list(arr.shape) != list(res["shape"]):
        return {"shape": list(arr.shape)}
    if (r.free_indices, r.tensor_shape) != (res["nfree"], (res["ncov"], res["ncon"])):
        return {"free": r.free_indices, "tensor_shape": list(r.tensor_shape)}
    if set(r._covariant_indices) != set(range(res["nfree"], res["nfree"] + res["ncov"])):
        return {"covariant_indices": sorted(r._covariant_indices)}
    if not np.array_equal(arr.reshape(-1), np.array(res["flat"], dtype=np.int64).reshape(-1)):
        return {"flat": arr.reshape(-1).tolist()}
    return None


def replay_history(rec):
    import_geometer()
    from geometer.base import Tensor, TensorDiagram
    from geometer.exceptions import TensorComputationError

    out = []
    w, hist, res, stratum = rec["w"], rec["h"], rec["r"], rec["s"]
    case = {"w": w, "h": hist}

    def run(variant):
        T = make_tensors(w, rec["vals"])
        if variant == "ctor":
            if any(t == 0 for s, t in hist):
                return None
            try:
                d = TensorDiagram(*[(T[s], T[t]) for s, t in hist])
            except TensorComputationError:
                return ("error", None)          # position unknown through the constructor
            return ("value", d.calculate())
        d = TensorDiagram()
        for k, (s, t) in enumerate(hist, start=1):
            try:
                if t == 0:
                    d.add_node(T[s])
                else:
                    d.add_edge(T[s], T[t])
            except TensorComputationError:
                return ("error", k)
        return ("value", d.calculate())

    for variant in ("stepwise", "ctor"):
        try:
            got = run(variant)
        except Exception as e:  # noqa: BLE001
            out.append(dict(site=f"TensorDiagram/{variant}", stratum=stratum, case=case, expected=res,
                            observed=f"raised {type(e).__name__}: {e}"))
            continue
        if got is None:
            continue
        if res["t"] == "error":
            if got[0] != "error" or (got[1] is not None and got[1] != res["at"]):
                out.append(dict(site=f"TensorDiagram/{variant}", stratum=stratum, case=case,
                                expected={"TensorComputationError at edge": res["at"], "why": res["err"]},
                                observed=("no error" if got[0] != "error" else {"raised at edge": got[1]})))
        else:
            if got[0] == "error":
                out.append(dict(site=f"TensorDiagram/{variant}", stratum=stratum, case=case, expected="a value",
                                observed={"TensorComputationError at edge": got[1]}))
            else:
                d = check_result(got[1], res)
                if d is not None:
                    out.append(dict(site=f"TensorDiagram/{variant}", stratum=stratum, case=case,
                                    expected={k: res[k] for k in ("shape", "nfree", "ncov", "ncon", "flat")}, observed=d))
    # derived forms
    if res["t"] == "value":
        T = make_tensors(w, rec["vals"])
        derived = []
        if len(hist) == 1 and hist[0][1] != 0 and hist[0][0] != hist[0][1]:
            s, t = hist[0]
            derived.append(("Tensor.__mul__", lambda: T[t] * T[s]))
            if all(x == "cov" for x in w["pat"][s - 1]):
                derived.append(("Tensor.__mul__(ndarray)", lambda: T[t] * np.array(T[s].array)))
            if all(x == "cov" for x in w["pat"][t - 1]):
                derived.append(("Tensor.__rmul__(ndarray)", lambda: T[s].__rmul__(np.array(T[t].array))))
        if hist == [[2, 1]] and w["copy"][:2] == [1, 1]:
            derived.append(("Tensor.__pow__(2)", lambda: T[1] ** 2))
        if hist == [[2, 1], [3, 2]] and len(w["copy"]) >= 3 and w["copy"][:3] == [1, 1, 1]:
            derived.append(("Tensor.__pow__(3)", lambda: T[1] ** 3))
        if hist == [[1, 0], [2, 0]] and res["nfree"] == 0:
            derived.append(("Tensor.tensor_product", lambda: T[1].tensor_product(T[2])))
        for name, fn in derived:
            try:
                d = check_result(fn(), res)
            except Exception as e:  # noqa: BLE001
                d = f"raised {type(e).__name__}: {e}"
            if d is not None:
                out.append(dict(site=name, stratum=stratum, case=case,
                                expected={k: res[k] for k in ("shape", "nfree", "ncov", "ncon", "flat")}, observed=d))
    return out


def replay_epsdelta(recs):
    """Entry-by-entry comparison; construction order chosen adversarially w.r.t. the caches: ascending,
    then descending, then every transposed pair (p, n) after (n, p)."""
    import_geometer()
    from geometer.base import KroneckerDelta, LeviCivitaTensor

    out = []
    exp = {}
    for r in recs:
        n, p = r["n"], r["p"]
        if r["t"] == "eps":
            a = np.zeros((n,) * n, dtype=np.int64)
        else:
            a = np.zeros((n,) * (2 * p), dtype=np.int64)
        for e in r["nz"]:
            a[tuple(x - 1 for x in e["i"])] = e["s"]
        exp[(r["t"], n, p)] = a
    keys = sorted(exp)
    order = keys + keys[::-1] + sorted(keys, key=lambda k: (k[2], k[1])) + keys
    seen = {}
    for pos, (t, n, p) in enumerate(order):
        for cov in ((True, False) if t == "eps" else (None,)):
            try:
                obj = LeviCivitaTensor(n, cov) if t == "eps" else KroneckerDelta(n, p)
                arr = np.asarray(obj.array)
                ok = arr.shape == exp[(t, n, p)].shape and np.array_equal(arr, exp[(t, n, p)])
                if ok and t == "eps":
                    ok = obj.tensor_shape == ((n, 0) if cov else (0, n))
                if ok and t == "delta":
                    ok = obj.tensor_shape == (p, p)
                obs = None if ok else {"shape": list(arr.shape), "tensor_shape": list(obj.tensor_shape),
                                       "first_difference": (np.argwhere(arr != exp[(t, n, p)])[:1].tolist()
                                                            if arr.shape == exp[(t, n, p)].shape else "shape")}
            except Exception as e:  # noqa: BLE001
                ok, obs = False, f"raised {type(e).__name__}: {e}"
            if not ok:
                first = (t, n, p) not in seen
                out.append(dict(site=("LeviCivitaTensor" if t == "eps" else "KroneckerDelta"),
                                stratum=(f"{t}/first-construction" if first else f"{t}/after-other-sizes"),
                                case={"t": t, "n": n, "p": p, "covariant": cov, "position_in_sequence": pos},
                                expected={"shape": list(exp[(t, n, p)].shape), "nonzero": int(np.count_nonzero(exp[(t, n, p)]))},
                                observed=obs))
        seen[(t, n, p)] = True
    return out


def _work(job):
    try:
        if job[0] == "hist":
            res = []
            for rec in job[1]:
                res += replay_history(rec)
            return res
        if job[0] == "ed":
            return replay_epsdelta(job[1])
    except Exception:  # noqa: BLE001
        import traceback

        return [dict(site="harness", stratum="machinery", case=str(job)[:200], expected="", observed=traceback.format_exc())]


# ---------------------------------------------------------------------------------------------
# code -> spec
PATS = [["cov"], ["con"], ["cov", "con"], ["con", "cov"], ["cov", "cov"], ["con", "con"], ["cov", "cov", "con"],
        ["cov", "con", "con"], ["con", "con", "cov"], ["free", "cov"], ["free", "con"], ["free", "cov", "con"],
        ["free", "con", "cov"], ["free", "free", "con"], ["free", "free", "cov", "con"], ["con", "cov", "cov"]]


def project_state(d, ids):
    """Abstract state of a real TensorDiagram (1-based like the specification)."""
    nodes = [ids[id(n)] for n in d._nodes]
    unused = [[[i + 1 for i in cov], [i + 1 for i in con]] for cov, con in d._unused_indices]
    edges = [[a + 1, b + 1, i + 1, j + 1] for a, b, i, j in d._contraction_list]
    return nodes, unused, edges


def record_trace(seed: int, n_diagrams: int, nids: int = 4, max_ops: int = 5):
    import_geometer()
    from geometer.base import TensorDiagram
    from geometer.exceptions import TensorComputationError

    r = random.Random(seed)
    events = []
    for _ in range(n_diagrams):
        pat, copy, dim = [], [], []
        for i in range(1, nids + 1):
            if i > 1 and r.random() < 0.3:
                c = copy[r.randrange(i - 1)]
                pat.append(pat[c - 1]); copy.append(c); dim.append(dim[c - 1])
            else:
                pat.append(r.choice(PATS)); copy.append(i); dim.append(3 if (i == nids and r.random() < 0.3) else 2)
        w = {"pat": pat, "copy": copy, "dim": dim}
        T = make_tensors(w)
        ids = {id(T[i]): i for i in T}
        vals = [np.asarray(T[i].array).reshape(-1).tolist() for i in range(1, nids + 1)]
        events.append({"op": "world", "pat": pat, "copy": copy, "dim": dim, "vals": vals})
        d = TensorDiagram()
        nops = r.randint(1, max_ops)
        failed = False
        for k in range(nops):
            s, t = r.randint(1, nids), r.randint(1, nids)
            if r.random() < 0.12 and all(n is not T[s] for n in d._nodes):
                d.add_node(T[s])
                nodes, unused, edges = project_state(d, ids)
                events.append({"op": "add_node", "s": s, "err": "none", "nodes": nodes, "unused": unused, "edges": edges})
                continue
            err = "none"
            try:
                d.add_edge(T[s], T[t])
            except TensorComputationError as e:
                err = "no-index-left" if "no indices" in str(e) else "size-mismatch"
            nodes, unused, edges = project_state(d, ids)
            events.append({"op": "add_edge", "s": s, "t": t, "err": err, "nodes": nodes, "unused": unused, "edges": edges})
            if err != "none":
                failed = True
                break
            if r.random() < 0.5:
                events.append(_calc_event(d))
        if not failed and events[-1]["op"] != "calculate":
            events.append(_calc_event(d))
    return events


def _calc_event(d):
    try:
        res = d.calculate()
        a = np.asarray(res.array)
        if a.size > 5000:
            return {"op": "calculate", "shape": list(a.shape), "nfree": res.free_indices, "ncov": res.tensor_shape[0],
                    "ncon": res.tensor_shape[1], "flat": []}
        return {"op": "calculate", "shape": list(a.shape), "nfree": res.free_indices, "ncov": res.tensor_shape[0],
                "ncon": res.tensor_shape[1], "flat": [int(x) for x in a.reshape(-1)]}
    except Exception as e:  # noqa: BLE001
        return {"op": "calculate", "shape": [], "nfree": -1, "ncov": -1, "ncon": -1, "flat": [], "exc": type(e).__name__ + ": " + str(e)[:80]}


def validate_trace(ctx: Ctx, events, name, nids=4):
    from ..record import write_ndjson

    path = ctx.work / f"{name}.ndjson"
    write_ndjson(path, events)
    cfg = cfg_text(spec="TraceSpec", constants={"Patterns": "PatQuick", "MaxEdges": 50, "NIds": nids,
                                                "WithDim3": True, "DoDump": False},
                   invariants=INVS, constraints=["Report"], postcondition="TraceAccepted")
    cfg = cfg.replace("Patterns = PatQuick", "Patterns <- PatQuick")
    r = ctx.tlc("Trace_C05", cfg, name=name, workers=1, dump=True, env={"TRACE_FILE": str(path)})
    reports = list(read_dump(r["dump"]))
    if not reports or reports[-1]["consumed"] != len(events):
        raise MachineryError("trace validation did not consume the whole trace")
    return reports[-1]["bad"]


TIER = {"quick": dict(passes=[("PatQuick", 3, 2)], dim3=True, maxeps=6, delta="DeltaQuick", ndiag=300),
        # thorough: every pattern with histories of two steps, and the quick pattern table with histories of three steps
        # (PatFull with three steps is ~70 M states with rank-9 results: it did not finish in an hour on 16 cores)
        "thorough": dict(passes=[("PatFull", 3, 2), ("PatQuick", 3, 3)], dim3=True, maxeps=6, delta="DeltaFull", ndiag=8000)}


def _chunks(it, n):
    buf = []
    for x in it:
        buf.append(x)
        if len(buf) == n:
            yield buf
            buf = []
    if buf:
        yield buf


def run(ctx: Ctx):
    t = TIER[ctx.tier]
    strata = {}
    nhist = 0
    mid = None
    for pats, nids, edges in t["passes"]:
        cfg = cfg_text(constants={"Patterns": "XX", "MaxEdges": edges, "NIds": nids, "WithDim3": t["dim3"],
                                  "DoDump": True}, invariants=INVS, constraints=["Dump"])
        cfg = cfg.replace("Patterns = XX", f"Patterns <- {pats}")
        r = ctx.tlc("Diagram", cfg, name=f"Diagram-{pats}-{edges}", dump=True, timeout=3400)

        def jobs():
            nonlocal nhist, mid
            for chunk in _chunks(read_dump(r["dump"]), 300):
                for x in chunk:
                    strata[x["s"]] = strata.get(x["s"], 0) + 1
                    ctx.count(x["s"])
                    if x["s"] != "general" and len(ctx.nontrivial_keys) < 200000:
                        ctx.nontrivial(str((x["w"], x["h"])))
                nhist += len(chunk)
                if mid is None and nhist > 3000:
                    mid = chunk[len(chunk) // 2]
                yield ("hist", chunk)

        with Pool(16) as pool:
            for res in pool.imap_unordered(_work, jobs(), chunksize=1):
                for m in res:
                    if m["stratum"] == "machinery":
                        raise MachineryError(m["observed"])
                    ctx.mismatch(m["site"], m["stratum"], m["case"], m["expected"], m["observed"])
        (ctx.work / f"Diagram-{pats}-{edges}.dump").unlink(missing_ok=True)
        ctx.log(f"pass {pats}/{edges} edges: {nhist} histories replayed so far")
    if not nhist:
        raise MachineryError("no history dumped")
    for need in ("no-index-left", "size-mismatch", "self-edge", "repeated-edge", "value-equal-copies", "free-axes",
                 "tensor-product", "general"):
        if not strata.get(need):
            raise MachineryError(f"stratum {need} was never visited (vacuous)")
    cfg2 = cfg_text(constants={"MaxEps": t["maxeps"], "DeltaSizes": "XX", "DoDump": True}, invariants=ED_INVS,
                    constraints=["Dump"]).replace("DeltaSizes = XX", f"DeltaSizes <- {t['delta']}")
    r2 = ctx.tlc("EpsDelta", cfg2, dump=True)
    ed = list(read_dump(r2["dump"]))
    for m in _work(("ed", ed)):
        if m["stratum"] == "machinery":
            raise MachineryError(m["observed"])
        ctx.mismatch(m["site"], m["stratum"], m["case"], m["expected"], m["observed"])
    for x in ed:
        ctx.count(f"{x['t']}({x['n']},{x['p']})", n=max(1, len(x["nz"])))
        ctx.nontrivial(("ed", x["t"], x["n"], x["p"]))
    ctx.cov["traces_validated_against_impl"] += nhist + len(ed)
    if mid is not None:
        ctx.sample({"history": mid["h"], "world": mid["w"], "expected": mid["r"]})
    # ---- code -> spec
    for part in range(0, t["ndiag"], 700):
        events = record_trace(ctx.seed * 31 + part, min(700, t["ndiag"] - part))
        bad = validate_trace(ctx, events, f"trace{part}")
        ctx.cov["traces_validated_against_impl"] += sum(1 for e in events if e["op"] == "world")
        ctx.cov["evaluations"] += len(events)
        ctx.cov["trace_events"] = ctx.cov.get("trace_events", 0) + len(events)
        for l, why in bad:
            # find the world of this event
            k = l - 1
            while events[k]["op"] != "world":
                k -= 1
            ctx.mismatch(f"TensorDiagram.{events[l - 1]['op']}/trace", "trace:" + why.split(":")[0],
                         {"world": {x: events[k][x] for x in ("pat", "copy", "dim")}, "events": events[k + 1:l]},
                         "the corresponding action of Diagram.tla with the logged next state", why)
        ctx.sample({"recorded_events": events[:3]})
