"""C12, second state machine (spec/Lifecycle.tla): objects are derived from one another and edited in place, with queries
interleaved in every possible way; every query must answer exactly what the same object answers when it is rebuilt from a
fresh root by its derive / edit path without any of the interleaved queries."""
from __future__ import annotations

from multiprocessing import Pool

import numpy as np

from ..core import Ctx, MachineryError, S, cfg_text, import_geometer, read_dump

# ---- per kind: root constructor, queries, derivations (name, function, shares the array with the source), edits ----------


def tables():
    import geometer as g

    P2, P3 = g.Point(1.0, 2.0), g.Point(1.0, 2.0, 3.0)
    t2 = g.rotation(0.3) * g.translation(1, 2)
    t3 = g.rotation(0.5, axis=g.Point(1, 2, 2)) * g.translation(1, 0, -1)
    line2 = g.Line(1.0, 2.0, -3.0)
    lineq = g.Line(g.Point(1.0, 1.0, 0.0), g.Point(1.0, 1.0, 5.0))

    def shift_last(o):          # every element: last coordinate + 1 (Ellipsis: the same for every alias shape)
        o[..., -1] = np.asarray(o.array)[..., -1] + 1

    T = {}
    T["plane"] = dict(
        root=lambda: g.Plane(np.array([1.0, 2.0, -2.0, 3.0])),
        q=[("basis_matrix", lambda o: o.basis_matrix), ("contains(P)", lambda o: o.contains(P3)), ("project(P)", lambda o: o.project(P3)),
           ("mirror(P)", lambda o: o.mirror(P3)), ("dist(o,P)", lambda o: g.dist(o, P3)), ("dist(F,o)", lambda o: g.dist(g.Plane(2.0, 4.0, -4.0, 1.0), o)),
           ("perpendicular(P)", lambda o: o.perpendicular(P3))],
        d=[("t3*o", lambda o: t3 * o, False), ("o+P", lambda o: o + P3, False), ("copy()", lambda o: o.copy(), True)],
        e=[("o[..., -1] += 1", shift_last)])
    T["line2"] = dict(
        root=lambda: g.Line(np.array([1.0, 2.0, -3.0])),
        q=[("base_point", lambda o: o.base_point), ("direction", lambda o: o.direction), ("basis_matrix", lambda o: o.basis_matrix),
           ("perpendicular(P)", lambda o: o.perpendicular(P2)), ("project(P)", lambda o: o.project(P2)), ("general_point", lambda o: o.general_point),
           ("dist(o,P)", lambda o: g.dist(o, P2))],
        d=[("t*o", lambda o: t2 * o, False), ("o+P", lambda o: o + P2, False), ("copy()", lambda o: o.copy(), True)],
        e=[("o[..., -1] += 1", shift_last)])
    T["circle"] = dict(
        root=lambda: g.Circle(g.Point(1.0, 2.0), 2.0),
        q=[("dual", lambda o: o.dual), ("is_tangent(l)", lambda o: o.is_tangent(line2)), ("contains(P)", lambda o: o.contains(g.Point(3.0, 2.0))),
           ("foci", lambda o: o.foci), ("is_degenerate", lambda o: o.is_degenerate), ("intersect(l)", lambda o: o.intersect(line2)),
           ("polar(P)", lambda o: o.polar(P2)), ("tangent(P)", lambda o: o.tangent(g.Point(5.0, 5.0)))],
        d=[("t*o", lambda o: t2 * o, False), ("o+P", lambda o: o + P2, False), ("copy()", lambda o: o.copy(), True)],
        e=[("o[..., 2, 2] -= 0.5", lambda o: o.__setitem__((Ellipsis, 2, 2), np.asarray(o.array)[..., 2, 2] - 0.5))])
    T["linepair"] = dict(
        root=lambda: g.Conic.from_lines(g.Line(1.0, 0.0, -1.0), g.Line(0.0, 1.0, 1.0)),
        q=[("components", lambda o: o.components), ("is_degenerate", lambda o: o.is_degenerate), ("intersect(l)", lambda o: o.intersect(line2)),
           ("contains(P)", lambda o: o.contains(g.Point(1.0, 5.0)))],
        d=[("t*o", lambda o: t2 * o, False), ("o+P", lambda o: o + P2, False), ("copy()", lambda o: o.copy(), True)],
        e=[("o[...] *= 2", lambda o: o.__setitem__(Ellipsis, np.asarray(o.array) * 2))])
    T["sphere"] = dict(
        root=lambda: g.Sphere(g.Point(1.0, 0.0, 2.0), 3.0),
        q=[("dual", lambda o: o.dual), ("is_tangent(E)", lambda o: o.is_tangent(g.Plane(1.0, 0.0, 0.0, -4.0))), ("center", lambda o: o.center),
           ("radius", lambda o: o.radius), ("intersect(L)", lambda o: o.intersect(lineq)), ("tangent(P)", lambda o: o.tangent(g.Point(4.0, 0.0, 2.0)))],
        d=[("t3*o", lambda o: t3 * o, False), ("o+P", lambda o: o + P3, False), ("copy()", lambda o: o.copy(), True)],
        e=[("o[..., 3, 3] -= 1", lambda o: o.__setitem__((Ellipsis, 3, 3), np.asarray(o.array)[..., 3, 3] - 1.0))])
    T["polygon3"] = dict(
        root=lambda: g.Polygon(np.array([[0.0, 0, 1, 1], [2, 0, 1, 1], [2, 2, 3, 1], [0, 2, 3, 1]])),
        q=[("area", lambda o: o.area), ("contains(P)", lambda o: o.contains(g.Point(1.0, 1.0, 2.0))), ("centroid", lambda o: o.centroid),
           ("intersect(L)", lambda o: o.intersect(lineq)), ("edges", lambda o: o.edges), ("dist(o,P)", lambda o: g.dist(o, P3)),
           ("vertices", lambda o: o.vertices)],
        d=[("t3*o", lambda o: t3 * o, False), ("o+P", lambda o: o + P3, False), ("copy()", lambda o: o.copy(), True)],
        e=[("o[..., 2] += w", lambda o: o.__setitem__((Ellipsis, 2), np.asarray(o.array)[..., 2] + np.asarray(o.array)[..., 3]))])
    T["polygon2"] = dict(
        root=lambda: g.Polygon(np.array([[0.0, 0, 1], [3, 0, 1], [3, 3, 1], [1, 1, 1], [0, 3, 1]])),
        q=[("area", lambda o: o.area), ("contains(P)", lambda o: o.contains(g.Point(2.0, 1.0))), ("centroid", lambda o: o.centroid),
           ("intersect(l)", lambda o: o.intersect(line2)), ("edges", lambda o: o.edges), ("angles", lambda o: o.angles), ("dist(o,P)", lambda o: g.dist(o, g.Point(5.0, 5.0)))],
        d=[("t*o", lambda o: t2 * o, False), ("o+P", lambda o: o + P2, False), ("copy()", lambda o: o.copy(), True)],
        e=[("o[..., 0] += w", lambda o: o.__setitem__((Ellipsis, 0), np.asarray(o.array)[..., 0] + np.asarray(o.array)[..., 2]))])
    T["segment2"] = dict(
        root=lambda: g.Segment(np.array([[0.0, 2, 1], [2, 0, 1]])),
        q=[("contains(P)", lambda o: o.contains(g.Point(1.0, 1.0))), ("midpoint", lambda o: o.midpoint), ("length", lambda o: o.length),
           ("intersect(l)", lambda o: o.intersect(line2)), ("dist(o,P)", lambda o: g.dist(o, P2))],
        d=[("t*o", lambda o: t2 * o, False), ("o+P", lambda o: o + P2, False), ("copy()", lambda o: o.copy(), True)],
        e=[("o[..., 0] += w", lambda o: o.__setitem__((Ellipsis, 0), np.asarray(o.array)[..., 0] + np.asarray(o.array)[..., 2]))])
    T["trafo"] = dict(
        root=lambda: g.Transformation(np.array([[1.0, 2, 0], [0, 1, 1], [1, 0, 2]])),
        q=[("inverse()", lambda o: o.inverse()), ("o*line", lambda o: o * line2), ("o**-1", lambda o: o ** -1), ("o*circle", lambda o: o * g.Circle(g.Point(1.0, 2.0), 2.0)),
           ("o*point", lambda o: o * P2), ("o**2", lambda o: o ** 2)],
        d=[("o*t", lambda o: o * t2, False), ("o**2", lambda o: o ** 2, False), ("copy()", lambda o: o.copy(), True)],
        e=[("o[..., 0, -1] += 1", lambda o: o.__setitem__((Ellipsis, 0, -1), np.asarray(o.array)[..., 0, -1] + 1.0))])
    T["tcoll"] = dict(
        root=lambda: g.TransformationCollection(np.array([np.eye(3), [[1.0, 1, 0], [0, 1, 0], [0, 0, 1]], [[2.0, 0, 1], [0, 1, 0], [0, 0, 1]]])),
        q=[("inverse()", lambda o: o.inverse()), ("o*line", lambda o: o * line2), ("o**-1", lambda o: o ** -1), ("o*point", lambda o: o * P2)],
        d=[("expand_dims(0)", lambda o: o.expand_dims(0), True), ("o*t", lambda o: o * t2, False), ("copy()", lambda o: o.copy(), True)],
        e=[("o[..., 0, -1] += 1", lambda o: o.__setitem__((Ellipsis, 0, -1), np.asarray(o.array)[..., 0, -1] + 1.0))])
    T["pcoll"] = dict(
        root=lambda: g.PointCollection(np.array([[2.0, 4, 2], [1, 1, 0], [3, 0, 1], [-3, 6, -3]])),
        q=[("normalized_array", lambda o: o.normalized_array), ("isinf", lambda o: o.isinf), ("str", lambda o: str(o)), ("o+P", lambda o: o + P2),
           ("join(o,P)", lambda o: g.join(o, g.Point(7.0, -5.0))), ("dist(o,P)", lambda o: g.dist(o, P2))],
        d=[("t*o", lambda o: t2 * o, False), ("expand_dims(0)", lambda o: o.expand_dims(0), True), ("copy()", lambda o: o.copy(), True)],
        e=[("o[..., 0] += w", lambda o: o.__setitem__((Ellipsis, 0), np.asarray(o.array)[..., 0] + np.asarray(o.array)[..., -1]))])
    return T


_T = None


def TT():
    global _T
    if _T is None:
        import_geometer()
        _T = tables()
    return _T


def spec_tables_text():
    """spec/Lifecycle_MC.tla: the sizes of the tables above (regenerate with tools/gen_lifecycle_mc.py)"""
    T = TT()
    kinds = sorted(T)

    def fn(f):
        return "[k \\in KindsDef |-> CASE " + " [] ".join(f'k = "{k}" -> {f(T[k])}' for k in kinds) + "]"
    share = lambda t: "{" + ", ".join(str(i + 1) for i, d in enumerate(t["d"]) if d[2]) + "}"  # noqa: E731
    return ("------------------------------ MODULE Lifecycle_MC ------------------------------\n"
            "(* Sizes of the action tables of harness/props/lifecycle.py (generated by tools/gen_lifecycle_mc.py; the check fails as a\n"
            "   machinery error when the two differ). *)\n"
            "EXTENDS Lifecycle\n"
            "KindsDef == {" + ", ".join(f'"{k}"' for k in kinds) + "}\n"
            "NQDef == " + fn(lambda t: len(t["q"])) + "\n"
            "NDDef == " + fn(lambda t: len(t["d"])) + "\n"
            "NEDef == " + fn(lambda t: len(t["e"])) + "\n"
            "SharesDef == " + fn(share) + "\n"
            "=============================================================================\n")


def canon(x):
    from .purity import canon_answer
    return canon_answer(x)


def run_query(kind, i, obj):
    try:
        with np.errstate(all="ignore"):
            return canon(TT()[kind]["q"][i - 1][1](obj))
    except Exception as e:  # noqa: BLE001
        return ("EXC", type(e).__name__)


def rebuild(kind, path):
    t = TT()[kind]
    o = t["root"]()
    for step, i in path:
        if step == "d":
            o = t["d"][i - 1][1](o)
        else:
            t["e"][i - 1][1](o)
    return o


def replay(recs):
    out = []
    for r in recs:
        kind, hist = r["k"], r["h"]
        t = TT()[kind]
        objs = [t["root"]()]
        paths = [[]]
        for n, (a, o, i) in enumerate(hist):
            if a == "q":
                got = run_query(kind, i, objs[o - 1])
                want = run_query(kind, i, rebuild(kind, paths[o - 1]))
                if got != want:
                    def name(ev):
                        a_, o_, i_ = ev
                        return f"obj{o_}." + (t["q"][i_ - 1][0] if a_ == "q" else (t["d"][i_ - 1][0] if a_ == "d" else t["e"][i_ - 1][0]))
                    out.append(dict(site=f"{kind}.{t['q'][i - 1][0]}", stratum="answer-depends-on-interleaved-queries",
                                    case={"kind": kind, "history": [name(ev) for ev in hist[: n + 1]],
                                          "path of the queried object": [("derive " + t["d"][j - 1][0]) if s == "d" else ("edit " + t["e"][j - 1][0]) for s, j in paths[o - 1]]},
                                    expected="the answer of the same object rebuilt from a fresh root by its path, without the interleaved queries",
                                    observed={"differs": True, "answer kinds": [str(got[0]), str(want[0])]}))
                    break
            elif a == "d":
                objs.append(t["d"][i - 1][1](objs[o - 1]))
                paths.append(paths[o - 1] + [("d", i)])
            else:
                t["e"][i - 1][1](objs[o - 1])
                paths[o - 1] = paths[o - 1] + [("e", i)]
        else:
            # the paths the specification computed are the paths the replay followed
            if [[list(s) for s in p] for p in paths] != [[list(s) for s in p] for p in r["paths"]]:
                raise MachineryError("replay and specification disagree about the paths of the objects")
    return out


def _work(recs):
    try:
        import_geometer()
        return replay(recs)
    except MachineryError as e:
        return [dict(site="harness", stratum="machinery", case="", expected="", observed=str(e))]
    except Exception:  # noqa: BLE001
        import traceback

        return [dict(site="harness", stratum="machinery", case="", expected="", observed=traceback.format_exc())]


TIER = {"quick": dict(maxlen=3, maxobjs=3, sim=3000, simlen=7), "thorough": dict(maxlen=4, maxobjs=3, sim=40000, simlen=9)}


def run_lifecycle(ctx: Ctx):
    import_geometer()
    t = TIER[ctx.tier]
    spec_path = ctx.work.parent.parent / "spec" / "Lifecycle_MC.tla"
    if not spec_path.exists() or spec_path.read_text() != spec_tables_text():
        raise MachineryError("spec/Lifecycle_MC.tla does not match the tables of harness/props/lifecycle.py (run tools/gen_lifecycle_mc.py)")
    consts = {"Kinds": "KindsDef", "NQ": "NQDef", "ND": "NDDef", "NE": "NEDef", "SharesMem": "SharesDef",
              "MaxLen": t["maxlen"], "MaxObjs": t["maxobjs"], "DoDump": True}

    def cfg(c):
        txt = cfg_text(constants=c, invariants=["TypeOK", "AliasesSeeTheSameData"], properties=["QueriesArePure"], constraints=["Dump"])
        for k in ("Kinds", "NQ", "ND", "NE", "SharesMem"):
            txt = txt.replace(f"{k} = {c[k]}", f"{k} <- {c[k]}")
        return txt
    r = ctx.tlc("Lifecycle_MC", cfg(consts), name="Lifecycle", dump=True)
    recs = list(read_dump(r["dump"]))
    if len(recs) < 1000:
        raise MachineryError("too few life-cycle histories")
    c2 = dict(consts, MaxLen=t["simlen"], MaxObjs=4)
    txt = cfg(c2).replace("PROPERTY QueriesArePure\n", "").replace("PROPERTIES\n  QueriesArePure\n", "")
    r2 = ctx.tlc("Lifecycle_MC", txt, name="Lifecycle-sim", dump=True, simulate=f"num={t['sim']}", depth=t["simlen"] + 1, workers=4)
    sim = list(read_dump(r2["dump"]))
    cap = t["sim"] * 4            # TLC's simulator restarts a behaviour whenever Next is disabled, so it emits many more than num
    if len(sim) > cap:
        sim = sim[:: len(sim) // cap][:cap]
    allr = recs + sim
    kinds_seen = {x["k"] for x in allr}
    if kinds_seen != set(TT()):
        raise MachineryError(f"kinds never visited: {sorted(set(TT()) - kinds_seen)}")
    with_edit = sum(1 for x in allr if any(e[0] == "e" for e in x["h"]))
    with_derive = sum(1 for x in allr if any(e[0] == "d" for e in x["h"]))
    if not with_edit or not with_derive:
        raise MachineryError("no history with an edit / a derivation (vacuous)")
    ctx.log(f"life cycle: {len(recs)} exhaustive histories of length {t['maxlen']} + {len(sim)} random ones of length {t['simlen']} "
            f"({with_derive} with a derivation, {with_edit} with an edit)")
    jobs = [allr[i:i + 400] for i in range(0, len(allr), 400)]
    with Pool(16) as pool:
        results = pool.map(_work, jobs, chunksize=1)
    for res in results:
        for m in res:
            if m["stratum"] == "machinery":
                raise MachineryError(m["observed"])
            ctx.mismatch(m["site"], m["stratum"], m["case"], m["expected"], m["observed"])
    for x in allr:
        ctx.count("life-cycle/" + x["k"])
        ctx.nontrivial(("lc", x["k"], str(x["h"])))
    ctx.cov["traces_validated_against_impl"] += len(allr)
    ctx.sample({"life_cycle_history": allr[len(allr) // 2]})
    return len(allr)
