"""C07: transformations preserve incidence, commute with join/meet, keep quadric membership/tangency and cross ratios."""
from __future__ import annotations

import json
from multiprocessing import Pool

import numpy as np

from ..abstraction import TOL, coords_of, kind_of, same_class
from ..core import Ctx, MachineryError, S, cfg_text, import_geometer, read_dump
from ..geom import build
from .joinmeet import err_name
from .transform import build_any, compare_any

RULE = ("cases = (configuration, matrix) pairs enumerated by TLC: all join/meet families on lattice classes, incidence pairs, "
        "lattice points on/off quadrics and polars, four collinear points with chosen parameters, each with 8 generating "
        "matrices (mostly non-isometries); non-trivial = dependent/skew configuration, incident pair, point on quadric, "
        "tangent hyperplane, infinite or zero cross ratio")
INVS = ["Commutes", "IncidencePreserved", "QuadricPreserved", "CRInvariant", "PencilCRInvariant", "VerticesInOrder"]
KINDS = {"j2pp": ("join", ("point", "point")), "m2ll": ("meet", ("line", "line")), "j3pp": ("join", ("point", "point")),
         "j3ppp": ("join", ("point", "point", "point")), "j3pl": ("join", ("point", "line3")),
         "j3ll": ("join", ("line3", "line3")), "m3ee": ("meet", ("plane", "plane")),
         "m3eee": ("meet", ("plane", "plane", "plane")), "m3le": ("meet", ("line3", "plane")),
         "m3ll": ("meet", ("line3", "line3"))}


def reused_transformation(g, M):
    """A Transformation object that has been used with ANOTHER matrix before (applied to a point, a hyperplane and a
    quadric, inverted, raised to a negative power) and is then given the matrix M in place through the public item
    assignment: whatever the object memorises about its former matrix must not survive."""
    n = len(M)
    M0 = np.eye(n) + np.diag(np.arange(1.0, n), 1)[:n, :n] * 0 + np.triu(np.ones((n, n)), 1)      # unipotent, invertible
    t = g.Transformation(M0.copy())
    hyper = g.Line(np.arange(1, n + 1)) if n == 3 else g.Plane(np.arange(1, n + 1))
    (t * g.Point(np.ones(n)), t * hyper, t * g.Quadric(np.diag([1.0] * (n - 1) + [-1.0])), t.inverse(), t ** -1)
    A = np.array(M, dtype=float)
    for i in range(n):
        for j in range(n):
            t[i, j] = A[i, j]
    return t


def replay(recs):
    out = _replay(recs, False)
    # every eighth record again with a transformation object that was used before and then edited in place
    sub = [d for k, d in enumerate(recs) if k % 8 == 0 and d["r"]["t"] in ("jm", "inc", "qp", "qh", "poly")]
    for m in _replay(sub, True):
        m["site"] += "/transformation-edited-in-place"
        out.append(m)
    return out


def _replay(recs, reused):
    g = import_geometer()
    out = []
    for d in recs:
        r, stratum = d["r"], d["s"]
        t = reused_transformation(g, r["M"]) if reused else g.Transformation(np.array(r["M"]))
        try:
            if r["t"] == "jm":
                op, kinds = KINDS[r["f"]]
                fn = g.join if op == "join" else g.meet
                objs = [build(k, v) for k, v in zip(kinds, r["a"])]
                site = f"{op}({','.join(kinds)})"
                case = {"f": r["f"], "a": r["a"], "M": r["M"]}
                imgs = [t * o for o in objs]
                if r["e"] == "none":
                    lhs = t * fn(*objs)
                    rhs = fn(*imgs)
                    for name, val in (("t*op(args)", lhs), ("op(t*args)", rhs)):
                        dd = compare_any(val, r["r"])
                        if dd is not None:
                            out.append(dict(site=f"{site}/{name}", stratum=stratum, case=case, expected=r["r"], observed=dd))
                else:
                    try:
                        val = fn(*imgs)
                        out.append(dict(site=f"{site}/op(t*args)", stratum=stratum, case=case, expected={"err": r["e"]},
                                        observed={"returned": kind_of(val)}))
                    except Exception as e:  # noqa: BLE001
                        if err_name(e) != r["e"]:
                            out.append(dict(site=f"{site}/op(t*args)", stratum=stratum, case=case, expected={"err": r["e"]},
                                            observed=f"raised {err_name(e)}: {e}"))
            elif r["t"] == "inc":
                h, p = build(r["h"]["k"], r["h"]["v"]), build(r["p"]["k"], r["p"]["v"])
                case = {"h": r["h"], "p": r["p"], "M": r["M"]}
                before = bool(h.contains(p))
                after = bool((t * h).contains(t * p))
                if before != r["b"] or after != r["b"]:
                    out.append(dict(site=f"contains({r['h']['k']},{r['p']['k']})", stratum=stratum, case=case,
                                    expected={"before": r["b"], "after": r["b"]}, observed={"before": before, "after": after}))
            elif r["t"] in ("qp", "qh"):
                dim = r["d"]
                Q = build_any({"k": "quadric", "v": r["Q"]}, dim)
                case = {"Q": r["Q"], "x": r["x"], "M": r["M"]}
                if r["t"] == "qp":
                    x = build("point", r["x"])
                    before, after = bool(Q.contains(x)), bool((t * Q).contains(t * x))
                    site = f"Quadric.contains/{dim}D"
                else:
                    x = build("line" if dim == 2 else "plane", r["x"])
                    before, after = bool(Q.is_tangent(x)), bool((t * Q).is_tangent(t * x))
                    site = f"Quadric.is_tangent/{dim}D"
                    # the same statement through the dual quadric: it contains exactly the tangent hyperplanes, its image is the
                    # dual of the image
                    try:
                        D = Q.dual
                        d_before, d_after = bool(D.contains(x)), bool((t * D).contains(t * x))
                        same = same_class(np.asarray((t * D).array).reshape(-1), np.asarray((t * Q).dual.array).reshape(-1))
                        if d_before != r["b"] or d_after != r["b"] or not same:
                            out.append(dict(site=f"Quadric.dual.contains/{dim}D", stratum=stratum, case=case, expected={"before": r["b"], "after": r["b"], "t*q.dual == (t*q).dual": True},
                                            observed={"before": d_before, "after": d_after, "t*q.dual == (t*q).dual": bool(same)}))
                    except Exception as e:  # noqa: BLE001
                        out.append(dict(site=f"Quadric.dual.contains/{dim}D", stratum=stratum, case=case, expected="no exception", observed=f"raised {type(e).__name__}: {e}"))
                if before != r["b"] or after != r["b"]:
                    out.append(dict(site=site, stratum=stratum, case=case, expected={"before": r["b"], "after": r["b"]},
                                    observed={"before": before, "after": after}))
            elif r["t"] == "poly":
                dim = r["d"]
                case = {"x": r["x"], "M": r["M"]}
                for form, fn in (("t*x", lambda x: t * x), ("t.apply(x)", lambda x: t.apply(x))):
                    x = build_any(r["x"], dim)
                    y = fn(x)
                    dd = compare_any(y, r["img"])
                    if dd is None and type(y) is not type(x):
                        dd = f"result type {type(y).__name__} != {type(x).__name__}"
                    if dd is None and r["x"]["k"] != "polyhedron":
                        # the accessor returns them in the same order too
                        vs = [np.asarray(v.array) for v in y.vertices]
                        ev = r["img"]["v"]
                        if len(vs) != len(ev) or not all(same_class(a, np.array(b)) for a, b in zip(vs, ev)):
                            dd = {"vertices": [a.tolist() for a in vs]}
                    if dd is None:
                        # for every kind of polytope (polyhedra too): vertex k of the image is the image of vertex k
                        try:
                            vx, vy = list(x.vertices), list(y.vertices)
                            if len(vx) != len(vy) or not all(same_class(np.asarray((t * a).array), np.asarray(b.array)) for a, b in zip(vx, vy)):
                                dd = {"vertices of the image": [np.asarray(b.array).tolist() for b in vy],
                                      "images of the vertices": [np.asarray((t * a).array).tolist() for a in vx]}
                        except Exception as e:  # noqa: BLE001
                            dd = f"vertices raised {type(e).__name__}: {e}"
                    if dd is not None:
                        out.append(dict(site=f"{r['x']['k']}/{dim}D/{form}", stratum=stratum, case=case, expected=r["img"], observed=dd))
            elif r["t"] == "cr":
                pts = [build("point", v) for v in r["pts"]]
                case = {"pts": r["pts"], "M": r["M"], "cr": r["cr"]}
                with np.errstate(all="ignore"):
                    before = complex(g.crossratio(*pts))
                    after = complex(g.crossratio(*[t * p for p in pts]))
                n, dn = r["cr"]
                for name, val in (("before", before), ("after", after)):
                    ok = (not np.isfinite(val.real) or abs(val) > 1e12) if dn == 0 else abs(val - n / dn) <= TOL * max(1, abs(n / dn))
                    if not ok:
                        out.append(dict(site=f"crossratio/{r['d']}D/{name}", stratum=stratum, case=case,
                                        expected=("inf" if dn == 0 else n / dn), observed=str(val)))
                # pencils over the four points (lines through a vertex, planes through an axis): the same cross ratio, before
                # and after, in the four argument orders that leave a cross ratio unchanged
                def cr_fits(val):
                    return (not np.isfinite(val.real) or abs(val) > 1e12) if dn == 0 else (np.isfinite(val.real) and abs(val - n / dn) <= TOL * max(1, abs(n / dn)))
                pencils = [("lines", v, [g.join(build("point", v), p) for p in pts]) for v in r["vx"]]
                pencils += [("planes", vw, [g.join(build("point", vw[0]), build("point", vw[1]), p) for p in pts]) for vw in r["axes"]]
                for pk, vert, objs in pencils:
                    imgs = [t * o for o in objs]
                    for oname, od in (("abcd", (0, 1, 2, 3)), ("badc", (1, 0, 3, 2)), ("cdab", (2, 3, 0, 1)), ("dcba", (3, 2, 1, 0))):
                        for name, xs in (("before", objs), ("after", imgs)):
                            try:
                                with np.errstate(all="ignore"):
                                    val = complex(g.crossratio(*[xs[i] for i in od]))
                                bad = None if cr_fits(val) else str(val)
                            except Exception as e:  # noqa: BLE001
                                bad = f"raised {type(e).__name__}: {e}"
                            if bad is not None:
                                out.append(dict(site=f"crossratio({pk})/{r['d']}D/{name}/order-{oname}", stratum=stratum, case=dict(case, vertex=vert),
                                                expected=("inf" if dn == 0 else n / dn), observed=bad))
        except Exception as e:  # noqa: BLE001
            out.append(dict(site=f"{r['t']}", stratum=stratum, case={k: r[k] for k in r if k != "t"},
                            expected="no exception", observed=f"raised {type(e).__name__}: {e}"))
    return out


def replay_jm_coll(groups):
    """join / meet commute with a transformation for collections too: the configurations of one family (general, dependent
    and skew ones mixed) stacked into collections; t * op(args) and op(t * args) must agree position by position, and a
    collection holding a dependent / skew position must raise the same error on both sides."""
    g = import_geometer()
    from ..geom import build_coll
    out = []
    for f, M, recs in groups:
        op, kinds = KINDS[f]
        fn = g.join if op == "join" else g.meet
        t = g.Transformation(np.array(M))
        site = f"{op}({','.join(kinds)})/collection"
        case = {"f": f, "M": M, "count": len(recs), "errors": sorted({r["e"] for r in recs})}
        try:
            cols = [build_coll(k, [r["a"][i] for r in recs]) for i, k in enumerate(kinds)]
            imgs = [t * c for c in cols]
            want = "NotCoplanar" if any(r["e"] == "NotCoplanar" for r in recs) else ("LinearDependence" if any(r["e"] != "none" for r in recs) else "none")
            outcome = []
            for side, call in (("op(args)", lambda: fn(*cols)), ("op(t*args)", lambda: fn(*imgs))):
                try:
                    outcome.append((side, "none", call()))
                except Exception as e:  # noqa: BLE001
                    outcome.append((side, err_name(e), e))
            for side, e, val in outcome:
                if e != want:
                    out.append(dict(site=f"{site}/{side}", stratum=("jm/" + f if want == "none" else want), case=case, expected={"err": want},
                                    observed={"err": e, "detail": str(val)[:120] if e != "none" else "returned"}))
            if want == "none" and all(e == "none" for _, e, _ in outcome):
                lhs = t * outcome[0][2]
                rhs = outcome[1][2]
                for i, r in enumerate(recs):
                    for name, val in (("t*op(args)", lhs), ("op(t*args)", rhs)):
                        dd = compare_any(val, r["r"], pos=i)
                        if dd is not None:
                            out.append(dict(site=f"{site}/{name}", stratum="jm/" + f, case={**case, "position": i, "a": r["a"]}, expected=r["r"], observed=dd))
                            break
        except Exception as e:  # noqa: BLE001
            out.append(dict(site=site, stratum="jm/" + f, case=case, expected="no exception", observed=f"raised {type(e).__name__}: {e}"))
    return out


def _work(job):
    try:
        if isinstance(job, tuple) and job[0] == "jmcoll":
            return replay_jm_coll(job[1])
        return replay(job)
    except Exception:  # noqa: BLE001
        import traceback

        return [dict(site="harness", stratum="machinery", case="", expected="", observed=traceback.format_exc())]


TIER = {"quick": dict(stride=8), "thorough": dict(stride=1)}


def run(ctx: Ctx):
    t = TIER[ctx.tier]
    tasks = ["jm", "inc2", "inc3", "incl3", "quad2", "quad3", "cr", "poly"]
    cfg = cfg_text(constants={"Tasks": {S(x) for x in tasks}, "Stride": t["stride"], "Seed": ctx.seed % 97, "DoDump": True},
                   invariants=INVS, constraints=["Dump"])
    r = ctx.tlc("C07_Invariance", cfg, dump=True, timeout=(300 if ctx.tier == "quick" else 3400))
    recs = list(read_dump(r["dump"]))
    ncr = 0
    for x in recs:
        if x["r"]["t"] == "cr":
            if not x["r"]["vx"] or (x["r"]["d"] == 3 and not x["r"]["axes"]):
                raise MachineryError("a cross ratio case without pencil vertices (vacuous)")
            if ctx.tier == "quick":      # one vertex and one axis per case, taken in turn (thorough: all of them)
                ncr += 1
                x["r"]["vx"] = [sorted(x["r"]["vx"])[ncr % len(x["r"]["vx"])]]
                x["r"]["axes"] = [sorted(x["r"]["axes"])[ncr % len(x["r"]["axes"])]] if x["r"]["axes"] else []
    strata = {}
    for x in recs:
        strata[x["s"]] = strata.get(x["s"], 0) + 1
    for need in ("LinearDependence", "NotCoplanar", "incident", "not-incident", "on-quadric", "off-quadric", "tangent",
                 "not-tangent", "cr/finite", "jm/j3ll", "jm/m3le", "jm/j3ppp", "jm/m3eee", "polytope/polygon/orientation-reversing",
                 "polytope/segment/orientation-preserving", "polytope/polyhedron/orientation-preserving"):
        if not strata.get(need):
            raise MachineryError(f"stratum {need} never visited (vacuous)")
    ctx.log(f"{len(recs)} cases")
    jobs = [recs[i:i + 400] for i in range(0, len(recs), 400)]
    # collections for join / meet: per (family, matrix) the general configurations in groups of 6, and groups in which one
    # position is dependent or skew
    fam: dict = {}
    for x in recs:
        if x["r"]["t"] == "jm":
            fam.setdefault((x["r"]["f"], json.dumps(x["r"]["M"])), []).append(x["r"])
    cgroups = []
    for (f, Mj), rs in sorted(fam.items()):
        gen = [r for r in rs if r["e"] == "none"]
        bad = [r for r in rs if r["e"] != "none"]
        for i in range(0, min(len(gen), 60), 6):
            if len(gen[i:i + 6]) >= 2:
                cgroups.append((f, json.loads(Mj), gen[i:i + 6]))
        for j, b in enumerate(bad[:6]):
            if len(gen) >= 3:
                cgroups.append((f, json.loads(Mj), gen[j:j + 2] + [b] + gen[j + 2:j + 3]))
    if len(cgroups) < 50:
        raise MachineryError("too few join/meet collection groups (vacuous)")
    jobs += [("jmcoll", cgroups[i:i + 80]) for i in range(0, len(cgroups), 80)]
    with Pool(16) as pool:
        results = pool.map(_work, jobs, chunksize=1)
    for res in results:
        for m in res:
            if m["stratum"] == "machinery":
                raise MachineryError(m["observed"])
            ctx.mismatch(m["site"], m["stratum"], m["case"], m["expected"], m["observed"])
    for x in recs:
        ctx.count(x["s"])
        if x["s"] in ("LinearDependence", "NotCoplanar", "incident", "on-quadric", "tangent", "cr/infinite", "cr/zero"):
            ctx.nontrivial(str(x["r"]))
    ctx.cov["traces_validated_against_impl"] += len(recs)
    if ctx.tier == "thorough":      # a matrix commutes with join when hyperplanes move by the cofactor matrix: for all integers
        ctx.lift_lemmas([("L_Cross", "Cofactor", True), ("L_Cross", "Falsified", False)])
    ctx.sample(recs[0]["r"])
    ctx.sample(recs[len(recs) // 2]["r"])
    # ---- code -> spec: recorded calls on larger coordinates, validated by TLC against Trace_Ops.tla
    from ..optrace import run_optrace

    run_optrace(ctx, ['apply_point', 'apply_hyper', 'on_hyper'])
