"""C13: quadric constructors against C13_QuadricCtors.tla."""
from __future__ import annotations

import math
from multiprocessing import Pool

import numpy as np

from ..abstraction import TOL, same_class
from ..core import Ctx, MachineryError, S, cfg_text, import_geometer, read_dump

RULE = ("cases = defining data enumerated by TLC: five points in general position (and the cross-ratio form), four points + "
        "tangent line, focus pairs + boundary point, circles/ellipses/spheres at lattice centres with rational radii, cones and "
        "cylinders with vertices/centres on the lattice, rational radii and axis directions in ALL octants (sign patterns and "
        "permutations of rational-length vectors) with rational rim points from orthogonal integer frames; non-trivial = centre "
        "not at the origin, axis not in the positive octant / not a coordinate axis")
INVS = ["FiveOn", "RimOn", "SpherePt", "CircleLocus"]
I_ = np.array([-1j, 1, 0])
J_ = np.array([1j, 1, 0])


def mcls(q, M):
    return same_class(np.asarray(q.array).reshape(-1), np.array(M).reshape(-1))


def form(M, x):
    x = np.asarray(x, dtype=complex)
    M = np.asarray(M, dtype=complex)
    return x @ M @ x, (np.linalg.norm(M) * np.linalg.norm(x) ** 2)


def on(M, x, tol=1e-7):
    v, s = form(M, x)
    return abs(v) <= tol * s


def adj3(M):
    M = np.asarray(M, dtype=complex)
    return np.array([[np.linalg.det(np.delete(np.delete(M, j, 0), i, 1)) * (-1) ** (i + j) for j in range(3)] for i in range(3)])


def tangent(M, l, tol=1e-6):
    A = adj3(M)
    l = np.asarray(l, dtype=complex)
    return abs(l @ A @ l) <= tol * np.linalg.norm(A) * np.linalg.norm(l) ** 2


def replay(recs):
    g = import_geometer()
    out = []

    def chk(site, st, case, exp, fn, ok):
        try:
            with np.errstate(all="ignore"):
                val = fn()
            good = bool(ok(val))
        except Exception as e:  # noqa: BLE001
            val, good = f"raised {type(e).__name__}: {e}", False
        if not good:
            if isinstance(val, (tuple, list)):
                val = [np.asarray(getattr(v, "array", v)).tolist() for v in val]
            elif hasattr(val, "array"):
                val = np.asarray(val.array).tolist()
            out.append(dict(site=site, stratum=st, case=case, expected=exp, observed=val if isinstance(val, (str, list)) else str(val)))

    P = lambda v: g.Point(np.array(v))  # noqa: E731
    for d in recs:
        r, st = d["r"], d["s"]
        t = r["t"]
        if t == "five":
            pts = [P(p) for p in r["pts"]]
            case = {"pts": r["pts"]}
            chk("Conic.from_points", st, case, r["M"], lambda: g.Conic.from_points(*pts), lambda c: mcls(c, r["M"]) and all(bool(c.contains(p)) for p in pts))
            scaled = [P(np.array(p) * f) for p, f in zip(r["pts"], [2, -1, 3, 0.5, -2])]
            chk("Conic.from_points/scaled-representatives", st, case, r["M"], lambda: g.Conic.from_points(*scaled), lambda c: mcls(c, r["M"]))
            # the same five points far out on the integer lattice (dilated and shifted by an exact integer affine map, integer
            # dtype throughout): the conic is the image conic T^-T M T^-1
            for K, sh in ((90, (7, -4)), (400, (-150, 230))):
                T = np.array([[K, 0, sh[0]], [0, K, sh[1]], [0, 0, 1]], dtype=np.int64)
                Ta = np.array([[1, 0, -sh[0]], [0, 1, -sh[1]], [0, 0, K]], dtype=np.int64)          # K * T^-1
                big = [(T @ np.array(p, dtype=np.int64)) for p in r["pts"]]
                Mb = (Ta.T.astype(object) @ np.array(r["M"], dtype=object) @ Ta.astype(object))
                Mb = (Mb / max(abs(int(x)) for x in Mb.reshape(-1))).astype(float).tolist()

                def big_ok(c, big=big, Mb=Mb):
                    A = np.asarray(c.array, dtype=float)
                    if not np.all(np.isfinite(A)) or not mcls(c, Mb):
                        return False
                    return all(abs(b @ A @ b) <= 1e-9 * np.abs(A).max() * float(b @ b) for b in (np.array(x, dtype=float) for x in big))
                chk(f"Conic.from_points/integer-lattice-times-{K}", st, {"pts": [b.tolist() for b in big]}, Mb,
                    lambda big=big: g.Conic.from_points(*[g.Point(b) for b in big]), big_ok)
            if r["cr"][1] != 0:
                cr = r["cr"][0] / r["cr"][1]
                chk("Conic.from_crossratio", st, {**case, "cr": r["cr"]}, r["M"], lambda: g.Conic.from_crossratio(cr, *pts[:4]), lambda c: mcls(c, r["M"]))
        elif t == "tangent":
            pts = [P(p) for p in r["pts"]]
            l = g.Line(np.array(r["l"]))
            chk("Conic.from_tangent", st, {"pts": r["pts"], "l": r["l"]}, "contains the four points and is tangent to the line",
                lambda: g.Conic.from_tangent(l, *pts),
                lambda c: all(on(c.array, p) for p in r["pts"]) and tangent(c.array, r["l"]) and np.linalg.norm(c.array) > 0)
        elif t == "foci":
            f1, f2, b = r["f1"] + [1], r["f2"] + [1], r["b"] + [1]

            def foci_ok(c):
                M = np.asarray(c.array)
                if not on(M, b):
                    return False
                for f in (f1, f2):
                    for iso in (I_, J_):
                        if not tangent(M, np.cross(np.array(f, dtype=complex), iso)):
                            return False
                return True
            chk("Conic.from_foci", st, {"f1": r["f1"], "f2": r["f2"], "bound": r["b"]}, "foci f1, f2 and passes through the boundary point",
                lambda: g.Conic.from_foci(P(f1), P(f2), P(b)), foci_ok)

            def readback(c):
                fs = c.foci
                return len(fs) == 2 and all(any(same_class(f.array, e) for e in (f1, f2)) for f in fs) and \
                    all(any(same_class(f.array, e) for f in fs) for e in (f1, f2))
            chk("Conic.foci(from_foci)", st, {"f1": r["f1"], "f2": r["f2"], "bound": r["b"]}, [f1, f2], lambda: g.Conic.from_foci(P(f1), P(f2), P(b)), readback)
        elif t == "circle":
            c, (p, q) = r["c"], r["r"]
            rad = p / q
            case = {"center": c, "radius": r["r"]}
            mk = lambda: g.Circle(g.Point(*c), rad)  # noqa: E731
            chk("Circle", st, case, r["M"], mk, lambda x: mcls(x, r["M"]))
            chk("Circle/center-scaled-representative", st, case, r["M"], lambda: g.Circle(P([3 * c[0], 3 * c[1], 3]), rad), lambda x: mcls(x, r["M"]))
            if q == 1:
                chk("Circle/integer-arguments", st, case, r["M"], lambda: g.Circle(g.Point(np.array(c + [1])), int(p)), lambda x: mcls(x, r["M"]))
                if p % 2 == 0:
                    D = np.diag([2, 2, 1])
                    M2 = (D @ np.array(r["M"]) @ D).tolist()
                    chk("Circle/half-size/integer-representative-w=2", st, {"center": c + [2], "radius": p // 2}, M2,
                        lambda: g.Circle(g.Point(np.array(c + [2])), int(p // 2)), lambda x: mcls(x, M2))
            chk("Circle.contains", st, case, "exactly the points of the locus",
                lambda: (np.asarray(mk().contains(g.PointCollection(np.array(r["on"])))) if r["on"] else np.array([True]),
                         np.asarray(mk().contains(g.PointCollection(np.array(r["off"])))) if r["off"] else np.array([False])),
                lambda v: bool(np.all(v[0])) and not bool(np.any(v[1])))
            chk("Circle.center", st, case, c, lambda: mk().center, lambda x: same_class(x.array, c + [1]))
            from ..moved import mc, motions, mq, warm
            for mname, mv, T, Ti in motions(2):
                c2 = mc(T, c)
                M2 = mq(Ti, r["M"])
                chk(f"Circle/read-then-moved/{mname}", st, {**case, "moved by": mname}, {"center": c2, "radius": rad},
                    lambda mv=mv: (lambda y: (y.center, y.radius, y.foci, y))(mv(warm(mk()))),
                    lambda v, c2=c2, M2=M2: same_class(v[0].array, c2 + [1]) and abs(v[1] - rad) <= TOL * rad and
                    all(same_class(f.array, c2 + [1]) for f in v[2]) and mcls(v[3], M2))
            chk("Circle.radius", st, case, rad, lambda: mk().radius, lambda x: abs(x - rad) <= TOL * rad)
            chk("Circle.area", st, case, math.pi * rad ** 2, lambda: mk().area, lambda x: abs(x - math.pi * rad ** 2) <= TOL * math.pi * rad ** 2)
            chk("Sphere(2D)", st, case, r["M"], lambda: g.Sphere(g.Point(*c), rad), lambda x: mcls(x, r["M"]))
            chk("Sphere(2D).volume/area", st, case, [math.pi * rad ** 2, 2 * math.pi * rad], lambda: (g.Sphere(g.Point(*c), rad).volume, g.Sphere(g.Point(*c), rad).area),
                lambda x: abs(x[0] - math.pi * rad ** 2) <= TOL * 10 and abs(x[1] - 2 * math.pi * rad) <= TOL * 10)
        elif t == "ellipse":
            c, h, v = r["c"], r["h"], r["v"]
            case = {"center": c, "hradius": h, "vradius": v}
            mk = lambda: g.Ellipse(g.Point(*c), h, v)  # noqa: E731
            chk("Ellipse", st, case, r["M"], mk, lambda x: mcls(x, r["M"]))
            chk("Ellipse/center-scaled-representative", st, case, r["M"], lambda: g.Ellipse(P([-2 * c[0], -2 * c[1], -2]), h, v), lambda x: mcls(x, r["M"]))
            chk("Ellipse.contains", st, case, "exactly the points of the locus",
                lambda: (np.asarray(mk().contains(g.PointCollection(np.array(r["on"])))) if r["on"] else np.array([True]),
                         np.asarray(mk().contains(g.PointCollection(np.array(r["off"])))) if r["off"] else np.array([False])),
                lambda x: bool(np.all(x[0])) and not bool(np.any(x[1])))
            if r["ecc"] >= 0:
                from ..moved import mc, motions, warm
                for mname, mv, T, Ti in motions(2)[:2]:          # translations: the foci move with the ellipse
                    e_ = r["ecc"]
                    base = [[c[0], c[1]]] if h == v else ([[c[0] - e_, c[1]], [c[0] + e_, c[1]]] if h > v else [[c[0], c[1] - e_], [c[0], c[1] + e_]])
                    exp2 = [mc(T, b) + [1] for b in base]
                    chk(f"Ellipse.foci/read-then-moved/{mname}", st, {**case, "moved by": mname}, exp2,
                        lambda mv=mv: mv(warm(mk())).foci,
                        lambda fs, exp2=exp2: len(fs) == len(exp2) and all(any(same_class(f.array, x) for x in exp2) for f in fs) and all(any(same_class(f.array, x) for f in fs) for x in exp2))
                e = r["ecc"]
                if h == v:
                    exp = [[c[0], c[1], 1]]
                elif h > v:
                    exp = [[c[0] - e, c[1], 1], [c[0] + e, c[1], 1]]
                else:
                    exp = [[c[0], c[1] - e, 1], [c[0], c[1] + e, 1]]
                chk("Ellipse.foci", st, case, exp, lambda: mk().foci,
                    lambda fs: len(fs) == len(exp) and all(any(same_class(f.array, x) for x in exp) for f in fs) and all(any(same_class(f.array, x) for f in fs) for x in exp))
        elif t == "sphere":
            c, (p, q) = r["c"], r["r"]
            rad = p / q
            case = {"center": c, "radius": r["r"]}
            mk = lambda: g.Sphere(g.Point(*c), rad)  # noqa: E731
            chk("Sphere", st, case, r["M"], mk, lambda x: mcls(x, r["M"]))
            chk("Sphere/center-scaled-representative", st, case, r["M"], lambda: g.Sphere(P([-2 * x for x in c] + [-2]), rad), lambda x: mcls(x, r["M"]))
            if q == 1:
                # integer radius and integer centre coordinates (no float anywhere in the arguments)
                chk("Sphere/integer-arguments", st, case, r["M"], lambda: g.Sphere(g.Point(np.array(c + [1])), int(p)), lambda x: mcls(x, r["M"]))
                if p % 2 == 0:
                    # the same sphere shrunk by 1/2: centre c/2 given by the integer representative (c, 2), radius p/2;
                    # its matrix is D M D with D = diag(2, .., 2, 1)
                    D = np.diag([2] * len(c) + [1])
                    M2 = (D @ np.array(r["M"]) @ D).tolist()
                    chk("Sphere/half-size/integer-representative-w=2", st, {"center": c + [2], "radius": p // 2}, M2,
                        lambda: g.Sphere(g.Point(np.array(c + [2])), int(p // 2)), lambda x: mcls(x, M2))
            chk("Sphere.contains", st, {**case, "p": r["pt"]}, True, lambda: mk().contains(P(r["pt"])), lambda x: bool(x))
            chk("Sphere.contains(off)", st, {**case, "p": c + [1]}, False, lambda: mk().contains(g.Point(*c)), lambda x: not bool(x))
            chk("Sphere.center", st, case, c, lambda: mk().center, lambda x: same_class(x.array, c + [1]))
            from ..moved import mc, motions, warm
            for mname, mv, T, Ti in motions(3):
                c2 = mc(T, c)
                chk(f"Sphere/read-then-moved/{mname}", st, {**case, "moved by": mname}, {"center": c2, "radius": rad},
                    lambda mv=mv: (lambda y: (y.center, y.radius))(mv(warm(mk()))),
                    lambda v, c2=c2: same_class(v[0].array, c2 + [1]) and abs(v[1] - rad) <= TOL * rad)
            chk("Sphere.radius", st, case, rad, lambda: mk().radius, lambda x: abs(x - rad) <= TOL * rad)
            chk("Sphere.volume", st, case, 4 / 3 * math.pi * rad ** 3, lambda: mk().volume, lambda x: abs(x - 4 / 3 * math.pi * rad ** 3) <= TOL * 100)
            chk("Sphere.area", st, case, 4 * math.pi * rad ** 2, lambda: mk().area, lambda x: abs(x - 4 * math.pi * rad ** 2) <= TOL * 100)
        elif t == "cone":
            V, C, (p, q) = r["V"], r["C"], r["r"]
            rad = p / q
            case = {"vertex": V, "base_center": C, "radius": r["r"]}
            mk = lambda: g.Cone(g.Point(*V), g.Point(*C), rad)  # noqa: E731
            chk("Cone", st, case, r["M"], mk, lambda x: mcls(x, r["M"]))
            chk("Cone/scaled-representatives", st, case, r["M"], lambda: g.Cone(P([-x for x in V] + [-1]), P([3 * x for x in C] + [3]), rad), lambda x: mcls(x, r["M"]))
            chk("Cone.contains(rim point)", st, {**case, "p": r["rim"]}, True, lambda: mk().contains(P(r["rim"])), lambda x: bool(x))
            chk("Cone.contains(vertex)", st, case, True, lambda: mk().contains(g.Point(*V)), lambda x: bool(x))
            chk("Cone.contains(base centre)", st, case, False, lambda: mk().contains(g.Point(*C)), lambda x: not bool(x))
        elif t == "cylinder":
            C, dd, (p, q) = r["C"], r["d"], r["r"]
            rad = p / q
            case = {"center": C, "direction": dd, "radius": r["r"]}
            mk = lambda: g.Cylinder(g.Point(*C), g.Point(*dd), rad)  # noqa: E731
            chk("Cylinder", st, case, r["M"], mk, lambda x: mcls(x, r["M"]))
            chk("Cylinder/scaled-representatives", st, case, r["M"], lambda: g.Cylinder(P([2 * x for x in C] + [2]), P([-3 * x for x in dd] + [-3]), rad), lambda x: mcls(x, r["M"]))
            # the axis given as a point at infinity (integer and float coordinates), and the cone with its vertex at infinity
            chk("Cylinder/direction-at-infinity/integer", st, case, r["M"], lambda: g.Cylinder(g.Point(*C), P(list(dd) + [0]), rad), lambda x: mcls(x, r["M"]))
            chk("Cylinder/direction-at-infinity/float", st, case, r["M"], lambda: g.Cylinder(g.Point(*C), g.Point(np.array(list(dd) + [0], dtype=float) * 0.5), rad), lambda x: mcls(x, r["M"]))
            chk("Cone/vertex-at-infinity/integer", st, case, r["M"], lambda: g.Cone(P(list(dd) + [0]), g.Point(*C), rad), lambda x: mcls(x, r["M"]))
            chk("Cone/vertex-at-infinity/negative-representative", st, case, r["M"], lambda: g.Cone(P([-2 * x for x in dd] + [0]), P([3 * x for x in C] + [3]), rad), lambda x: mcls(x, r["M"]))
            chk("Cylinder.contains(rim point)", st, {**case, "p": r["rim"]}, True, lambda: mk().contains(P(r["rim"])), lambda x: bool(x))
            chk("Cylinder.contains(shifted rim point)", st, {**case, "p": r["rim2"]}, True, lambda: mk().contains(P(r["rim2"])), lambda x: bool(x))
            chk("Cylinder.contains(centre)", st, case, False, lambda: mk().contains(g.Point(*C)), lambda x: not bool(x))
    return out


def _work(job):
    try:
        return replay(job)
    except Exception:  # noqa: BLE001
        import traceback

        return [dict(site="harness", stratum="machinery", case="", expected="", observed=traceback.format_exc())]


TIER = {"quick": dict(stride=3), "thorough": dict(stride=1)}
TASKS = ["five", "tangent", "foci", "circle", "ellipse", "sphere", "cone", "cylinder"]


def run(ctx: Ctx):
    t = TIER[ctx.tier]
    cfg = cfg_text(constants={"Tasks": {S(x) for x in TASKS}, "Stride": t["stride"], "Seed": ctx.seed % 97, "DoDump": True},
                   invariants=INVS, constraints=["Dump"])
    r = ctx.tlc("C13_QuadricCtors", cfg, dump=True)
    recs = list(read_dump(r["dump"]))
    kinds = {}
    for x in recs:
        kinds[x["r"]["t"]] = kinds.get(x["r"]["t"], 0) + 1
    for need in TASKS:
        if not kinds.get(need):
            raise MachineryError(f"task {need} produced no case (vacuous)")
    octants = {x["s"] for x in recs if x["r"]["t"] == "cone"}
    if len(octants) < 8:
        raise MachineryError(f"only {len(octants)} axis octants visited for cones")
    ctx.log(f"{len(recs)} cases {kinds}")
    jobs = [recs[i:i + 150] for i in range(0, len(recs), 150)]
    with Pool(16) as pool:
        results = pool.map(_work, jobs, chunksize=1)
    for res in results:
        for m in res:
            if m["stratum"] == "machinery":
                raise MachineryError(m["observed"])
            ctx.mismatch(m["site"], m["stratum"], m["case"], m["expected"], m["observed"])
    for x in recs:
        ctx.count(x["s"])
        if x["s"] not in ("centre-origin", "axis-octant=+++"):
            ctx.nontrivial(str({k: v for k, v in x["r"].items() if k not in ("on", "off")}))
    ctx.cov["traces_validated_against_impl"] += len(recs)
    ctx.sample({k: v for k, v in recs[0]["r"].items() if k not in ("on", "off")})
    ctx.sample({k: v for k, v in recs[-1]["r"].items() if k not in ("on", "off")})
    # ---- code -> spec: recorded calls on larger coordinates, validated by TLC against Trace_Ops.tla
    from ..optrace import run_optrace

    run_optrace(ctx, ['conic_contains'])
