"""C15: components of degenerate quadrics, conic-conic intersection against C15_Degenerate.tla."""
from __future__ import annotations

from multiprocessing import Pool

import numpy as np

from ..abstraction import same_class
from ..core import Ctx, MachineryError, S, cfg_text, import_geometer, read_dump

RULE = ("cases = every ordered pair of lattice lines (all sign patterns, non-primitive representatives) and planes for from_lines/"
        "from_planes + components; pairs of conics with KNOWN common points: pencils through four lattice points (second conic "
        "possibly degenerate), tangent pencils (double base point), circle pairs (I, J), concentric and tangent circles, conjugate "
        "Gaussian pairs; irreducible quadrics that must not be reported reducible; non-trivial = zero coordinate in a component, "
        "double line/plane, repeated resolvent root, degenerate second conic")
INVS = ["PairLocus", "PairDegenerate", "BaseOnBoth", "NoOtherLattice"]


FAR_TOL = 1e-3


def _det3_exact(M):
    from fractions import Fraction
    m = [[Fraction(float(x)) for x in row] for row in np.asarray(M).tolist()]
    return (m[0][0] * (m[1][1] * m[2][2] - m[1][2] * m[2][1]) - m[0][1] * (m[1][0] * m[2][2] - m[1][2] * m[2][0])
            + m[0][2] * (m[1][0] * m[2][1] - m[1][1] * m[2][0]))


def gvec(gp):
    return np.array([complex(a, b) for a, b in gp])


def replay(recs):
    g = import_geometer()
    out = []
    for d in recs:
        r, st = d["r"], d["s"]
        t = r["t"]
        try:
            if t in ("lines", "planes"):
                if t == "lines":
                    a, b = g.Line(np.array(r["g"])), g.Line(np.array(r["h"]))
                    mk = lambda: g.Conic.from_lines(a, b)  # noqa: E731
                    site = "Conic.from_lines"
                else:
                    a, b = g.Plane(np.array(r["g"])), g.Plane(np.array(r["h"]))
                    mk = lambda: g.Quadric.from_planes(a, b)  # noqa: E731
                    site = "Quadric.from_planes"
                case = {"g": r["g"], "h": r["h"]}
                q = mk()
                if not same_class(np.asarray(q.array).reshape(-1), np.array(r["M"]).reshape(-1)):
                    out.append(dict(site=site, stratum=st, case=case, expected=r["M"], observed=np.asarray(q.array).tolist()))
                    continue
                if not bool(q.is_degenerate):
                    out.append(dict(site=site + ".is_degenerate", stratum=st, case=case, expected=True, observed=False))
                try:
                    comps = q.components
                    cs = [np.asarray(c.array) for c in comps]
                    exp = [np.array(r["g"]), np.array(r["h"])]
                    ok = len(cs) == 2 and ((same_class(cs[0], exp[0]) and same_class(cs[1], exp[1])) or (same_class(cs[0], exp[1]) and same_class(cs[1], exp[0])))
                    kinds_ok = all(type(c).__name__ == ("Line" if t == "lines" else "Plane") for c in comps)
                    obs = None if ok and kinds_ok else {"components": [str(c.tolist()) for c in cs], "classes": [type(c).__name__ for c in comps]}
                except Exception as e:  # noqa: BLE001
                    obs = f"raised {type(e).__name__}: {e}"
                if obs is not None:
                    out.append(dict(site=site + ".components", stratum=st, case=case, expected=[r["g"], r["h"]], observed=obs))
                # the quadric has reported its components by now: moved by an exact isometry, its components are the moved pair
                from ..moved import mh, motions, warm
                dimq = 2 if t == "lines" else 3
                for mname, mv, T, Ti in motions(dimq):
                    try:
                        q1 = mv(warm(q))
                        cs = [np.asarray(c.array) for c in q1.components]
                        exp = [np.array(mh(Ti, r["g"])), np.array(mh(Ti, r["h"]))]
                        ok = bool(q1.is_degenerate) and len(cs) == 2 and \
                            ((same_class(cs[0], exp[0]) and same_class(cs[1], exp[1])) or (same_class(cs[0], exp[1]) and same_class(cs[1], exp[0])))
                        obs = None if ok else {"components": [str(c.tolist()) for c in cs]}
                    except Exception as e:  # noqa: BLE001
                        obs = f"raised {type(e).__name__}: {e}"
                    if obs is not None:
                        out.append(dict(site=site + f".components/used-then-moved/{mname}", stratum=st, case={**case, "moved by": mname},
                                        expected=[mh(Ti, r["g"]), mh(Ti, r["h"])], observed=obs))
            elif t == "conics":
                c1, c2 = np.array(r["c1"]), np.array(r["c2"])
                exp = [gvec(p) for p in r["pts"]]
                multiple = r["kind"] in ("pencil-double-root", "special")
                tol = 1e-4 if multiple else 1e-6
                # the same configuration moved far away from the origin by an integer translation (exact): conics T^-T M T^-1
                T = np.array([[1, 0, 600], [0, 1, -400], [0, 0, 1]])
                Ti = np.array([[1, 0, -600], [0, 1, 400], [0, 0, 1]])
                exp0 = exp
                def as_circle(M):
                    """the conic as an object of class Circle: the image of the unit circle under a projective map (a transformed
                    object keeps its class); conics without real points and degenerate ones stay plain Conic objects"""
                    M = np.asarray(M, dtype=float)
                    lam, V = np.linalg.eigh(M)
                    if np.sum(lam > 0) == 1:
                        lam, M = -lam[::-1], -M
                        V = V[:, ::-1]
                    if not (np.sum(lam > 1e-9) == 2 and np.sum(lam < -1e-9) == 1):
                        return g.Conic(M)
                    Tinv = np.diag(np.sqrt(np.abs(lam))) @ V.T              # M = Tinv^T diag(1, 1, -1) Tinv, eigenvalues ascending: (-, +, +)
                    Pm = np.array([[0, 1, 0], [0, 0, 1], [1, 0, 0]], dtype=float)  # move the negative direction last
                    return g.Transformation(np.linalg.inv(Pm @ Tinv)) * g.Circle(g.Point(0, 0), 1)
                for name, A, B in (("", c1, c2), ("/swapped", c2, c1), ("/scaled-matrices", c1 * -2, c2 * 0.5),
                                   ("/far-from-origin", Ti.T @ c1 @ Ti, Ti.T @ c2 @ Ti), ("/circles-under-a-projective-map", c1, c2)):
                    if name == "/swapped" and np.linalg.matrix_rank(B) < 3:
                        continue        # the property's "two conics in general position": keep the non-degenerate one first
                    exp = [T @ e for e in exp0] if name == "/far-from-origin" else exp0
                    case = {"c1": A.tolist(), "c2": B.tolist(), "kind": r["kind"]}
                    far = name == "/far-from-origin"
                    for M in (A, B):
                        # a non-degenerate conic is not reported as degenerate, wherever it lies (and near the origin a degenerate
                        # one is; far away the rounding error of the determinant exceeds the library's absolute tolerance, which
                        # is numerics and not claimed)
                        exact_deg = _det3_exact(M) == 0
                        if far and exact_deg:
                            continue
                        try:
                            deg = bool(g.Conic(M).is_degenerate)
                        except Exception as e:  # noqa: BLE001
                            deg = f"raised {type(e).__name__}: {e}"
                        if deg != exact_deg:
                            out.append(dict(site="Conic.is_degenerate" + name, stratum=st, case={"conic": M.tolist()},
                                            expected=exact_deg, observed=deg))
                    if far:
                        continue        # the intersection itself is ill-conditioned far from the origin (errors of a per cent occur
                                        # on the unchanged library): numerics, not claimed; only the classification above is checked
                    try:
                        with np.errstate(all="ignore"):
                            if name == "/circles-under-a-projective-map":
                                oa, ob = as_circle(A), as_circle(B)
                                if not (same_class(np.asarray(oa.array).reshape(-1), A.reshape(-1), 1e-7) and same_class(np.asarray(ob.array).reshape(-1), B.reshape(-1), 1e-7)):
                                    raise MachineryError("the projective image of the unit circle is not the requested conic")
                                res = oa.intersect(ob)
                            else:
                                res = g.Conic(A).intersect(g.Conic(B))
                        got = [np.asarray(p.array, dtype=complex) for p in res]
                        bad = None
                        if len(got) > 4:
                            bad = {"more than four points": len(got)}
                        for x in got:
                            if bad:
                                break
                            if not np.all(np.isfinite(x)) or np.linalg.norm(x) == 0:
                                bad = {"not a point": str(x.tolist())}
                                break
                            for M in (A, B):
                                if abs(x @ M @ x) > (FAR_TOL if far else 1e-6) * np.linalg.norm(M) * np.linalg.norm(x) ** 2:
                                    bad = {"returned point not on both conics": str(x.tolist())}
                        if not bad:
                            miss = [e for e in exp if not any(same_class(x, e, tol) for x in got)]
                            if miss:
                                bad = {"common points missing": [str(m.tolist()) for m in miss], "returned": [str(x.tolist()) for x in got]}
                        if not bad and r["kind"] == "irrational" and len(got) < 2:
                            bad = {"returned": [str(x.tolist()) for x in got]}
                    except Exception as e:  # noqa: BLE001
                        bad = f"raised {type(e).__name__}: {e}"
                    if bad:
                        out.append(dict(site="Conic.intersect(Conic)" + name, stratum=st, case=case,
                                        expected=[str(e.tolist()) for e in exp], observed=bad))
            elif t == "irreducible":
                Q = g.Quadric(np.array(r["Q"]))
                case = {"Q": r["Q"]}
                if bool(Q.is_degenerate) != r["deg"]:
                    out.append(dict(site="Quadric.is_degenerate", stratum=st, case=case, expected=r["deg"], observed=bool(Q.is_degenerate)))
                if r["deg"]:
                    try:
                        comps = Q.components
                        out.append(dict(site="Quadric.components", stratum=st, case=case, expected="NotReducible",
                                        observed=[str(np.asarray(c.array).tolist()) for c in comps]))
                    except g.exceptions.NotReducible:
                        pass
                    except Exception as e:  # noqa: BLE001
                        out.append(dict(site="Quadric.components", stratum=st, case=case, expected="NotReducible", observed=f"raised {type(e).__name__}: {e}"))
        except Exception as e:  # noqa: BLE001
            out.append(dict(site=t, stratum=st, case={k: v for k, v in r.items() if k not in ("M",)}, expected="no exception",
                            observed=f"raised {type(e).__name__}: {e}"))
    return out


def replay_coll(recs):
    """QuadricCollection.components for stacked line pairs"""
    g = import_geometer()
    out = []
    try:
        qc = g.QuadricCollection(np.array([r["r"]["M"] for r in recs]), normalize_matrix=True)
        comps = qc.components
        a, b = np.asarray(comps[0].array), np.asarray(comps[1].array)
        # the same collection with two axes (2 x n/2)
        n2 = (len(recs) // 2) * 2
        if n2 >= 4:
            M2 = np.array([r["r"]["M"] for r in recs[:n2]])
            c2 = g.QuadricCollection(M2.reshape((2, n2 // 2) + M2.shape[1:]), normalize_matrix=True).components
            a2, b2 = np.asarray(c2[0].array), np.asarray(c2[1].array)
            if a2.shape[:2] != (2, n2 // 2):
                out.append(dict(site="QuadricCollection.components/two-axes", stratum="pair", case={"count": n2}, expected={"shape": [2, n2 // 2]}, observed={"shape": list(a2.shape)}))
            else:
                a2, b2 = a2.reshape((n2,) + a2.shape[2:]), b2.reshape((n2,) + b2.shape[2:])
                for i, r in enumerate(recs[:n2]):
                    e0, e1 = np.array(r["r"]["g"]), np.array(r["r"]["h"])
                    if not ((same_class(a2[i], e0) and same_class(b2[i], e1)) or (same_class(a2[i], e1) and same_class(b2[i], e0))):
                        out.append(dict(site="QuadricCollection.components/two-axes", stratum=r["s"], case={"g": r["r"]["g"], "h": r["r"]["h"], "position": [i // (n2 // 2), i % (n2 // 2)]},
                                        expected=[r["r"]["g"], r["r"]["h"]], observed=[str(a2[i].tolist()), str(b2[i].tolist())]))
                        break
        for i, r in enumerate(recs):
            e0, e1 = np.array(r["r"]["g"]), np.array(r["r"]["h"])
            ok = (same_class(a[i], e0) and same_class(b[i], e1)) or (same_class(a[i], e1) and same_class(b[i], e0))
            if not ok:
                out.append(dict(site="QuadricCollection.components", stratum=r["s"], case={"g": r["r"]["g"], "h": r["r"]["h"], "position": i},
                                expected=[r["r"]["g"], r["r"]["h"]], observed=[str(a[i].tolist()), str(b[i].tolist())]))
                break
    except Exception as e:  # noqa: BLE001
        out.append(dict(site="QuadricCollection.components", stratum="pair", case={"count": len(recs)}, expected="components",
                        observed=f"raised {type(e).__name__}: {e}"))
    return out


def replay_collmix(job):
    """QuadricCollection of 3-space: plane pairs alone (components position by position), and plane pairs with an irreducible
    degenerate quadric (cone, cylinder) or a non-degenerate one mixed in: the call must raise NotReducible, or at least not
    report a pair of planes whose product is not the quadric at that position."""
    g = import_geometer()
    pairs, odd = job
    out = []
    mats = [np.array(r["r"]["M"], dtype=float) for r in pairs]
    for name, extra in (("plane-pairs", []), ("irreducible-mixed-in", odd)):
        ms = list(mats)
        for k, q in enumerate(extra):
            ms.insert((2 + 3 * k) % (len(ms) + 1), np.array(q["r"]["Q"], dtype=float))
        site = f"QuadricCollection.components/3D/{name}"
        try:
            comps = g.QuadricCollection(np.array(ms)).components
        except g.exceptions.NotReducible:
            if extra:
                continue
            out.append(dict(site=site, stratum="pair", case={"count": len(ms)}, expected="components", observed="raised NotReducible"))
            continue
        except Exception as e:  # noqa: BLE001
            out.append(dict(site=site, stratum="pair", case={"count": len(ms)}, expected="components" if not extra else "NotReducible",
                            observed=f"raised {type(e).__name__}: {e}"))
            continue
        a, b = np.asarray(comps[0].array), np.asarray(comps[1].array)
        for i, M in enumerate(ms):
            prod = np.outer(a[i], b[i]) + np.outer(b[i], a[i])
            if not same_class(prod.reshape(-1), M.reshape(-1), 1e-6):
                out.append(dict(site=site, stratum=("pair" if not extra else "irreducible-degenerate"), case={"M": M.tolist(), "position": i},
                                expected=("the two planes whose product is the quadric" if not extra else "NotReducible (no pair of planes has this product)"),
                                observed=[str(a[i].tolist()), str(b[i].tolist())]))
                break
    return out


def _work(job):
    try:
        if job[0] == "collmix":
            return replay_collmix(job[1])
        return replay(job[1]) if job[0] == "single" else replay_coll(job[1])
    except Exception:  # noqa: BLE001
        import traceback

        return [dict(site="harness", stratum="machinery", case="", expected="", observed=traceback.format_exc())]


TIER = {"quick": dict(stride=3), "thorough": dict(stride=1)}
TASKS = ["lines", "planes", "pencil", "tangentpencil", "special", "irreducible"]


def run(ctx: Ctx):
    t = TIER[ctx.tier]
    cfg = cfg_text(constants={"Tasks": {S(x) for x in TASKS}, "Stride": t["stride"], "Seed": ctx.seed % 97, "DoDump": True},
                   invariants=INVS, constraints=["Dump"])
    r = ctx.tlc("C15_Degenerate", cfg, dump=True)
    recs = list(read_dump(r["dump"]))
    strata = {}
    for x in recs:
        strata[(x["r"]["t"], x["s"])] = strata.get((x["r"]["t"], x["s"]), 0) + 1
    for need in [("lines", "pair"), ("lines", "pair/zero-coordinate"), ("lines", "double"), ("planes", "pair"), ("planes", "pair/zero-coordinate"),
                 ("conics", "pencil-simple"), ("conics", "pencil-double-root"), ("conics", "pencil-second-degenerate"), ("conics", "special"),
                 ("irreducible", "irreducible-degenerate")]:
        if not strata.get(need):
            raise MachineryError(f"stratum {need} never visited (vacuous)")
    ctx.log(f"{len(recs)} cases")
    jobs = [("single", recs[i:i + 200]) for i in range(0, len(recs), 200)]
    lp = [x for x in recs if x["r"]["t"] == "lines" and not x["r"]["same"]]
    jobs += [("coll", lp[i:i + 100]) for i in range(0, len(lp), 100)]
    pp = [x for x in recs if x["r"]["t"] == "planes" and not x["r"]["same"]]
    irr = [x for x in recs if x["r"]["t"] == "irreducible" and len(x["r"]["Q"]) == 4]
    if len(pp) < 20 or not any(x["r"]["deg"] for x in irr) or not any(not x["r"]["deg"] for x in irr):
        raise MachineryError("no plane pairs / no irreducible degenerate and non-degenerate quadrics of 3-space to mix (vacuous)")
    for j, i in enumerate(range(0, len(pp), 6)):
        jobs.append(("collmix", (pp[i:i + 6], [irr[j % len(irr)]] + ([irr[(j * 7 + 3) % len(irr)]] if j % 3 == 0 else []))))
    with Pool(16) as pool:
        results = pool.map(_work, jobs, chunksize=1)
    for res in results:
        for m in res:
            if m["stratum"] == "machinery":
                raise MachineryError(m["observed"])
            ctx.mismatch(m["site"], m["stratum"], m["case"], m["expected"], m["observed"])
    for x in recs:
        ctx.count(x["s"])
        if x["s"] not in ("pair", "pencil-simple", "non-degenerate"):
            ctx.nontrivial(str(x["r"]))
    ctx.cov["traces_validated_against_impl"] += len(recs)
    ctx.sample({k: v for k, v in recs[0]["r"].items()})
    ctx.sample({k: v for k, v in recs[-1]["r"].items()})
