"""C19: tensor arithmetic and index bookkeeping against C19_Index.tla / C19_Arith.tla."""
from __future__ import annotations

from fractions import Fraction
from multiprocessing import Pool

import numpy as np

from ..abstraction import same_class
from ..core import Ctx, MachineryError, S, cfg_text, import_geometer, read_dump

RULE = ("cases = every index expression of length <= MaxLen over {int, full slice, length-1 slice, None, Ellipsis, 1-D/2-D integer "
        "array, 1-D/2-D boolean mask} x every tensor of rank <= MaxRank with every placement of collection/covariant/contravariant "
        "axes (the spec's numpy model is itself compared with numpy's result shape on every case); operator x operand-kind table "
        "for tensors; affine point arithmetic incl. points at infinity and non-normalised representatives; transpose in "
        "permutation and cycle notation; non-trivial = advanced indexing (adjacent/separated/int+array/2-D mask), Ellipsis, point at "
        "infinity, cycle notation")
IDX_INVS = ["ProvInjective", "TypesFollowProvenance", "RankLaw"]
AR_INVS = ["TensorLaws", "PointLaws", "TransposeIsPerm", "TensorProductAxes", "ExpandKeepsTypes"]


def make_index(ix, sizes):
    """concrete numpy index tuple for the abstract items; arrays sized for the axes they meet"""
    idx = []
    ax = 0
    rank = len(sizes)
    consumed = sum({"n": 0, "e": 0, "b2": 2}.get(x, 1) for x in ix)
    for x in ix:
        if x == "i":
            idx.append(1)
            ax += 1
        elif x == "in":
            idx.append(np.int64(-1))
            ax += 1
        elif x == "s":
            idx.append(slice(None))
            ax += 1
        elif x == "s2":
            idx.append(slice(None, None, 2))
            ax += 1
        elif x == "sr":
            idx.append(slice(None, None, -1))
            ax += 1
        elif x == "a0":
            idx.append(np.array(1))
            ax += 1
        elif x == "s1":
            idx.append(slice(0, 1))
            ax += 1
        elif x == "n":
            idx.append(None)
        elif x == "e":
            idx.append(Ellipsis)
            ax += rank - consumed
        elif x == "a1":
            idx.append(np.array([1, 0]))
            ax += 1
        elif x == "a2":
            idx.append(np.array([[0, 1], [1, 1]]))
            ax += 1
        elif x == "b1":
            m = np.zeros(sizes[ax], dtype=bool)
            m[[0, -1]] = True
            idx.append(m)
            ax += 1
        elif x == "b2":
            m = np.zeros((sizes[ax], sizes[ax + 1]), dtype=bool)
            m[0, 1] = True
            m[-1, 0] = True
            idx.append(m)
            ax += 2
    return tuple(idx)


def replay_index(recs):
    import_geometer()
    from geometer.base import Tensor

    out = []
    for d in recs:
        sizes, types, ix, r, st = d["sizes"], d["types"], d["ix"], d["r"], d["s"]
        arr = np.arange(int(np.prod(sizes))).reshape(sizes)
        nfree = sum(1 for t in types if t == "free")
        tens = types[nfree:]
        t = Tensor(arr, covariant=[k for k, x in enumerate(tens) if x == "cov"], tensor_rank=len(tens))
        index = make_index(ix, sizes)
        case = {"sizes": sizes, "types": types, "index": ix}
        want = arr[index if len(index) != 1 else index[0]]
        if list(np.shape(want)) != list(r["shape"]):
            # the specification's model of numpy is wrong: machinery failure, not a verdict about geometer
            raise MachineryError(f"spec shape {r['shape']} but numpy gives {np.shape(want)} for {case}")
        for name, key in (("tuple", index), ("bare", index[0] if len(index) == 1 else None)):
            if key is None and name == "bare":
                continue
            try:
                got = t[key]
            except Exception as e:  # noqa: BLE001
                out.append(dict(site=f"Tensor.__getitem__/{name}", stratum=st, case=case, expected=r, observed=f"raised {type(e).__name__}: {e}"))
                continue
            if np.ndim(want) == 0:
                # numpy gives a scalar for pure integer indices and a 0-d array e.g. for t[1, ...]; geometer may wrap the latter
                ok = (np.asarray(getattr(got, "array", got)) == want) and (isinstance(want, np.ndarray) or not isinstance(got, Tensor))
                obs = repr(got)
            else:
                ok = isinstance(got, Tensor) and np.array_equal(np.asarray(got.array), want)
                if ok:
                    cov = sorted(k for k, x in enumerate(r["types"]) if x == "cov")
                    con = sorted(k for k, x in enumerate(r["types"]) if x == "con")
                    ok = sorted(got._covariant_indices) == cov and sorted(got._contravariant_indices) == con
                obs = {"shape": list(np.shape(got.array)) if isinstance(got, Tensor) else None,
                       "covariant": sorted(getattr(got, "_covariant_indices", [])), "contravariant": sorted(getattr(got, "_contravariant_indices", []))}
            if not ok:
                out.append(dict(site=f"Tensor.__getitem__/{name}", stratum=st, case=case,
                                expected={"shape": r["shape"], "types": r["types"]}, observed=obs))
    return out


def frac_arr(val):
    return np.array([[float(Fraction(n, d)) for n, d in row] for row in val])


def replay_arith(recs):
    g = import_geometer()
    from geometer.base import Tensor

    out = []
    for d in recs:
        r, st = d["r"], d["s"]
        t = r["t"]
        if t == "tens":
            ty = r["ty"]
            cov = [k for k, x in enumerate(ty) if x == "cov"]
            A = Tensor(np.array(r["M"]), covariant=cov)
            kind, op = r["kind"], r["op"]
            if kind in ("tensor",):
                X = Tensor(np.array(r["X"]), covariant=cov)
            elif kind == "ndarray":
                X = np.array(r["X"])
            elif kind == "row":
                X = np.array(r["X"][0])
            elif kind == "pyscalar":
                X = r["X"][0] if r["X"][1] == 1 else r["X"][0] / r["X"][1]
            elif kind == "npscalar":
                X = np.int64(r["X"][0]) if r["X"][1] == 1 else np.float64(r["X"][0] / r["X"][1])
            else:
                X = None
            exp = frac_arr(r["val"])
            forms = []
            if op == "add":
                forms = [("t+x", lambda: A + X), ("np.add(t,x)", lambda: np.add(A, X))]
            elif op == "radd":
                forms = [("x+t", lambda: X + A)] + ([("np.add(x,t)", lambda: np.add(X, A))] if not isinstance(X, Tensor) else [])
            elif op == "sub":
                forms = [("t-x", lambda: A - X), ("np.subtract(t,x)", lambda: np.subtract(A, X))]
            elif op == "rsub":
                forms = [("x-t", lambda: X - A)] + ([("np.subtract(x,t)", lambda: np.subtract(X, A))] if not isinstance(X, Tensor) else [])
            elif op == "mul":
                forms = [("t*c", lambda: A * X), ("np.multiply(t,c)", lambda: np.multiply(A, X))]
            elif op == "rmul":
                forms = [("c*t", lambda: X * A)]
            elif op == "div":
                forms = [("t/c", lambda: A / X), ("np.divide(t,c)", lambda: np.divide(A, X))]
            elif op == "neg":
                forms = [("-t", lambda: -A), ("np.negative(t)", lambda: np.negative(A))]
            for name, fn in forms:
                case = {"M": r["M"], "types": ty, "operand": kind, "X": r["X"]}
                try:
                    got = fn()
                    ok = isinstance(got, Tensor) and np.allclose(np.asarray(got.array, dtype=float), exp, atol=1e-12) and \
                        sorted(got._covariant_indices) == cov and sorted(got._contravariant_indices) == [k for k in range(2) if k not in cov]
                    obs = {"array": np.asarray(getattr(got, "array", got)).tolist(), "covariant": sorted(getattr(got, "_covariant_indices", []))}
                except Exception as e:  # noqa: BLE001
                    ok, obs = False, f"raised {type(e).__name__}: {e}"
                if not ok:
                    out.append(dict(site=f"Tensor {name}", stratum=st, case=case, expected={"array": exp.tolist(), "types": ty}, observed=obs))
        elif t == "pts":
            p = g.Point(np.array(r["p"]))
            op = r["op"]
            k = r["k"][0] / r["k"][1] if r["k"][1] != 1 else r["k"][0]
            if op in ("add", "sub"):
                q = g.Point(np.array(r["q"]))
                forms = [("p+q", lambda: p + q), ("np.add(p,q)", lambda: np.add(p, q))] if op == "add" else \
                    [("p-q", lambda: p - q), ("np.subtract(p,q)", lambda: np.subtract(p, q))]
                # collections
                pc, qc = g.PointCollection(np.array([r["p"], r["p"]])), g.PointCollection(np.array([r["q"], r["q"]]))
                forms.append(("collection", (lambda: (pc + qc)[1]) if op == "add" else (lambda: (pc - qc)[1])))
            elif op == "mul":
                forms = [("p*k", lambda: p * k)]
            elif op == "rmul":
                forms = [("k*p", lambda: k * p)]
            elif op == "div":
                forms = [("p/k", lambda: p / k)]
            else:
                forms = [("-p", lambda: -p), ("np.negative(p)", lambda: np.negative(p))]
            for name, fn in forms:
                case = {"p": r["p"], "q": r["q"], "k": r["k"]}
                try:
                    got = fn()
                    arr = np.asarray(got.array)
                    ok = isinstance(got, g.point.PointTensor) and same_class(arr, r["val"]) and bool(np.all(got.isinf)) == (not r["finite"])
                    obs = arr.tolist()
                except Exception as e:  # noqa: BLE001
                    ok, obs = False, f"raised {type(e).__name__}: {e}"
                if not ok:
                    out.append(dict(site=f"Point {name}", stratum=st, case=case, expected={"class": r["val"], "finite": r["finite"]}, observed=obs))
            # the same operation on float64 representatives (no dtype conversion inside the library makes a protective copy),
            # then the elementwise arithmetic on the SAME operand: the affine operation must have left its operands as they were
            # (finite points are rescaled; a point at infinity acts as the vector it is written as, so it keeps its scale)
            pf = g.Point(np.array(r["p"], dtype=float) * (2.0 if r["p"][-1] != 0 else 1.0))
            qf = g.Point(np.array(r["q"], dtype=float) * (-3.0 if r["q"][-1] != 0 else 1.0)) if r["q"] else None
            kp, kq = np.array(pf.array, copy=True), (np.array(qf.array, copy=True) if qf is not None else None)
            try:
                with np.errstate(all="ignore"):
                    got = {"add": lambda: pf + qf, "sub": lambda: pf - qf, "mul": lambda: pf * k, "rmul": lambda: k * pf,
                           "div": lambda: pf / k}.get(op, lambda: -pf)()
                    after = pf + np.ones(len(r["p"]))
                ok = same_class(np.asarray(got.array), r["val"]) and np.array_equal(np.asarray(pf.array), kp) and \
                    (qf is None or np.array_equal(np.asarray(qf.array), kq)) and np.array_equal(np.asarray(after.array), kp + 1)
                obs = {"result": np.asarray(got.array).tolist(), "p afterwards": np.asarray(pf.array).tolist(), "p + ones afterwards": np.asarray(after.array).tolist()}
            except Exception as e:  # noqa: BLE001
                ok, obs = False, f"raised {type(e).__name__}: {e}"
            if not ok:
                out.append(dict(site=f"Point {op}/float-representatives/operands-unchanged", stratum=st, case={"p": kp.tolist(), "q": None if kq is None else kq.tolist(), "k": r["k"]},
                                expected={"class": r["val"], "p unchanged": kp.tolist(), "p + ones": (kp + 1).tolist()}, observed=obs))
            # non-point operand: raw array arithmetic with the index types of p (plain tensor)
            if op in ("add", "sub"):
                arr = np.arange(1, len(r["p"]) + 1)
                for name, fn, exp in (("p+array", lambda: p + arr, np.array(r["p"]) + arr), ("p-array", lambda: p - arr, np.array(r["p"]) - arr)):
                    if (name == "p+array") != (op == "add"):
                        continue
                    try:
                        got = fn()
                        ok = np.array_equal(np.asarray(got.array), exp) and sorted(got._covariant_indices) == [0]
                        obs = np.asarray(got.array).tolist()
                    except Exception as e:  # noqa: BLE001
                        ok, obs = False, f"raised {type(e).__name__}: {e}"
                    if not ok:
                        out.append(dict(site=f"Point {name}", stratum="non-point-operand", case={"p": r["p"], "array": arr.tolist()}, expected=exp.tolist(), observed=obs))
        elif t == "expand":
            from geometer.base import TensorCollection
            ty, ax = r["ty"], r["ax"]
            sizes = [2, 3, 4][:len(ty)]
            arr = np.arange(int(np.prod(sizes))).reshape(sizes) + 1
            # a collection axis behind a tensor index arises by indexing a tensor axis with a list: build the collection with
            # leading collection axes and turn the other ones into collection axes that way (one index operation per axis)
            lead = 0
            while ty[lead] == "free":
                lead += 1
            base_ty = [x if (x != "free" or k < lead) else "cov" for k, x in enumerate(ty)]
            u = TensorCollection(arr, covariant=[k - lead for k, x in enumerate(base_ty) if x == "cov"], tensor_rank=len(ty) - lead)
            for k, x in enumerate(ty):
                if x == "free" and k >= lead:
                    u = u[(slice(None),) * k + (list(range(sizes[k])),)]
            case = {"types": ty, "axis": ax}
            have = ["cov" if k in u._covariant_indices else "con" if k in u._contravariant_indices else "free" for k in range(len(ty))]
            if have != ty or not np.array_equal(np.asarray(u.array), arr) or not isinstance(u, TensorCollection):
                out.append(dict(site="TensorCollection.__getitem__/list-index-on-tensor-axis", stratum=st, case=case, expected={"types": ty}, observed={"types": have, "class": type(u).__name__}))
                continue
            try:
                got = u.expand_dims(ax)
                cov = sorted(k for k, x in enumerate(r["rty"]) if x == "cov")
                con = sorted(k for k, x in enumerate(r["rty"]) if x == "con")
                ok = r["ok"] and np.array_equal(np.asarray(got.array), np.expand_dims(arr, ax)) and sorted(got._covariant_indices) == cov \
                    and sorted(got._contravariant_indices) == con
                obs = {"shape": list(got.shape), "covariant": sorted(got._covariant_indices), "contravariant": sorted(got._contravariant_indices)}
            except ValueError as e:
                ok, obs = (not r["ok"]), f"raised ValueError: {e}"
            except Exception as e:  # noqa: BLE001
                ok, obs = False, f"raised {type(e).__name__}: {e}"
            if not ok:
                out.append(dict(site="TensorCollection.expand_dims", stratum=st, case=case,
                                expected=({"types": r["rty"]} if r["ok"] else "ValueError (beyond the collection axes)"), observed=obs))
        elif t == "tprod":
            ty1, ty2, src = r["ty1"], r["ty2"], r["src"]
            a1 = (np.arange(int(np.prod([2, 3, 4][:len(ty1)]))) + 2).reshape([2, 3, 4][:len(ty1)])
            a2 = (np.arange(int(np.prod([5, 2][:len(ty2)]))) * 3 - 7).reshape([5, 2][:len(ty2)])
            A = Tensor(a1, covariant=[k for k, x in enumerate(ty1) if x == "cov"])
            B = Tensor(a2, covariant=[k for k, x in enumerate(ty2) if x == "cov"])
            want = np.transpose(np.tensordot(a1, a2, 0), [(s_[1] - 1) + (0 if s_[0] == 1 else len(ty1)) for s_ in src])
            case = {"first": ty1, "second": ty2}
            try:
                got = A.tensor_product(B)
                cov = sorted(k for k, x in enumerate(r["rty"]) if x == "cov")
                con = sorted(k for k, x in enumerate(r["rty"]) if x == "con")
                ok = (np.asarray(got.array).shape == want.shape and np.array_equal(np.asarray(got.array), want)
                      and sorted(got._covariant_indices) == cov and sorted(got._contravariant_indices) == con)
                # the law that gives the index types their meaning: contracting a covariant index of the product with a vector
                # is the product of the contracted factor with the other factor
                if ok and "cov" in ty1:
                    k1 = ty1.index("cov")
                    v = np.arange(1, a1.shape[k1] + 1)
                    lhs = np.tensordot(np.asarray(got.array), v, ([cov[0]], [0]))
                    A1 = np.tensordot(a1, v, ([k1], [0]))
                    ty1b = [x for k, x in enumerate(ty1) if k != k1]
                    rhs = np.asarray(Tensor(A1, covariant=[k for k, x in enumerate(ty1b) if x == "cov"]).tensor_product(B).array) if ty1b else None
                    if rhs is not None and not (lhs.shape == rhs.shape and np.array_equal(lhs, rhs)):
                        ok = False
                obs = {"shape": list(got.shape), "covariant": sorted(got._covariant_indices), "contravariant": sorted(got._contravariant_indices),
                       "equal_as_arrays": bool(np.asarray(got.array).shape == want.shape and np.array_equal(np.asarray(got.array), want))}
            except Exception as e:  # noqa: BLE001
                ok, obs = False, f"raised {type(e).__name__}: {e}"
            if not ok:
                out.append(dict(site="Tensor.tensor_product", stratum=st, case=case, expected={"axes": src, "types": r["rty"]}, observed=obs))
        elif t == "transpose":
            rank, nfree, ty = r["rank"], r["nfree"], r["ty"]
            sizes = [2, 3, 4, 5][:rank]
            arr = np.arange(int(np.prod(sizes))).reshape(sizes)
            tens = ty[nfree:]
            T = Tensor(arr, covariant=[k for k, x in enumerate(tens) if x == "cov"], tensor_rank=len(tens))
            perm0 = [x - 1 for x in r["perm"]]
            arg = [x - 1 for x in r["cyc"]] if r["cyc"] else perm0
            case = {"types": ty, "perm": arg, "cycle_notation": bool(r["cyc"])}
            try:
                got = T.transpose(arg)
                cov = sorted(k for k, x in enumerate(r["rty"]) if x == "cov")
                con = sorted(k for k, x in enumerate(r["rty"]) if x == "con")
                ok = np.array_equal(np.asarray(got.array), arr.transpose(perm0)) and sorted(got._covariant_indices) == cov and sorted(got._contravariant_indices) == con
                obs = {"shape": list(got.shape), "covariant": sorted(got._covariant_indices), "contravariant": sorted(got._contravariant_indices)}
            except Exception as e:  # noqa: BLE001
                ok, obs = False, f"raised {type(e).__name__}: {e}"
            if not ok:
                out.append(dict(site="Tensor.transpose", stratum=st, case=case, expected={"types": r["rty"]}, observed=obs))
    return out


def replay_misc(_):
    """expand_dims / copy / T / quadric and subspace arithmetic with non-point operands"""
    g = import_geometer()
    from geometer.base import Tensor

    out = []

    def chk(site, st, exp, fn, ok):
        try:
            val = fn()
            good = bool(ok(val))
            obs = np.asarray(getattr(val, "array", val)).tolist()
        except Exception as e:  # noqa: BLE001
            good, obs = False, f"raised {type(e).__name__}: {e}"
        if not good:
            out.append(dict(site=site, stratum=st, case={}, expected=exp, observed=obs))

    pc = g.PointCollection(np.arange(24).reshape(2, 4, 3) + 1)
    for axis in (0, 1, 2, -4, -3):
        try:
            e = pc.expand_dims(axis)
            want = np.expand_dims(pc.array, axis)
            ok = np.array_equal(e.array, want) and sorted(e._covariant_indices) == [3] and type(e) is type(pc)
        except ValueError:
            ok = axis in ()          # axes beyond the collection axes are rejected by design
        except Exception:  # noqa: BLE001
            ok = False
        if not ok:
            out.append(dict(site="TensorCollection.expand_dims", stratum="expand_dims", case={"axis": axis}, expected="a new collection axis", observed="mismatch"))
    # a python bool used as an index is a 0-d mask: numpy inserts an axis of length 1 (True) or 0 (False) in front; the other
    # axes keep their types, the new one is a collection axis (for a bare index and inside a tuple)
    for arr_, cov_ in ((np.arange(6).reshape(2, 3), [0]), (np.arange(24).reshape(2, 3, 4), [1]), (np.arange(3), [0])):
        tb = Tensor(arr_, covariant=cov_)
        for key in (True, False, np.True_, (True,), (True, 1), (slice(None), True)):
            try:
                want = arr_[key]
            except Exception:  # noqa: BLE001
                continue
            def types_ok(v, want=want, key=key, tb=tb):
                if not isinstance(v, Tensor) or not np.array_equal(np.asarray(v.array), want) or np.asarray(v.array).shape != want.shape:
                    return False
                # positions of the surviving original axes in the result
                k = key if isinstance(key, tuple) else (key,)
                pos, out_ax, new_axes = 0, 0, []
                res_types = []
                used_bool = False
                for item in k:
                    if isinstance(item, (bool, np.bool_)):
                        if not used_bool:
                            res_types.append("free")
                            used_bool = True
                    elif isinstance(item, slice):
                        res_types.append("cov" if pos in tb._covariant_indices else "con" if pos in tb._contravariant_indices else "free")
                        pos += 1
                    else:
                        pos += 1        # an integer removes the axis
                for rest in range(pos, tb.rank):
                    res_types.append("cov" if rest in tb._covariant_indices else "con" if rest in tb._contravariant_indices else "free")
                if any(isinstance(i, (bool, np.bool_)) for i in k) and any(isinstance(i, (int, np.integer)) and not isinstance(i, (bool, np.bool_)) for i in k):
                    return True         # a mask next to an integer: the position of the broadcast axis follows numpy's rules for mixed advanced indices (C19_Index.tla covers those)
                cov = sorted(i for i, x in enumerate(res_types) if x == "cov")
                con = sorted(i for i, x in enumerate(res_types) if x == "con")
                return len(res_types) == want.ndim and sorted(v._covariant_indices) == cov and sorted(v._contravariant_indices) == con
            chk(f"Tensor.__getitem__/python-bool-index {key!r} on types {sorted(tb._covariant_indices)}/{sorted(tb._contravariant_indices)}", "basic",
                {"shape": list(np.shape(want))}, lambda tb=tb, key=key: tb[key], types_ok)
    t = Tensor(np.arange(8).reshape(2, 2, 2), covariant=[0, 2])
    chk("Tensor.copy", "copy", "same data and index types", lambda: t.copy(),
        lambda c: np.array_equal(c.array, t.array) and c._covariant_indices == t._covariant_indices and c._contravariant_indices == t._contravariant_indices and c is not t)
    chk("Tensor.T", "transpose/perm", "reversed axes and types", lambda: t.T,
        lambda c: np.array_equal(c.array, t.array.T) and sorted(c._covariant_indices) == [0, 2] and sorted(c._contravariant_indices) == [1])
    Q = g.Conic(np.diag([1, 2, -3]))
    arr = np.arange(9).reshape(3, 3)
    chk("Quadric + array", "non-point-operand", (Q.array + arr).tolist(), lambda: Q + arr, lambda v: np.array_equal(v.array, Q.array + arr))
    chk("Quadric - array", "non-point-operand", (Q.array - arr).tolist(), lambda: Q - arr, lambda v: np.array_equal(v.array, Q.array - arr))
    L = g.Line(1, 2, 3)
    a3 = np.array([1, 1, 1])
    chk("Line + array", "non-point-operand", (L.array + a3).tolist(), lambda: L + a3, lambda v: np.array_equal(v.array, L.array + a3))
    chk("Line - array", "non-point-operand", (L.array - a3).tolist(), lambda: L - a3, lambda v: np.array_equal(v.array, L.array - a3))
    seg = g.Segment(g.Point(0, 0), g.Point(1, 2))
    chk("Segment + point", "polytope", [[1, 1, 1], [2, 3, 1]], lambda: seg + g.Point(1, 1), lambda v: all(same_class(a, b) for a, b in zip(v.array, [[1, 1, 1], [2, 3, 1]])))
    chk("Segment - point", "polytope", [[-1, -1, 1], [0, 1, 1]], lambda: seg - g.Point(1, 1), lambda v: all(same_class(a, b) for a, b in zip(v.array, [[-1, -1, 1], [0, 1, 1]])))
    chk("Conic + point", "quadric", "translated by (1,1)", lambda: Q + g.Point(1, 1), lambda v: bool(v.contains(g.Point(1 + np.sqrt(3), 1))))
    chk("Conic - point", "quadric", "translated by (-1,-1)", lambda: Q - g.Point(1, 1), lambda v: bool(v.contains(g.Point(-1 + np.sqrt(3), -1))))
    chk("Line + point", "subspace", "translated", lambda: g.Line(1, 0, -1) + g.Point(2, 5), lambda v: same_class(v.array, [1, 0, -3]))
    chk("Line - point", "subspace", "translated", lambda: g.Line(1, 0, -1) - g.Point(2, 5), lambda v: same_class(v.array, [1, 0, 1]))
    return out


def _work(job):
    try:
        if job[0] == "idx":
            return replay_index(job[1])
        if job[0] == "ar":
            return replay_arith(job[1])
        return replay_misc(None)
    except MachineryError as e:
        return [dict(site="harness", stratum="machinery", case="", expected="", observed=str(e))]
    except Exception:  # noqa: BLE001
        import traceback

        return [dict(site="harness", stratum="machinery", case="", expected="", observed=traceback.format_exc())]


TIER = {"quick": dict(maxlen=3, maxrank=3), "thorough": dict(maxlen=4, maxrank=4)}


def run(ctx: Ctx):
    t = TIER[ctx.tier]
    cfg = cfg_text(constants={"MaxLen": t["maxlen"], "MaxRank": t["maxrank"], "DoDump": True}, invariants=IDX_INVS, constraints=["Dump"])
    r = ctx.tlc("C19_Index", cfg, dump=True)
    idx = list(read_dump(r["dump"]))
    if t["maxlen"] < 4:
        # index tuples of length 4 over a reduced item table (an integer / array / mask next to None, slices, Ellipsis)
        cfg4 = cfg_text(constants={"MaxLen": 4, "MaxRank": t["maxrank"], "DoDump": True}, invariants=IDX_INVS, constraints=["Dump"]) + "\nCONSTANT Items <- ItemsSmall\n"
        r4 = ctx.tlc("C19_Index", cfg4, name="C19_Index-len4", dump=True)
        idx += [x for x in read_dump(r4["dump"]) if len(x["ix"]) == 4]
    cfg2 = cfg_text(constants={"Tasks": {S("tens"), S("pts"), S("transpose"), S("tprod"), S("expand")}, "DoDump": True}, invariants=AR_INVS, constraints=["Dump"])
    r2 = ctx.tlc("C19_Arith", cfg2, dump=True)
    ar = list(read_dump(r2["dump"]))
    strata = {}
    for x in idx + ar:
        strata[x["s"]] = strata.get(x["s"], 0) + 1
    for need in ("basic", "basic/ellipsis", "adv-adjacent", "adv-separated", "int+array/adjacent", "int+array/separated", "bool-2d",
                 "tensor/tensor", "tensor/ndarray", "tensor/pyscalar", "point-at-infinity", "finite", "transpose/cycle", "transpose/perm",
                 "tensor_product/first-factor-contravariant-before-covariant", "tensor_product/second-factor-contravariant-before-covariant",
                 "tensor_product/covariant-first-factors", "expand_dims/rejected-position", "expand_dims/collection-axis-behind-tensor-index",
                 "expand_dims/leading-collection-axes"):
        if not strata.get(need):
            raise MachineryError(f"stratum {need} never visited (vacuous)")
    ctx.log(f"{len(idx)} index cases, {len(ar)} arithmetic cases")
    jobs = [("idx", idx[i:i + 500]) for i in range(0, len(idx), 500)] + [("ar", ar[i:i + 300]) for i in range(0, len(ar), 300)] + [("misc", None)]
    with Pool(16) as pool:
        results = pool.map(_work, jobs, chunksize=1)
    for res in results:
        for m in res:
            if m["stratum"] == "machinery":
                raise MachineryError(m["observed"])
            ctx.mismatch(m["site"], m["stratum"], m["case"], m["expected"], m["observed"])
    for x in idx + ar:
        ctx.count(x["s"])
        if x["s"] not in ("basic", "finite", "tensor/tensor", "transpose/perm"):
            ctx.nontrivial(str({k: v for k, v in x.items() if k != "s"}))
    ctx.cov["traces_validated_against_impl"] += len(idx) + len(ar)
    ctx.sample({k: idx[len(idx) // 2][k] for k in ("sizes", "types", "ix", "r")})
    ctx.sample(ar[0]["r"])
