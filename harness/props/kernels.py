"""C20: numeric kernels against the exact linear algebra of C20_Kernels.tla."""
from __future__ import annotations

import itertools
import random
from multiprocessing import Pool

import numpy as np

from ..core import Ctx, MachineryError, S, cfg_text, import_geometer, read_dump

RULE = ("cases = matrices/polynomials/vector pairs enumerated by TLC (all 2x2 in -2..2, all 3x3 in -1..1, seeded 4x4/5x5 "
        "incl. singular of every rank, all root multisets, all lattice vector pairs); non-trivial = singular matrix, "
        "multiple/complex roots, zero or proportional vectors; each matrix is evaluated on both sides of the batch-size "
        "thresholds, in int/float/complex dtype")
INVS = ["DetIsLeibniz", "AdjIsClassical", "CodeFormulas", "RankSound", "RootsAreRoots", "VietaOnChosenRoots",
        "DiscriminantOnChosenRoots", "DiscriminantSound", "IsMultLaws", "HatIsCross"]
TOL = 1e-6

BATCHES = [(1,), (2,), (63,), (64,), (65,), (200,), (8, 8), (3, 21), (2, 32), (2, 3)]
UDIAG = np.array([1j, 1, 1 + 1j, 2 - 1j, -1j])


def close(a, b, tol=TOL):
    a = np.asarray(a)
    b = np.asarray(b)
    if a.shape != b.shape:
        return False
    with np.errstate(all="ignore"):
        return bool(np.all(np.abs(a - b) <= tol * np.maximum(1.0, np.abs(b))))


def _mat_job(job):
    """job = (n, mats(list of dict), dtype, batch shape).  Whole batch through det/adjugate/inv."""
    n, mats, dtype, shape = job
    import_geometer()
    from geometer.utils import adjugate, det, inv

    out = []
    m = int(np.prod(shape))
    A = np.array([x["M"] for x in mats], dtype=np.int64)
    D = np.array([x["det"] for x in mats], dtype=np.int64)
    ADJ = np.array([x["adj"] for x in mats], dtype=np.int64)
    path = "batch>=64" if m >= 64 else "batch<64"
    for i in range(0, len(mats), m):
        a, d, adj = A[i:i + m], D[i:i + m], ADJ[i:i + m]
        if len(a) < m:   # wrap around so that every batch has exactly the advertised size
            idx = np.arange(i, i + m) % len(mats)
            a, d, adj = A[idx], D[idx], ADJ[idx]
        a = a.reshape(shape + (n, n))
        d = d.reshape(shape)
        adj = adj.reshape(shape + (n, n))
        if dtype == "int":
            x, ed, eadj = a, d, adj
        elif dtype == "float":
            x, ed, eadj = a.astype(float) * 0.5, d * 0.5 ** n, adj * 0.5 ** (n - 1)
        else:
            u = UDIAG[:n]
            du = np.prod(u)
            x = u[:, None] * a                      # U A
            ed = du * d
            eadj = adj * (du / u)[None, :]          # adj(A) adj(U)
        site_sfx = f"n={n}/{path}/{dtype}"
        case = {"n": n, "batch_shape": list(shape), "dtype": dtype}
        # the same values in other memory layouts: matrices stored column-major (a transposed view of the transposed copy),
        # batch axes permuted (a view), a read-only array
        def layouts(arr):
            yield "", arr.copy()
            yield "/column-major-view", np.swapaxes(np.ascontiguousarray(np.swapaxes(arr, -1, -2)), -1, -2)
            if len(shape) >= 2:
                yield "/permuted-batch-axes-view", np.swapaxes(np.ascontiguousarray(np.swapaxes(arr, 0, 1)), 0, 1)
            ro = arr.copy()
            ro.setflags(write=False)
            yield "/read-only", ro
        for nm, fn, exp in (("det", det, ed), ("adjugate", adjugate, eadj)):
            for lay, xin in layouts(x):
                name = nm + lay
                try:
                    keep = np.array(xin, copy=True)
                    got = fn(xin)
                    if not np.array_equal(np.asarray(xin), keep):
                        out.append(dict(site=f"{name}/{site_sfx}", stratum=f"n={n}/{path}", case=case,
                                        expected="the argument is left unchanged", observed="the argument array was modified"))
                        continue
                except Exception as e:  # noqa: BLE001
                    out.append(dict(site=f"{name}/{site_sfx}", stratum=f"n={n}/{path}", case=case,
                                    expected="a result", observed=f"raised {type(e).__name__}: {e}"))
                    continue
                if np.shape(got) != np.shape(exp):
                    out.append(dict(site=f"{name}/{site_sfx}", stratum=f"n={n}/{path}", case=case,
                                    expected={"shape": list(np.shape(exp))}, observed={"shape": list(np.shape(got))}))
                    continue
                if not close(got, exp):
                    bad = np.argwhere(~(np.abs(np.asarray(got) - exp) <= TOL * np.maximum(1, np.abs(exp))))
                    j = tuple(bad[0][: len(shape)]) if len(bad) else (0,) * len(shape)
                    st = "singular" if (d[j] == 0) else f"n={n}/{path}"
                    out.append(dict(site=f"{name}/{site_sfx}", stratum=st,
                                    case={**case, "M": x[j].tolist() if dtype != "complex" else str(x[j].tolist())},
                                    expected=str(np.asarray(exp)[j].tolist()), observed=str(np.asarray(got)[j].tolist())))
        # inv on the non-singular part of the batch (same batch shape class: pad by repeating)
        ns = np.flatnonzero(d.reshape(-1) != 0)
        if len(ns):
            idx = ns[np.arange(m) % len(ns)]
            xi = x.reshape((m, n, n))[idx].reshape(shape + (n, n))
            ei = (eadj.reshape((m, n, n))[idx] / ed.reshape(-1)[idx][:, None, None]).reshape(shape + (n, n))
            try:
                got = inv(xi.copy())
                got_cm = inv(np.swapaxes(np.ascontiguousarray(np.swapaxes(xi, -1, -2)), -1, -2))      # column-major matrices
                if not close(got_cm, ei):
                    out.append(dict(site=f"inv/column-major-view/{site_sfx}", stratum=f"n={n}/{path}", case=case,
                                    expected="the inverses", observed=str(np.asarray(got_cm).reshape(-1, n, n)[0].tolist())))
                if not close(got, ei):
                    bad = np.argwhere(~(np.abs(np.asarray(got) - ei) <= TOL * np.maximum(1, np.abs(ei))))
                    j = tuple(bad[0][: len(shape)])
                    out.append(dict(site=f"inv/{site_sfx}", stratum=f"n={n}/{path}",
                                    case={**case, "M": str(xi[j].tolist())},
                                    expected=str(ei[j].tolist()), observed=str(np.asarray(got)[j].tolist())))
            except Exception as e:  # noqa: BLE001
                out.append(dict(site=f"inv/{site_sfx}", stratum=f"n={n}/{path}", case=case,
                                expected="the inverses", observed=f"raised {type(e).__name__}: {e}"))
    return out


def _space_job(job):
    """null_space / orth facts for matrices of one rank."""
    n, rank, mats = job
    import_geometer()
    from geometer.utils import null_space, orth

    out = []
    A = np.array([x["M"] for x in mats], dtype=float)
    case = {"n": n, "rank": rank, "count": len(mats)}
    for given in (False, True):
        for single in (False, True):
            xs = [a for a in A[:25]] if single else [A]
            for x in xs:
                lead = x.shape[:-2]
                # null space
                try:
                    if True:
                        # full rank included: the kernel is {0}, its basis has no columns (also with dim = 0 given)
                        N = null_space(x, (n - rank) if given else None)
                        if N is not None:
                            ok = N.shape == lead + (n, n - rank) and \
                                close(np.swapaxes(N.conj(), -1, -2) @ N, np.broadcast_to(np.eye(n - rank), lead + (n - rank, n - rank))) and \
                                np.max(np.abs(x @ N), initial=0) < 1e-8
                            if not ok:
                                out.append(dict(site=f"null_space/dim_given={given}", stratum=f"singular-rank{rank}",
                                                case={**case, "M": x.tolist() if single else "batch"},
                                                expected=f"orthonormal basis of the kernel, shape (.., {n}, {n - rank})",
                                                observed={"shape": list(N.shape)}))
                except Exception as e:  # noqa: BLE001
                    out.append(dict(site=f"null_space/dim_given={given}", stratum=f"singular-rank{rank}", case=case,
                                    expected="a basis", observed=f"raised {type(e).__name__}: {e}"))
                # tall and wide matrices cut out of the square one (rank taken from numpy on the exact small integers)
                if single and not given:
                    for name, y in (("tall", x[:, : n - 1]), ("wide", x[: n - 1, :])):
                        try:
                            rk = int(np.linalg.matrix_rank(y))
                            rows, cols = y.shape
                            N = null_space(y)
                            Q = orth(y) if rk > 0 else None
                            ok = N.shape == (cols, cols - rk) and close(N.conj().T @ N, np.eye(cols - rk)) and np.max(np.abs(y @ N), initial=0) < 1e-8
                            if ok and Q is not None:
                                ok = Q.shape == (rows, rk) and close(Q.conj().T @ Q, np.eye(rk)) and np.max(np.abs(Q @ Q.conj().T @ y - y), initial=0) < 1e-8
                            obs = {"null_space shape": list(N.shape), "orth shape": None if Q is None else list(Q.shape)}
                        except Exception as e:  # noqa: BLE001
                            ok, obs = False, f"raised {type(e).__name__}: {e}"
                        if not ok:
                            out.append(dict(site=f"null_space,orth/{name}", stratum=f"{name}-rank{rk}", case={**case, "M": y.tolist()},
                                            expected=f"bases of shapes ({cols}, {cols - rk}) and ({rows}, {rk})", observed=obs))
                if rank == 0:
                    continue
                try:
                    Q = orth(x, rank if given else None)
                    P = Q @ np.swapaxes(Q.conj(), -1, -2)
                    ok = Q.shape == lead + (n, rank) and \
                        close(np.swapaxes(Q.conj(), -1, -2) @ Q, np.broadcast_to(np.eye(rank), lead + (rank, rank))) and \
                        np.max(np.abs(P @ x - x), initial=0) < 1e-8
                    if not ok:
                        out.append(dict(site=f"orth/dim_given={given}", stratum=f"rank{rank}",
                                        case={**case, "M": x.tolist() if single else "batch"},
                                        expected=f"orthonormal basis of the range, shape (.., {n}, {rank})",
                                        observed={"shape": list(Q.shape)}))
                except Exception as e:  # noqa: BLE001
                    out.append(dict(site=f"orth/dim_given={given}", stratum=f"rank{rank}", case=case,
                                    expected="a basis", observed=f"raised {type(e).__name__}: {e}"))
    return out


def _match_roots(got, exp, tol):
    got = list(np.atleast_1d(np.asarray(got, dtype=complex)))
    exp = [complex(r[0], r[1]) for r in exp]
    if not all(np.isfinite(g) for g in got):
        return False
    if len(got) > len(exp) or len(got) == 0:
        return False
    return all(min(abs(g - e) for e in exp) <= tol for g in got) and \
        all(min(abs(g - e) for g in got) <= tol for e in exp)


def _vieta_ok(got, p, stratum):
    """the returned values are all the roots of p (coefficients, highest first): finite, as many as the degree (a triple root
    may be reported once), each with a small residual, and with the elementary symmetric functions Vieta's relations give"""
    q = list(p)
    while q and q[0] == 0:
        q = q[1:]
    deg = len(q) - 1
    got = [complex(x) for x in np.atleast_1d(np.asarray(got, dtype=complex))]
    if not got or not all(np.isfinite(x) for x in got):
        return "not finite"
    if len(got) != deg:
        if not (stratum == "poly/cubic-triple" and len(got) == 1):
            return f"{len(got)} values for degree {deg}"
        got = got * 3
    rep = stratum in ("poly/cubic-triple", "poly/cubic-double", "poly/quadratic-double")
    tol = 1e-4 if rep else 1e-7
    scale = max(1.0, max(abs(x) for x in got))
    for x in got:
        val = sum(c * x ** (deg - k) for k, c in enumerate(q))
        if abs(val) > tol * sum(abs(c) * scale ** (deg - k) for k, c in enumerate(q)):
            return f"{x} is not a root"
    es = [sum(got),
          sum(got[i] * got[j] for i in range(deg) for j in range(i + 1, deg)),
          got[0] * got[1] * got[2] if deg == 3 else 0]
    for k in range(1, deg + 1):
        want = (-1) ** k * q[k] / q[0]
        if abs(es[k - 1] - want) > tol * scale ** k * 4:
            return f"elementary symmetric function {k} is {es[k - 1]}, not {want}"
    return None


def _misc_job(job):
    kind, recs = job
    import_geometer()
    from geometer.utils import hat_matrix, is_multiple, matmul, matvec, outer, roots

    out = []
    if kind == "roots":
        for r in recs:
            p = r["p"]
            stratum = r["s"]
            tol = 1e-4 if stratum in ("roots/double", "roots/triple") else TOL
            variants = [("len=deg+1", p)]
            if len(p) < 4:
                variants.append(("leading-zeros", [0] * (4 - len(p)) + p))
            if len(p) == 2:
                variants.append(("one-leading-zero", [0] + p))
            variants.append(("float", [float(x) * 0.5 for x in p]))
            for vn, pv in variants:
                st = stratum + ("" if len(p) == 4 else f"/degree{len(p) - 1}")
                try:
                    got = roots(pv)
                except Exception as e:  # noqa: BLE001
                    out.append(dict(site=f"roots/{vn}", stratum=st, case={"p": pv}, expected={"roots": r["roots"]},
                                    observed=f"raised {type(e).__name__}: {e}"))
                    continue
                if not _match_roots(got, r["roots"], tol):
                    out.append(dict(site=f"roots/{vn}", stratum=st, case={"p": pv}, expected={"roots": r["roots"]},
                                    observed=str(np.asarray(got).tolist())))
    elif kind == "cubic":
        for r in recs:
            p = r["p"]
            st = r["s"]
            q = list(p)
            while q[0] == 0:
                q = q[1:]
            variants = [("leading-zeros", p), ("float", [x * 0.5 for x in p]), ("negated", [-x for x in p])]
            if len(q) < 4:
                variants.append(("len=deg+1", q))
            for vn, pv in variants:
                try:
                    with np.errstate(all="ignore"):
                        got = roots(pv)
                    why = _vieta_ok(got, pv, st)
                except Exception as e:  # noqa: BLE001
                    got, why = None, f"raised {type(e).__name__}: {e}"
                if why:
                    out.append(dict(site=f"roots/coefficient-box/{vn}", stratum=st, case={"p": pv},
                                    expected="all roots (Vieta: -b/a, c/a, -d/a)",
                                    observed=f"{why}; returned {None if got is None else np.asarray(got).tolist()}"))
    elif kind == "ismul":
        a = np.array([r["a"] for r in recs])
        b = np.array([r["b"] for r in recs])
        e = np.array([r["r"] for r in recs])
        checks = [
            ("axis=-1", lambda: is_multiple(a, b, axis=-1)),
            ("axis=1", lambda: is_multiple(a, b, axis=1)),
            ("axis=0/transposed", lambda: is_multiple(a.T, b.T, axis=0)),
            ("axis=(-1,)", lambda: is_multiple(a, b, axis=(-1,))),
            ("axis=(-2,-1)", lambda: is_multiple(a[:, None, :], b[:, None, :], axis=(-2, -1))),
            ("axis=(1,2)/3x1", lambda: is_multiple(a[:, :, None], b[:, :, None], axis=(1, 2))),
            # the compared axes not trailing: the vector axis split into leading axes of a 3-D / 4-D array whose other extents differ
            ("axis=(0,1)/leading", lambda: is_multiple(np.moveaxis(a, -1, 0)[:, None, :], np.moveaxis(b, -1, 0)[:, None, :], axis=(0, 1))),
            ("axis=(0,2)/split", lambda: is_multiple(np.moveaxis(a, -1, 0)[:, :, None], np.moveaxis(b, -1, 0)[:, :, None], axis=(0, 2))),
            ("axis=(0,1)/pairs", lambda: is_multiple(np.stack([np.moveaxis(a, -1, 0)] * 2, axis=1), np.stack([np.moveaxis(b, -1, 0)] * 2, axis=1), axis=(0, 1))),
            ("axis=(2,0)/order", lambda: is_multiple(np.stack([np.moveaxis(a, -1, 0)] * 2, axis=2), np.stack([np.moveaxis(b, -1, 0)] * 2, axis=2), axis=(2, 0))),
            ("float-scaled", lambda: is_multiple(a * 0.37, b * -1.5, axis=-1)),
            ("complex-scaled", lambda: is_multiple(a * (1 + 2j), b * 1j, axis=-1)),
        ]
        for name, fn in checks:
            try:
                got = np.asarray(fn())
            except Exception as ex:  # noqa: BLE001
                out.append(dict(site=f"is_multiple/{name}", stratum="ismul", case={"count": len(recs)},
                                expected="boolean array", observed=f"raised {type(ex).__name__}: {ex}"))
                continue
            if got.shape != e.shape or not np.array_equal(got, e):
                j = int(np.flatnonzero(got.reshape(-1) != e)[0]) if got.shape == e.shape else 0
                st = "ismul/zero" if (not any(recs[j]["a"]) or not any(recs[j]["b"])) else \
                    ("ismul/multiple" if recs[j]["r"] else "ismul/not")
                out.append(dict(site=f"is_multiple/{name}", stratum=st, case=recs[j], expected=bool(e[j]),
                                observed=bool(got.reshape(-1)[j]) if got.shape == e.shape else {"shape": list(got.shape)}))
        for r in recs[:400]:       # axis=None on single pairs
            for name, fn in (("axis=None", lambda: is_multiple(r["a"], r["b"])),
                             ("axis=None/2d", lambda: is_multiple(np.array([r["a"], r["a"]]), np.array([r["b"], r["b"]])))):
                exp = r["r"]
                try:
                    got = bool(fn())
                except Exception as ex:  # noqa: BLE001
                    got = f"raised {type(ex).__name__}"
                if got != exp:
                    st = "ismul/zero" if (not any(r["a"]) or not any(r["b"])) else ("ismul/multiple" if r["r"] else "ismul/not")
                    out.append(dict(site=f"is_multiple/{name}", stratum=st, case=r, expected=exp, observed=got))
    elif kind == "hat":
        for r in recs:
            x = r["x"]
            H = np.array(r["H"])
            for name, fn in (("array", lambda: hat_matrix(x)), ("scalars", lambda: hat_matrix(*x)),
                             ("batch", lambda: hat_matrix(np.array([x, x]))[1])):
                try:
                    got = fn()
                    ok = np.array_equal(got, H)
                except Exception as ex:  # noqa: BLE001
                    got, ok = f"raised {type(ex).__name__}: {ex}", False
                if not ok:
                    out.append(dict(site=f"hat_matrix/{name}", stratum="hat", case=r, expected=r["H"],
                                    observed=np.asarray(got).tolist() if not isinstance(got, str) else got))
    elif kind == "mm":
        for r in recs:
            A, B = np.array(r["A"]), np.array(r["B"])
            checks = [
                ("matmul/transpose_b", lambda: matmul(A, B, transpose_b=True), np.array(r["ABt"])),
                ("matmul/transpose_a", lambda: matmul(A, B, transpose_a=True), np.array(r["AtB"])),
                ("matmul/adjoint_b", lambda: matmul(A, B * 1j, adjoint_b=True), -1j * np.array(r["ABt"])),
                ("matmul/adjoint_a", lambda: matmul(A * 1j, B, adjoint_a=True), -1j * np.array(r["AtB"])),
                ("matmul/batch", lambda: matmul(np.stack([A, A]), np.stack([B, B]), transpose_b=True)[1], np.array(r["ABt"])),
                ("outer", lambda: outer(A[0], B[1]), np.array(r["outer"])),
                ("outer/batch", lambda: outer(A, B)[0], np.outer(A[0], B[0])),
                ("matvec", lambda: matvec(A, B[0]), np.array(r["mv"])),
                ("matvec/transpose_a", lambda: matvec(A.T, B[0], transpose_a=True), np.array(r["mv"])),
                ("matvec/adjoint_a", lambda: matvec(A.T * 1j, B[0], adjoint_a=True), -1j * np.array(r["mv"])),
            ]
            for name, fn, exp in checks:
                try:
                    got = fn()
                    ok = close(got, exp)
                except Exception as ex:  # noqa: BLE001
                    got, ok = f"raised {type(ex).__name__}: {ex}", False
                if not ok:
                    out.append(dict(site=name, stratum="mm", case={"A": r["A"], "B": r["B"]}, expected=str(exp.tolist()),
                                    observed=str(np.asarray(got).tolist()) if not isinstance(got, str) else got))
    return out


def _work(job):
    try:
        if job[0] == "mat":
            return _mat_job(job[1:])
        if job[0] == "space":
            return _space_job(job[1:])
        return _misc_job(job)
    except Exception:  # noqa: BLE001
        import traceback

        return [dict(site="harness", stratum="machinery", case=str(job)[:200], expected="", observed=traceback.format_exc())]


# ---------------------------------------------------------------------------------------------
def record_events(seed, n_events):
    """code -> spec: random integer matrices with larger entries, on both sides of the thresholds."""
    import_geometer()
    from geometer.utils import adjugate, det, inv

    r = np.random.default_rng(seed)
    events = []
    while len(events) < n_events:
        n = int(r.integers(2, 6))
        b = int(r.choice([1, 3, 63, 64, 65, 70]))
        hi = {2: 9, 3: 9, 4: 6, 5: 4}[n]
        A = r.integers(-hi, hi + 1, size=(b, n, n))
        if r.random() < 0.3:       # singular members
            A[:, -1] = A[:, 0] * int(r.integers(-2, 3)) + (A[:, 1] if r.random() < 0.5 else 0)
        dtype = r.choice(["int", "float"])
        x = A if dtype == "int" else A.astype(float)
        try:
            d = np.asarray(det(x.copy()))
            a = np.asarray(adjugate(x.copy()))
        except Exception as e:  # noqa: BLE001
            events.append({"n": n, "M": A[0].tolist(), "det": 0, "adj": [[0] * n] * n, "err": type(e).__name__,
                           "path": "large" if b >= 64 else "small"})
            continue
        for j in r.choice(b, size=min(b, 4), replace=False):
            dj, aj = d[j], a[j]
            ok = abs(dj - round(float(dj))) < 1e-6 * max(1, abs(dj)) and np.all(np.abs(aj - np.round(aj)) < 1e-6 * np.maximum(1, np.abs(aj)))
            ev = {"n": n, "M": A[j].tolist(), "det": int(round(float(dj))) if ok else 123456789,
                  "adj": np.round(aj).astype(int).tolist(), "err": "none" if ok else "IRRATIONAL",
                  "path": "large" if b >= 64 else "small"}
            events.append(ev)
    return events[:n_events]


def validate_trace(ctx: Ctx, events, name):
    from ..record import write_ndjson

    path = ctx.work / f"{name}.ndjson"
    write_ndjson(path, events)
    cfg = cfg_text(spec="TraceSpec", constants={"Tasks": {S("m2")}, "NRand4": 1, "NRand5": 1, "DoDump": False},
                   invariants=["DetIsLeibniz", "AdjIsClassical", "RankSound"], constraints=["Report"],
                   postcondition="TraceAccepted")
    r = ctx.tlc("Trace_C20", cfg, name=name, workers=1, dump=True, env={"TRACE_FILE": str(path)})
    reports = list(read_dump(r["dump"]))
    if not reports or reports[-1]["consumed"] != len(events):
        raise MachineryError("trace validation did not consume the whole trace")
    return reports[-1]["bad"]


TIER = {"quick": dict(tasks=["m2", "m3", "m4", "m5", "roots", "cubic", "ismul", "hat", "mm"], n4=400, n5=120, nev=3000),
        "thorough": dict(tasks=["m2", "m3", "m4", "m5", "roots", "cubic", "ismul", "hat", "mm"], n4=6000, n5=1500, nev=30000)}


def run(ctx: Ctx):
    t = TIER[ctx.tier]
    cfg = cfg_text(constants={"Tasks": {S(x) for x in t["tasks"]}, "NRand4": t["n4"], "NRand5": t["n5"], "DoDump": True},
                   invariants=INVS, constraints=["Dump"])
    r = ctx.tlc("C20_Kernels", cfg, dump=True, timeout=3000, extra_args=[])
    recs: dict[str, list] = {}
    for d in read_dump(r["dump"]):
        x = d["r"]
        x["_s"] = d["s"]
        recs.setdefault(x["t"], []).append(x)
    for k in ("mat", "roots", "cubic", "ismul", "hat", "mm"):
        if not recs.get(k):
            raise MachineryError(f"no {k} case dumped (vacuous)")
    rng = random.Random(ctx.seed)
    jobs = []
    mats = recs["mat"]
    byn: dict[int, list] = {}
    for m in mats:
        byn.setdefault(m["n"], []).append(m)
    for n, ms in sorted(byn.items()):
        ms.sort(key=lambda m: str(m["M"]))
        rng.shuffle(ms)
        for dtype in ("int", "float", "complex"):
            for bi, shape in enumerate(BATCHES):
                # every matrix goes through a small-batch and a large-batch shape; the other shapes get a slice
                m = int(np.prod(shape))
                if shape in ((63,), (64,)):
                    sel = ms
                else:
                    k = max(m * 3, len(ms) // 6)
                    off = (bi * 7919) % max(1, len(ms))
                    sel = (ms[off:] + ms[:off])[:k]
                for i in range(0, len(sel), 4096):
                    jobs.append(("mat", n, sel[i:i + 4096], dtype, shape))
        byrank: dict[int, list] = {}
        for m in ms:
            byrank.setdefault(m["rank"], []).append(m)
        for rank, xs in byrank.items():
            jobs.append(("space", n, rank, xs[:300]))
    for need in ("poly/linear", "poly/quadratic-complex", "poly/quadratic-double", "poly/quadratic-real", "poly/cubic-triple",
                 "poly/cubic-three-real", "poly/cubic-double", "poly/cubic-pure-positive", "poly/cubic-pure-negative",
                 "poly/cubic-one-real"):
        if not any(x["_s"] == need for x in recs["cubic"]):
            raise MachineryError(f"stratum {need} never visited (vacuous)")
    for k in ("roots", "cubic", "ismul", "hat", "mm"):
        xs = recs[k]
        for i in range(0, len(xs), 1500):
            jobs.append((k, xs[i:i + 1500]))
    ctx.log(f"{sum(len(v) for v in recs.values())} cases, {len(jobs)} replay jobs")
    with Pool(16) as pool:
        results = pool.map(_work, jobs, chunksize=1)
    for job, res in zip(jobs, results):
        for m in res:
            if m["stratum"] == "machinery":
                raise MachineryError(m["observed"])
            ctx.mismatch(m["site"], m["stratum"], m["case"], m["expected"], m["observed"])
    nrep = 0
    for k, xs in recs.items():
        for x in xs:
            ctx.count(x["_s"])
            if x["_s"].startswith("singular") or x["_s"] in ("roots/double", "roots/triple", "roots/complex-pair", "poly/cubic-triple", "poly/cubic-double",
                                                            "poly/cubic-pure-positive", "poly/cubic-pure-negative", "poly/quadratic-double",
                                                            "ismul/zero", "ismul/multiple"):
                ctx.nontrivial(str(x.get("M") or x.get("p") or (x.get("a"), x.get("b"))))
        nrep += len(xs)
    for job in jobs:
        if job[0] == "mat":
            nrep += len(job[2])
    ctx.cov["traces_validated_against_impl"] += nrep
    if ctx.tier == "thorough":      # A adj(A) = det(A) I: for all integer 3 x 3 matrices
        ctx.lift_lemmas([("L_Adjugate", "AdjugateLaw", True), ("L_Adjugate", "Falsified", False)])
    ctx.sample({k: v for k, v in recs["mat"][0].items()})
    ctx.sample(recs["roots"][0])
    ctx.sample(recs["ismul"][0])
    # ---- code -> spec
    for part in range(0, t["nev"], 3000):
        events = record_events(ctx.seed * 7919 + part, min(3000, t["nev"] - part))
        bad = validate_trace(ctx, events, f"trace{part}")
        ctx.cov["traces_validated_against_impl"] += len(events)
        ctx.cov["evaluations"] += len(events)
        for l, why in bad:
            e = events[l - 1]
            ctx.mismatch(f"{why.split(':')[0]}/trace", f"n={e['n']}/batch{'>=64' if e['path'] == 'large' else '<64'}",
                         e, "a Finish step of C20_Kernels with the logged det/adj", why)
        ctx.sample({"recorded_event": events[0]})
