"""C08: transformation constructors against C08_Constructors.tla."""
from __future__ import annotations

import math
from multiprocessing import Pool

import numpy as np

from ..abstraction import same_class
from ..core import Ctx, MachineryError, S, cfg_text, import_geometer, read_dump
from ..geom import build
from .transform import build_any, compare_any

RULE = ("cases = constructor arguments enumerated by TLC: lattice offsets, Pythagorean angles (+2 pi k), rotation axes in all "
        "octants (sign patterns and permutations of rational-length vectors), scale vectors with negative entries, every lattice "
        "mirror line/plane, projective frames in general position; non-trivial = oblique axis, mirror off the origin, frame")
INVS = ["TranslationAdds", "Rotation2Def", "Rotation3Def", "Rotation3Additive", "ReflectionDef", "FromPointsDef", "ConicsDef"]


def mclass(t, M):
    return same_class(np.asarray(t.array).reshape(-1), np.array(M).reshape(-1))


def images_ok(t, img, g):
    for p, q in img:
        r = t * g.Point(np.array(p))
        if not same_class(r.array, q):
            return {"point": p, "image": np.asarray(r.array).tolist(), "expected": q}
    return None


def replay(recs):
    g = import_geometer()
    out = []
    hands = []
    for d in recs:
        r, stratum = d["r"], d["s"]
        t = r["t"]
        try:
            if t == "translation":
                v = r["v"]
                forms = [("scalars", lambda: g.translation(*v)), ("point", lambda: g.translation(g.Point(*v))),
                         ("scaled-representative", lambda: g.translation(g.Point(np.array([3 * x for x in v] + [3])))),
                         ("negative-representative", lambda: g.translation(g.Point(np.array([-2.0 * x for x in v] + [-2.0]))))]
                if any(v):      # a point at infinity given as the offset acts as the direction vector (as in point + direction)
                    forms.append(("direction", lambda: g.translation(g.Point(np.array(list(v) + [0])))))
                for name, fn in forms:
                    tr = fn()
                    bad = None if mclass(tr, r["M"]) else {"matrix": np.asarray(tr.array).tolist()}
                    bad = bad or images_ok(tr, r["img"], g)
                    if bad:
                        out.append(dict(site=f"translation/{r['d']}D/{name}", stratum=stratum, case={"v": v}, expected=r["M"], observed=bad))
                # affine_transform with the same offset and a diagonal matrix
                f = [2, -1, 3][: r["d"]]
                at = g.affine_transform(np.diag(f), v)
                E = np.eye(r["d"] + 1)
                E[:-1, :-1] = np.diag(f)
                E[:-1, -1] = v
                if not same_class(np.asarray(at.array).reshape(-1), E.reshape(-1)):
                    out.append(dict(site=f"affine_transform/{r['d']}D", stratum=stratum, case={"matrix": f, "offset": v},
                                    expected=E.tolist(), observed=np.asarray(at.array).tolist()))
            elif t == "rotation2":
                c, s, h = r["a"]
                ang = math.atan2(s, c) + 2 * math.pi * r["k"]
                tr = g.rotation(ang)
                bad = None if mclass(tr, r["M"]) else {"matrix": np.asarray(tr.array).tolist()}
                bad = bad or images_ok(tr, r["img"], g)
                if bad:
                    out.append(dict(site="rotation/2D", stratum=stratum, case={"angle": [c, s, h], "k": r["k"]}, expected=r["M"], observed=bad))
            elif t == "rotation3":
                c, s, h = r["a"]
                ang = math.atan2(s, c)
                # the same direction given by a long vector stored in a narrow integer type (its squared length does not fit)
                long_axes = [(f"axis-long-{np.dtype(dt).name}", g.Point(np.array([k * x for x in r["u"]] + [1], dtype=dt)))
                             for dt, k in ((np.int16, 120), (np.int32, 30000), (np.int64, 2_000_000_000), (np.uint16, 200))
                             if not (np.issubdtype(dt, np.unsignedinteger) and min(r["u"]) < 0)]
                float_axes = [("axis-float", g.Point(np.array([float(x) for x in r["u"]] + [1.0]))), ("axis-float-scaled", g.Point(np.array([2.5 * x for x in r["u"]] + [2.5])))]
                for name, axis in [("axis", g.Point(*r["u"])), ("axis-scaled", g.Point(np.array([2 * x for x in r["u"]] + [2])))] + long_axes + float_axes:
                    keep = np.array(axis.array, copy=True)
                    tr = g.rotation(ang, axis=axis)
                    if not np.array_equal(np.asarray(axis.array), keep):
                        out.append(dict(site=f"rotation/3D/{name}/argument-unchanged", stratum=stratum, case={"angle": [c, s, h], "axis": r["u"]},
                                        expected=keep.tolist(), observed=np.asarray(axis.array).tolist()))
                    mp, mm = mclass(tr, r["Mp"]), mclass(tr, r["Mm"])
                    if not (mp or mm):
                        out.append(dict(site=f"rotation/3D/{name}", stratum=stratum, case={"angle": [c, s, h], "axis": r["u"]},
                                        expected={"either": [r["Mp"], r["Mm"]]}, observed=np.asarray(tr.array).tolist()))
                    elif s != 0:
                        hands.append(1 if mp else -1)
            elif t == "scaling":
                tr = g.scaling(*r["f"])
                if not mclass(tr, r["M"]):
                    out.append(dict(site=f"scaling/{r['d']}D", stratum=stratum, case={"f": r["f"]}, expected=r["M"],
                                    observed=np.asarray(tr.array).tolist()))
            elif t == "reflection":
                hv = r["h"]
                for name, mult in (("", 1), ("/scaled-representative", -2), ("/float-representative", 1.0), ("/complex-representative", 0.5 + 0j)):
                    hobj = g.Line(np.array(hv) * mult) if r["d"] == 2 else g.Plane(np.array(hv) * mult)
                    keep = np.array(hobj.array, copy=True)
                    tr = g.reflection(hobj)
                    bad = None if mclass(tr, r["M"]) else {"matrix": np.asarray(tr.array).tolist()}
                    bad = bad or images_ok(tr, r["img"], g)
                    if not bad and not np.array_equal(np.asarray(hobj.array), keep):
                        bad = {"the mirror passed to reflection() was changed to": np.asarray(hobj.array).tolist()}
                    if not bad:         # the same mirror object used a second time
                        tr2 = g.reflection(hobj)
                        bad = None if mclass(tr2, r["M"]) else {"second reflection(h) with the same object": np.asarray(tr2.array).tolist()}
                    if bad:
                        out.append(dict(site=f"reflection/{r['d']}D{name}", stratum=stratum, case={"h": hv}, expected=r["M"], observed=bad))
            elif t == "from_points":
                src = [g.Point(np.array(a)) for a in r["a"]]
                for name, mult in (("", [1] * 5), ("/scaled-targets", [2, -1, 3, 1, -2])):
                    dst = [g.Point(np.array(b) * m) for b, m in zip(r["b"], mult)]
                    tr = g.Transformation.from_points(*zip(src, dst))
                    if not mclass(tr, r["M"]):
                        out.append(dict(site=f"from_points/{r['d']}D{name}", stratum=stratum, case={"a": r["a"], "b": r["b"]},
                                        expected=r["M"], observed=np.asarray(tr.array).tolist()))
            elif t == "conics":
                c1, c2 = g.Conic(np.array(r["c1"])), g.Conic(np.array(r["c2"]))
                p1 = [g.Point(np.array(p)) for p in r["p1"]]
                p2 = [g.Point(np.array(p)) for p in r["p2"]]
                tr = g.Transformation.from_points_and_conics(p1, p2, c1, c2)
                bad = None
                for a, b in zip(p1, r["p2"]):
                    if not same_class((tr * a).array, b):
                        bad = {"point": np.asarray(a.array).tolist(), "image": np.asarray((tr * a).array).tolist(), "expected": b}
                if bad is None and not same_class(np.asarray((tr * c1).array).reshape(-1), np.array(r["c2"]).reshape(-1)):
                    bad = {"conic_image": np.asarray((tr * c1).array).tolist()}
                if bad:
                    out.append(dict(site="from_points_and_conics", stratum=stratum, case={k: r[k] for k in ("c1", "p1", "c2", "p2")},
                                    expected="maps the three points and the conic", observed=bad))
        except Exception as e:  # noqa: BLE001
            out.append(dict(site=t, stratum=stratum, case={k: v for k, v in r.items() if k not in ("img",)},
                            expected="no exception", observed=f"raised {type(e).__name__}: {e}"))
    return out, hands


def _work(job):
    try:
        return replay(job)
    except Exception:  # noqa: BLE001
        import traceback

        return [dict(site="harness", stratum="machinery", case="", expected="", observed=traceback.format_exc())], []


TIER = {"quick": dict(stride=3), "thorough": dict(stride=1)}


def run(ctx: Ctx):
    t = TIER[ctx.tier]
    tasks = ["translation", "rotation2", "rotation3", "scaling", "reflection", "from_points2", "from_points3", "conics"]
    cfg = cfg_text(constants={"Tasks": {S(x) for x in tasks}, "Stride": t["stride"], "Seed": ctx.seed % 97, "DoDump": True},
                   invariants=INVS, constraints=["Dump"])
    r = ctx.tlc("C08_Constructors", cfg, dump=True)
    recs = list(read_dump(r["dump"]))
    seen = {x["r"]["t"] for x in recs}
    for need in ("translation", "rotation2", "rotation3", "scaling", "reflection", "from_points", "conics"):
        if need not in seen:
            raise MachineryError(f"task {need} produced no case (vacuous)")
    ctx.log(f"{len(recs)} cases")
    jobs = [recs[i:i + 300] for i in range(0, len(recs), 300)]
    with Pool(16) as pool:
        results = pool.map(_work, jobs, chunksize=1)
    hands = []
    for res, hs in results:
        hands += hs
        for m in res:
            if m["stratum"] == "machinery":
                raise MachineryError(m["observed"])
            ctx.mismatch(m["site"], m["stratum"], m["case"], m["expected"], m["observed"])
    if hands and len(set(hands)) != 1:
        ctx.mismatch("rotation/3D", "handedness", {"counts": {"+1": hands.count(1), "-1": hands.count(-1)}},
                     "one consistent handedness for every axis and angle (the property leaves the choice open)",
                     "rotations about some axes turn the other way round")
    ctx.cov["rotation3_handedness"] = (hands[0] if hands else None)
    for x in recs:
        ctx.count(x["s"])
        if x["s"] in ("oblique-axis", "mirror-off-origin", "frame", "conic-frame", "pythagorean"):
            ctx.nontrivial(str({k: v for k, v in x["r"].items() if k != "img"}))
    ctx.cov["traces_validated_against_impl"] += len(recs)
    ctx.sample({k: v for k, v in recs[0]["r"].items() if k != "img"})
    ctx.sample({k: v for k, v in recs[-1]["r"].items() if k != "img"})
