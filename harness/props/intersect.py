"""C18: polytope intersections against C18_Intersect.tla."""
from __future__ import annotations

from multiprocessing import Pool

import numpy as np

from ..abstraction import same_class
from ..core import Ctx, MachineryError, S, cfg_text, import_geometer, read_dump

RULE = ("cases = operand pairs enumerated by TLC: grid segments x grid segments / lattice lines, convex and non-convex polygons "
        "x lattice lines / segments, polygons of 3-space and cuboids x lines / segments through lattice points, segments x lattice "
        "planes; the expected result is an exact set of projective points (or 'subset of the common points' for overlapping "
        "operands); non-trivial = touch-endpoint / through-vertex / collinear-overlap / miss / touch-edge-or-vertex")
INVS = ["OnBoth2", "PolyLineSound", "PolySegSound", "ConvexTwo", "BoxSound"]


def pts_of(result):
    """list returned by intersect() -> list of coordinate vectors (collections flattened)"""
    out = []
    for p in result:
        a = np.asarray(p.array)
        if a.ndim == 1:
            out.append(a)
        else:
            out.extend(list(a.reshape(-1, a.shape[-1])))
    return out


def compare(got, r):
    """None if the list of returned points is the expected set (each once), or a subset for a relation."""
    exp = [np.array(p) for p in r["pts"]]
    if not all(np.all(np.isfinite(np.asarray(g, dtype=complex))) for g in got):
        return {"returned": [np.asarray(g).tolist() for g in got]}
    used = [False] * len(exp)
    for gpt in got:
        hit = [i for i, e in enumerate(exp) if same_class(gpt, e)]
        if r["k"] == "set":
            if not hit:
                return {"spurious": np.asarray(gpt).tolist(), "returned": [np.asarray(g).tolist() for g in got]}
            if used[hit[0]]:
                return {"duplicate": np.asarray(gpt).tolist(), "returned": [np.asarray(g).tolist() for g in got]}
            used[hit[0]] = True
    if r["k"] == "set" and not all(used):
        return {"missing": [e.tolist() for e, u in zip(exp, used) if not u], "returned": [np.asarray(g).tolist() for g in got]}
    return None


def replay(recs):
    g = import_geometer()
    out = []
    P = lambda v: g.Point(*v)  # noqa: E731

    def run(site, st, case, r, fn, on_both=None):
        try:
            got = pts_of(fn())
            d = compare(got, r)
            if d is None and r["k"] == "rel" and on_both is not None:
                for pt in got:
                    if not on_both(pt):
                        d = {"spurious": np.asarray(pt).tolist()}
        except Exception as e:  # noqa: BLE001
            d = f"raised {type(e).__name__}: {e}"
        if d is not None:
            out.append(dict(site=site, stratum=st, case=case, expected=r, observed=d))

    for d in recs:
        x, st = d["r"], d["s"]
        t, r = x["t"], x["r"]
        if t == "segseg2":
            case = {k: x[k] for k in "abcd"}
            s1 = lambda: g.Segment(P(x["a"]), P(x["b"]))  # noqa: E731
            s2 = lambda: g.Segment(P(x["c"]), P(x["d"]))  # noqa: E731
            both = lambda pt: bool(s1().contains(g.Point(pt))) and bool(s2().contains(g.Point(pt)))  # noqa: E731
            run("Segment.intersect(Segment)/2D", st, case, r, lambda: s1().intersect(s2()), both)
            run("Segment.intersect(Segment)/2D/swapped", st, case, r, lambda: s2().intersect(s1()), both)
            # the same segments with other homogeneous representatives of their end points (mixed signs)
            m1 = lambda: g.Segment(np.array([list(x["a"]) + [1], [-2 * v for v in x["b"]] + [-2]]))  # noqa: E731
            m2 = lambda: g.Segment(np.array([[-v for v in x["c"]] + [-1], [3 * v for v in x["d"]] + [3]]))  # noqa: E731
            run("Segment.intersect(Segment)/2D/mixed-sign-representatives", st, case, r, lambda: m1().intersect(m2()), both)
        elif t == "segline2":
            case = {"a": x["a"], "b": x["b"], "l": x["l"]}
            run("Segment.intersect(Line)/2D", st, case, r, lambda: g.Segment(P(x["a"]), P(x["b"])).intersect(g.Line(np.array(x["l"]))))
        elif t == "polyline2":
            case = {"poly": x["poly"], "l": x["l"]}
            run("Polygon.intersect(Line)/2D", st, case, r, lambda: g.Polygon(*[P(v) for v in x["poly"]]).intersect(g.Line(np.array(x["l"]))))
            fac = [1, -1, 2, -3, 1, -2]
            run("Polygon.intersect(Line)/2D/mixed-sign-representatives", st, case, r,
                lambda: g.Polygon(np.array([[f * c for c in list(v) + [1]] for v, f in zip(x["poly"], fac)])).intersect(g.Line(np.array(x["l"]) * -2)))
            # the polygon and the line have been used by now: moved together by an exact isometry, the common points move along
            if r["k"] == "set":
                from ..moved import motions, mh, mp, warm
                for mname, mv, T, Ti in motions(2):
                    rm = {"k": "set", "pts": [mp(T, q) for q in r["pts"]]}

                    def moved_call(mv=mv):
                        poly = warm(g.Polygon(*[P(v) for v in x["poly"]]))
                        line = warm(g.Line(np.array(x["l"])))
                        poly.intersect(line)
                        return mv(poly).intersect(mv(line))
                    run(f"Polygon.intersect(Line)/2D/used-then-moved/{mname}", st, {**case, "moved by": mname}, rm, moved_call)
        elif t == "polyseg2":
            case = {"poly": x["poly"], "c": x["c"], "d": x["d"]}
            run("Polygon.intersect(Segment)/2D", st, case, r, lambda: g.Polygon(*[P(v) for v in x["poly"]]).intersect(g.Segment(P(x["c"]), P(x["d"]))))
            run("Segment.intersect(Polygon)/2D", st, case, r, lambda: g.Segment(P(x["c"]), P(x["d"])).intersect(g.Polygon(*[P(v) for v in x["poly"]])))
        elif t == "polyline3":
            case = {"poly": x["poly"], "a": x["a"], "b": x["b"]}
            run("Polygon.intersect(Line)/3D", st, case, r, lambda: g.Polygon(*[P(v) for v in x["poly"]]).intersect(g.Line(P(x["a"]), P(x["b"]))))
            fac = [1, -1, 2, -3, 1, -2]
            run("Polygon.intersect(Line)/3D/mixed-sign-representatives", st, case, r,
                lambda: g.Polygon(np.array([[f * c for c in list(v) + [1]] for v, f in zip(x["poly"], fac)])).intersect(g.Line(P(x["a"]), P(x["b"]))))
            if r["k"] == "set" and sum(x["a"]) % 4 == 0:          # a quarter of the cases (the moved variants are costly)
                from ..moved import motions, mp, warm
                for mname, mv, T, Ti in motions(3):
                    rm = {"k": "set", "pts": [mp(T, q) for q in r["pts"]]}

                    def moved_call3(mv=mv):
                        poly = warm(g.Polygon(*[P(v) for v in x["poly"]]))
                        line = warm(g.Line(P(x["a"]), P(x["b"])))
                        poly.intersect(line)
                        return mv(poly).intersect(mv(line))
                    run(f"Polygon.intersect(Line)/3D/used-then-moved/{mname}", st, {**case, "moved by": mname}, rm, moved_call3)
        elif t == "polyseg3":
            case = {"poly": x["poly"], "a": x["a"], "b": x["b"]}
            run("Polygon.intersect(Segment)/3D", st, case, r, lambda: g.Polygon(*[P(v) for v in x["poly"]]).intersect(g.Segment(P(x["a"]), P(x["b"]))))
        elif t == "segplane3":
            case = {"a": x["a"], "b": x["b"], "e": x["e"]}
            run("Segment.intersect(Plane)/3D", st, case, r, lambda: g.Segment(P(x["a"]), P(x["b"])).intersect(g.Plane(np.array(x["e"]))))
        elif t == "boxline":
            c = x["c"]
            case = {"cuboid": c, "a": x["a"], "b": x["b"]}
            box = lambda: g.Cuboid(g.Point(0, 0, 0), g.Point(c[0], 0, 0), g.Point(0, c[1], 0), g.Point(0, 0, c[2]))  # noqa: E731
            run("Cuboid.intersect(Line)", st, case, r, lambda: box().intersect(g.Line(P(x["a"]), P(x["b"]))))
            if r["k"] == "set" and sum(x["a"]) % 5 == 0:
                from ..moved import motions, mp, warm
                for mname, mv, T, Ti in motions(3)[:2]:
                    rm = {"k": "set", "pts": [mp(T, q) for q in r["pts"]]}

                    def moved_box(mv=mv):
                        bx, line = warm(box()), warm(g.Line(P(x["a"]), P(x["b"])))
                        bx.intersect(line)
                        return mv(bx).intersect(mv(line))
                    run(f"Cuboid.intersect(Line)/used-then-moved/{mname}", st, {**case, "moved by": mname}, rm, moved_box)
    return out


def _on_seg(p, a, b, tol=1e-9):
    """Cartesian 2D/3D: p on the closed segment ab"""
    p, a, b = (np.asarray(v, dtype=float) for v in (p, a, b))
    ab, ap = b - a, p - a
    cr = np.linalg.norm(np.cross(np.append(ab, 0)[:3], np.append(ap, 0)[:3])) if len(a) == 2 else np.linalg.norm(np.cross(ab, ap))
    return cr <= tol * max(1.0, np.linalg.norm(ab)) and -tol <= np.dot(ap, ab) <= np.dot(ab, ab) + tol


def replay_coll(recs):
    """SegmentCollection.intersect(SegmentCollection): the list returned for a collection holds, position by position, the
    points of the positions that intersect; compared as a multiset with the union of the expected singles.  Positions whose
    segments are collinear ("rel") are mixed in: they must not disturb the other positions, and whatever is returned beyond
    the exact points must be a common point of such a collinear pair."""
    g = import_geometer()
    out = []
    rel = [r["r"] for r in recs if r["r"]["r"]["k"] == "rel"]
    site = "SegmentCollection.intersect(SegmentCollection)/2D" + ("/with-collinear-pairs" if rel else "")
    case = {"a": [r["r"]["a"] for r in recs], "b": [r["r"]["b"] for r in recs], "c": [r["r"]["c"] for r in recs], "d": [r["r"]["d"] for r in recs]}
    for variant in ("2D", "3D-embedded"):
        emb = (lambda v: list(v) + [1]) if variant == "2D" else (lambda v: [v[0], v[1], v[0] + 2 * v[1], 1])
        try:
            A = g.SegmentCollection(np.array([[emb(r["r"]["a"]), emb(r["r"]["b"])] for r in recs]))
            B = g.SegmentCollection(np.array([[emb(r["r"]["c"]), emb(r["r"]["d"])] for r in recs]))
            got = pts_of(A.intersect(B))
            exp = [np.array(emb([c / p[-1] for c in p[:-1]])) for r in recs if r["r"]["r"]["k"] == "set" for p in r["r"]["r"]["pts"]]
            used = [False] * len(exp)
            ok = True
            for gp in got:
                hit = [i for i, e in enumerate(exp) if not used[i] and same_class(gp, e)]
                if hit:
                    used[hit[0]] = True
                    continue
                gp = np.asarray(gp)
                cart = (gp[:-1] / gp[-1]).real if abs(gp[-1]) > 1e-12 else None
                if cart is None or not any(_on_seg(cart, emb(x["a"])[:-1], emb(x["b"])[:-1]) and _on_seg(cart, emb(x["c"])[:-1], emb(x["d"])[:-1]) for x in rel):
                    ok = False
                    break
            if not ok or not all(used):
                out.append(dict(site=site.replace("/2D", "/" + variant), stratum="collinear-overlap" if rel else "general", case=case,
                                expected=[e.tolist() for e in exp], observed=[np.asarray(x).tolist() for x in got]))
        except Exception as e:  # noqa: BLE001
            out.append(dict(site=site.replace("/2D", "/" + variant), stratum="collinear-overlap" if rel else "general", case=case,
                            expected="points", observed=f"raised {type(e).__name__}: {e}"))
    return out


def replay_coll3(groups):
    """3-space: one polygon against a LineCollection of all its lines (lines parallel to the plane of the polygon mixed in:
    the dependent positions are masked out by the library), and a PolygonCollection of the quadrilaterals against one line.
    The returned list must be the multiset union of what the single pairs return."""
    g = import_geometer()
    out = []
    P = lambda v: g.Point(*v)  # noqa: E731

    def cmp(site, case, got, exp):
        used = [False] * len(exp)
        ok = len(got) == len(exp)
        for gp in got:
            hit = [i for i, e in enumerate(exp) if not used[i] and same_class(gp, e)]
            if not hit:
                ok = False
                break
            used[hit[0]] = True
        if not ok:
            out.append(dict(site=site, stratum="collection", case=case, expected=[e.tolist() for e in exp],
                            observed=[np.asarray(x).tolist() for x in got]))

    for kind, recs in groups:
        try:
            if kind == "lines":
                poly = recs[0]["r"]["poly"]
                A = g.PointCollection(np.array([r["r"]["a"] + [1] for r in recs]))
                B = g.PointCollection(np.array([r["r"]["b"] + [1] for r in recs]))
                got = pts_of(g.Polygon(*[P(v) for v in poly]).intersect(g.join(A, B)))
                exp = [np.array(p) for r in recs if r["r"]["r"]["k"] == "set" for p in r["r"]["r"]["pts"]]
                # lines lying IN the plane of the polygon may be mixed in: nothing is required of those positions, a returned
                # point beyond the expected ones is accepted when it lies on such a line
                inl = [(np.array(r["r"]["a"], dtype=float), np.array(r["r"]["b"], dtype=float)) for r in recs if r["r"]["r"]["k"] != "set"]
                if inl:
                    left, keep = list(exp), []
                    for v in got:
                        hit = [i for i, e_ in enumerate(left) if same_class(v, e_)]
                        if hit:
                            left.pop(hit[0])
                            keep.append(v)
                            continue
                        w = np.asarray(v, dtype=complex)
                        q = (w[:-1] / w[-1]).real if abs(w[-1]) > 1e-12 else None
                        if q is None or not any(np.linalg.norm(np.cross(q - a_, b_ - a_)) <= 1e-7 * (1 + np.linalg.norm(q)) for a_, b_ in inl):
                            keep.append(v)
                    got = keep
                cmp("Polygon.intersect(LineCollection)/3D", {"poly": poly, "lines": [[r["r"]["a"], r["r"]["b"]] for r in recs][:10], "count": len(recs)}, got, exp)
            elif kind == "segs":
                # one polygon against a SegmentCollection, and the PolygonCollection holding it once per segment against the
                # same SegmentCollection (both orders).  Segments lying IN the plane of the polygon are mixed in: what those
                # positions contribute is not defined by the property (a point of such a segment is accepted, none is required);
                # every other position must contribute exactly its common point
                poly = recs[0]["r"]["poly"]
                A = np.array([r["r"]["a"] + [1] for r in recs])
                B = np.array([r["r"]["b"] + [1] for r in recs])
                segs = g.SegmentCollection(np.stack([A, B], axis=1))
                exp = [np.array(p_) for r in recs if r["r"]["r"]["k"] == "set" for p_ in r["r"]["r"]["pts"]]
                inplane = [(np.array(r["r"]["a"], dtype=float), np.array(r["r"]["b"], dtype=float)) for r in recs if r["r"]["r"]["k"] != "set"]

                def on_inplane(v):
                    v = np.asarray(v, dtype=complex)
                    if abs(v[-1]) < 1e-12 or np.abs(v.imag).max() > 1e-9:
                        return False
                    q = (v[:-1] / v[-1]).real
                    for a_, b_ in inplane:
                        d_ = b_ - a_
                        t_ = np.dot(q - a_, d_) / np.dot(d_, d_)
                        if -1e-9 <= t_ <= 1 + 1e-9 and np.linalg.norm(a_ + t_ * d_ - q) <= 1e-7:
                            return True
                    return False
                one = g.Polygon(*[P(v) for v in poly])
                many = g.PolygonCollection(np.array([[list(v) + [1] for v in poly]] * len(recs)))
                for site, call in (("Polygon.intersect(SegmentCollection)/3D", lambda: one.intersect(segs)),
                                   ("PolygonCollection.intersect(SegmentCollection)/3D", lambda: many.intersect(segs)),
                                   ("SegmentCollection.intersect(PolygonCollection)/3D", lambda: segs.intersect(many))):
                    try:
                        got = pts_of(call())
                    except NotImplementedError:
                        continue
                    # points beyond the expected ones are accepted when they lie on an in-plane segment
                    left = list(exp)
                    extra = []
                    for v in got:
                        hit = [i for i, e_ in enumerate(left) if same_class(v, e_)]
                        if hit:
                            left.pop(hit[0])
                        else:
                            extra.append(v)
                    got = [v for v in got if not any(v is x_ for x_ in extra) or not on_inplane(v)]
                    cmp(site + "/in-plane-segments-mixed-in", {"poly": poly, "segments": [[r["r"]["a"], r["r"]["b"]] for r in recs],
                                                               "in_plane": [r["r"]["r"]["k"] != "set" for r in recs]}, got, exp)
            else:
                a, b = recs[0]["r"]["a"], recs[0]["r"]["b"]
                polys = g.PolygonCollection(np.array([[list(v) + [1] for v in r["r"]["poly"]] for r in recs]))
                got = pts_of(polys.intersect(g.Line(P(a), P(b))))
                exp = [np.array(p) for r in recs for p in r["r"]["r"]["pts"]]
                cmp("PolygonCollection.intersect(Line)/3D", {"polys": [r["r"]["poly"] for r in recs], "a": a, "b": b}, got, exp)
                # the same collection after every one of its properties (area, edges, vertices, ...) has been read
                from ..moved import warm
                got_w = pts_of(warm(polys).intersect(g.Line(P(a), P(b))))
                cmp("PolygonCollection.intersect(Line)/3D/after-reading-its-properties", {"polys": [r["r"]["poly"] for r in recs], "a": a, "b": b}, got_w, exp)
                got_s = pts_of(polys.intersect(g.Segment(P(a), P([2 * y - x for x, y in zip(a, b)]))))
                exp_s = [e for e in exp if not np.isclose(e[-1], 0) and -1e-9 <= np.dot(np.array(e[:-1]) / e[-1] - np.array(a), np.array(b) - np.array(a)) / np.dot(np.array(b) - np.array(a), np.array(b) - np.array(a)) <= 2 + 1e-9]
                cmp("PolygonCollection.intersect(Segment)/3D/after-reading-its-properties", {"polys": [r["r"]["poly"] for r in recs], "a": a, "b": [2 * y - x for x, y in zip(a, b)]}, got_s, exp_s)
                # the same polygons as a collection with two axes: [[P1, P1], [P2, P2]]
                one = np.array([[list(v) + [1] for v in r["r"]["poly"]] for r in recs[:2]])
                grid = g.PolygonCollection(np.stack([np.stack([one[0], one[0]]), np.stack([one[1], one[1]])]))
                got2 = pts_of(grid.intersect(g.Line(P(a), P(b))))
                exp2 = [np.array(p) for r in recs[:2] for p in r["r"]["r"]["pts"] for _ in (0, 1)]
                cmp("PolygonCollection.intersect(Line)/3D/two-collection-axes", {"polys": [r["r"]["poly"] for r in recs[:2]], "a": a, "b": b}, got2, exp2)
        except Exception as e:  # noqa: BLE001
            out.append(dict(site=("Polygon.intersect(LineCollection)/3D" if kind == "lines" else "Polygon.intersect(SegmentCollection)/3D" if kind == "segs"
                                  else "PolygonCollection.intersect(Line)/3D"),
                            stratum="collection", case={"count": len(recs)}, expected="points", observed=f"raised {type(e).__name__}: {e}"))
    return out


def _work(job):
    try:
        if job[0] == "coll3":
            return replay_coll3(job[1])
        return replay(job[1]) if job[0] == "single" else replay_coll(job[1])
    except Exception:  # noqa: BLE001
        import traceback

        return [dict(site="harness", stratum="machinery", case="", expected="", observed=traceback.format_exc())]


TIER = {"quick": dict(stride=2), "thorough": dict(stride=1)}
TASKS = ["segseg2", "segline2", "polyline2", "polyseg2", "polyline3", "polyseg3", "segplane3", "boxline"]


def run(ctx: Ctx):
    t = TIER[ctx.tier]
    cfg = cfg_text(constants={"Tasks": {S(x) for x in TASKS}, "Stride": t["stride"], "Seed": ctx.seed % 97, "DoDump": True},
                   invariants=INVS, constraints=["Dump"])
    r = ctx.tlc("C18_Intersect", cfg, dump=True)
    recs = list(read_dump(r["dump"]))
    strata = {}
    for x in recs:
        strata[(x["r"]["t"], x["s"])] = strata.get((x["r"]["t"], x["s"]), 0) + 1
    for need in [("segseg2", "touch-endpoint"), ("segseg2", "collinear-overlap"), ("segseg2", "miss"), ("segseg2", "transversal"),
                 ("polyline2", "through-vertex"), ("polyseg2", "segment-on-edge-line"), ("polyline2", "transversal"), ("polyline3", "transversal"), ("polyline3", "miss"),
                 ("boxline", "transversal"), ("boxline", "touch-edge-or-vertex"), ("boxline", "miss"), ("segplane3", "transversal")]:
        if not strata.get(need):
            raise MachineryError(f"stratum {need} never visited (vacuous)")
    ctx.log(f"{len(recs)} cases")
    jobs = [("single", recs[i:i + 200]) for i in range(0, len(recs), 200)]
    ss = [x for x in recs if x["r"]["t"] == "segseg2" and x["r"]["r"]["k"] == "set"]
    jobs += [("coll", ss[i:i + 12]) for i in range(0, len(ss), 12)]
    # the same with one or two collinear pairs mixed into every collection (in the middle and at the end)
    sr = [x for x in recs if x["r"]["t"] == "segseg2" and x["r"]["r"]["k"] == "rel"]
    if not sr:
        raise MachineryError("no collinear segment pair to mix into the collections (vacuous)")
    for j, i in enumerate(range(0, len(ss), 7)):
        chunk = ss[i:i + 7]
        jobs.append(("coll", chunk[:3] + [sr[j % len(sr)]] + chunk[3:] + ([sr[(j * 5 + 1) % len(sr)]] if j % 2 else [])))
    # 3-space collections (lines lying IN the plane of the polygon are left out: infinitely many common points)
    p3 = [x for x in recs if x["r"]["t"] == "polyline3" and x["r"]["r"]["k"] == "set"]
    bypoly, byline = {}, {}
    for x in p3:
        bypoly.setdefault(str(x["r"]["poly"]), []).append(x)
        if len(x["r"]["poly"]) == 4:
            byline.setdefault(str((x["r"]["a"], x["r"]["b"])), []).append(x)
    g3 = []
    p3rel = {}
    for x in recs:
        if x["r"]["t"] == "polyline3" and x["r"]["r"]["k"] != "set":
            p3rel.setdefault(str(x["r"]["poly"]), []).append(x)
    if not p3rel:
        raise MachineryError("no line lying in the plane of a polygon (vacuous)")
    for key, v in bypoly.items():
        g3 += [("lines", v[i:i + 9]) for i in range(0, len(v), 9) if len(v[i:i + 9]) >= 2]
        rels = p3rel.get(key, [])
        for j, i in enumerate(range(0, len(v), 11)):
            if rels and len(v[i:i + 6]) >= 2:
                g3.append(("lines", v[i:i + 3] + [rels[j % len(rels)]] + v[i + 3:i + 6] + ([rels[(3 * j + 1) % len(rels)]] if j % 2 else [])))
    g3 += [("polys", v) for v in byline.values() if len(v) >= 2]
    # polygon x segments: chunks of "set" cases with one or two in-plane segments mixed in (in the middle / at the end)
    s3 = [x for x in recs if x["r"]["t"] == "polyseg3"]
    bypoly3 = {}
    for x in s3:
        bypoly3.setdefault(str(x["r"]["poly"]), ([], []))[0 if x["r"]["r"]["k"] == "set" else 1].append(x)
    nsegs = 0
    for sets, rels in bypoly3.values():
        for j, i in enumerate(range(0, len(sets), 7)):
            chunk = sets[i:i + 7]
            if rels:
                chunk = chunk[:3] + [rels[j % len(rels)]] + chunk[3:] + ([rels[(j * 5 + 1) % len(rels)]] if j % 2 else [])
            if len(chunk) >= 2:
                g3.append(("segs", chunk))
                nsegs += 1
    if nsegs < 10 or not any(rels for _, rels in bypoly3.values()):
        raise MachineryError("too few polygon x SegmentCollection groups / no in-plane segment (vacuous)")
    if len(g3) < 20 or not any(k == "polys" for k, _ in g3) or not any(k == "lines" for k, _ in g3):
        raise MachineryError("too few 3D collection groups (vacuous)")
    ctx.log(f"{sum(1 for k, _ in g3 if k == 'lines')} polygon x LineCollection groups, {sum(1 for k, _ in g3 if k == 'polys')} PolygonCollection x line groups")
    jobs += [("coll3", g3[i:i + 60]) for i in range(0, len(g3), 60)]
    with Pool(16) as pool:
        results = pool.map(_work, jobs, chunksize=1)
    for res in results:
        for m in res:
            if m["stratum"] == "machinery":
                raise MachineryError(m["observed"])
            ctx.mismatch(m["site"], m["stratum"], m["case"], m["expected"], m["observed"])
    for x in recs:
        ctx.count(x["s"])
        if x["s"] != "transversal":
            ctx.nontrivial(str(x["r"]))
    ctx.cov["traces_validated_against_impl"] += len(recs)
    ctx.sample(recs[0]["r"])
    ctx.sample(recs[-1]["r"])
