"""C03: results do not depend on the homogeneous representative (C03_Repr.tla)."""
from __future__ import annotations

import itertools
import math
from fractions import Fraction

import numpy as np

from ..abstraction import TOL, coords_of, same_class
from ..core import Ctx, MachineryError, S, cfg_text, import_geometer, read_dump

RULE = ("cases = (operation, configuration, scaling pattern): every argument position (every vertex of a polytope, the matrix of a "
        "transformation or quadric) of 26 operations on configurations with exact answers is multiplied by each factor of the "
        "table {-1, 2, -3, 0.5, -0.37, 7.25} (complex {1j, 1+1j} for the algebraic operations), one position at a time, all "
        "positions with different factors, and all positions negated; non-trivial = a negative or complex factor, or a factor on a "
        "polytope vertex / matrix")
FACT = [-1, 2, -3, 0.5, -0.37, 7.25]
CFACT = [1j, 1 + 1j]
ALGEBRAIC = {"eq_pp", "join_pp", "meet_ll", "crossratio", "contains_lp", "is_collinear", "trafo_apply", "trafo_compose", "conic_contains"}


def rat(q):
    return q[0] / q[1]


def evaluate(g, op, a):
    """run the operation on the (already scaled) numpy representatives a; returns a value comparable with the spec's answer"""
    P = lambda v: g.Point(np.asarray(v))  # noqa: E731
    if op == "eq_pp":
        return ("b", bool(P(a[0]) == P(a[1])) and bool(P(a[1]) == P(a[0])) if True else None)
    if op == "contains_lp":
        return ("b", bool(g.Line(a[0]).contains(P(a[1]))))
    if op in ("dist_pp", "dist_pp3"):
        return ("q2", float(g.dist(P(a[0]), P(a[1]))), float(g.dist(P(a[1]), P(a[0]))))
    if op == "dist_lp":
        return ("q2", float(g.dist(g.Line(a[0]), P(a[1]))), float(g.dist(P(a[1]), g.Line(a[0]))))
    if op == "angle_ppp":
        th = float(np.real(g.angle(P(a[0]), P(a[1]), P(a[2]))))
        return ("c", [math.cos(th), math.sin(th)])
    if op == "crossratio":
        return ("q", complex(g.crossratio(*[P(x) for x in a])))
    if op == "join_pp":
        return ("c", g.join(P(a[0]), P(a[1])).array)
    if op == "meet_ll":
        return ("c", g.meet(g.Line(a[0]), g.Line(a[1])).array)
    if op == "seg_contains":
        s1 = g.Segment(np.array([a[0], a[1]]))
        s2 = g.Segment(P(a[0]), P(a[1]))
        return ("b", bool(s1.contains(P(a[2]))), bool(s2.contains(P(a[2]))), bool(np.all(s1.contains(g.PointCollection(np.array([a[2], a[2]]))))))
    if op == "poly_contains":
        poly = g.Polygon(np.array(a[:-1]))
        return ("b", bool(poly.contains(P(a[-1]))), bool(np.all(poly.contains(g.PointCollection(np.array([a[-1], a[-1]]))))))
    if op == "poly_area":
        return ("q1", float(g.Polygon(np.array(a)).area) * 2)
    if op == "conic_contains":
        return ("b", bool(g.Conic(a[0]).contains(P(a[1]))))
    if op == "conic_polar":
        return ("c", g.Conic(a[0]).polar(P(a[1])).array)
    if op == "trafo_apply":
        return ("c", (g.Transformation(a[0]) * P(a[1])).array)
    if op == "trafo_apply_line":
        return ("c", (g.Transformation(a[0]) * g.Line(a[1])).array)
    if op == "trafo_compose":
        return ("c", np.asarray((g.Transformation(a[0]) * g.Transformation(a[1])).array).reshape(-1))
    if op == "is_parallel":
        return ("b", bool(g.Line(a[0]).is_parallel(g.Line(a[1]))))
    if op == "is_perpendicular":
        return ("b", bool(g.is_perpendicular(g.Line(a[0]), g.Line(a[1]))))
    if op == "is_collinear":
        return ("b", bool(g.is_collinear(*[P(x) for x in a])))
    if op == "is_cocircular":
        return ("b", bool(g.is_cocircular(*[P(x) for x in a])))
    if op == "seg_midpoint":
        return ("c", g.Segment(np.array([a[0], a[1]])).midpoint.array)
    if op == "project_lp":
        return ("c", g.Line(a[0]).project(P(a[1])).array)
    if op == "mirror_lp":
        return ("c", g.Line(a[0]).mirror(P(a[1])).array)
    if op == "contains_ep3":
        return ("b", bool(g.Plane(a[0]).contains(P(a[1]))))
    if op == "join_ppp3":
        return ("c", g.join(*[P(x) for x in a]).array)
    if op == "eq_mat":
        A, B = np.asarray(a[0]), np.asarray(a[1])
        sym = bool(np.array_equal(A, A.T) and np.array_equal(B, B.T))
        vals = [bool(g.Transformation(A) == g.Transformation(B)), bool(g.Transformation(B) == g.Transformation(A)),
                bool(np.all(g.TransformationCollection(np.stack([A, A])) == g.TransformationCollection(np.stack([B, B]))))]
        if sym:
            vals += [bool(g.Conic(A) == g.Conic(B)), bool(g.Conic(B) == g.Conic(A))]
        return ("b", *vals)
    if op == "eq_poly":
        n = len(a) // 2
        mk = (lambda vs: g.Segment(np.array(vs))) if n == 2 else (lambda vs: g.Polygon(np.array(vs)))
        A, B = mk(a[:n]), mk(a[n:])
        A2, B2 = (g.Segment if n == 2 else g.Polygon)(*[P(x) for x in a[:n]]), (g.Segment if n == 2 else g.Polygon)(*[P(x) for x in a[n:]])
        return ("b", bool(A == B), bool(B == A), bool(A2 == B2), bool(B2 == A))
    raise MachineryError(f"operation {op} is in the specification but not in the harness")


def agrees(val, ans):
    kind = val[0]
    if kind == "b":
        return all(v == ans["b"] for v in val[1:])
    if kind == "q2":
        e = rat(ans["q"])
        return all(math.isfinite(v) and abs(v * v - e) <= TOL * max(1, e) for v in val[1:])
    if kind == "q1":
        e = rat(ans["q"])
        return abs(val[1] - e) <= TOL * max(1, e)
    if kind == "q":
        e = rat(ans["q"])
        return np.isfinite(val[1]) and abs(val[1] - e) <= TOL * max(1, abs(e))
    return same_class(np.asarray(val[1]).reshape(-1), np.asarray(ans["c"]).reshape(-1))


def patterns(n, op, thorough):
    """scaling patterns: tuples of factors, one per argument position"""
    pats = []
    facs = FACT + (CFACT if op in ALGEBRAIC else [])
    for i in range(n):
        for f in facs:
            p = [1] * n
            p[i] = f
            pats.append(tuple(p))
    pats.append(tuple(FACT[(i * 2) % len(FACT)] for i in range(n)))
    pats.append(tuple(FACT[(i + 3) % len(FACT)] for i in range(n)))
    pats.append((-1,) * n)
    pats.append(tuple(-1 if i % 2 else 1 for i in range(n)))
    if thorough and n <= 4:
        pats += list(itertools.product([-3, -0.37, 2], repeat=n))
    return pats


def run(ctx: Ctx):
    g = import_geometer()
    cfg = cfg_text(constants={"DoDump": True}, invariants=["EqLaws"], properties=["RescaleUnobservable"], constraints=["Dump"])
    r = ctx.tlc("C03_Repr", cfg, dump=True)
    recs = list(read_dump(r["dump"]))
    if len(recs) < 60:
        raise MachineryError("too few configurations dumped")
    n_cases = 0
    for rec in recs:
        op, args, ans = rec["op"], rec["a"], rec["ans"]
        base = [np.array(x) for x in args]
        # the unscaled configuration must give the specification's answer in the first place
        for pat in [tuple([1] * len(base))] + patterns(len(base), op, ctx.tier == "thorough"):
            scaled = [b * f for b, f in zip(base, pat)]
            n_cases += 1
            nontrivial = any((isinstance(f, complex) or f < 0) for f in pat)
            stratum = "unscaled" if all(f == 1 for f in pat) else ("complex-factor" if any(isinstance(f, complex) for f in pat)
                                                                      else "negative-factor" if nontrivial else "positive-factor")
            ctx.count(stratum)
            if stratum != "positive-factor" and stratum != "unscaled":
                ctx.nontrivial((op, rec["cfg"], str(pat)))
            try:
                with np.errstate(all="ignore"):
                    val = evaluate(g, op, scaled)
                ok = agrees(val, ans)
                obs = [np.asarray(v).tolist() if not isinstance(v, (bool, float, complex)) else v for v in val[1:]]
            except MachineryError:
                raise
            except Exception as e:  # noqa: BLE001
                ok, obs = False, f"raised {type(e).__name__}: {e}"
            if not ok:
                ctx.mismatch(op, stratum, {"args": args, "factors": [str(f) for f in pat]}, ans, str(obs)[:300])
    # operations whose argument is a point used as DATA of a constructor: compare with the unscaled call (relational)
    checks = []
    for u in ([1, 2, 2], [2, -3, 6], [0, 3, 4], [-1, 2, -2]):
        for f in FACT:
            checks.append(("rotation(axis)", f, lambda f=f, u=u: (g.rotation(0.7, axis=g.Point(np.array(u + [1]) * f)).array, g.rotation(0.7, axis=g.Point(*u)).array)))
    for c in ([1, 2], [-3, 1]):
        for f in FACT:
            checks.append(("translation(point)", f, lambda f=f, c=c: (g.translation(g.Point(np.array(c + [1]) * f)).array, g.translation(*c).array)))
            checks.append(("Circle(center)", f, lambda f=f, c=c: (g.Circle(g.Point(np.array(c + [1]) * f), 2).array, g.Circle(g.Point(*c), 2).array)))
            checks.append(("Sphere(center)", f, lambda f=f, c=c: (g.Sphere(g.Point(np.array(c + [2, 1]) * f), 2).array, g.Sphere(g.Point(*c, 2), 2).array)))
            checks.append(("Ellipse(center)", f, lambda f=f, c=c: (g.Ellipse(g.Point(np.array(c + [1]) * f), 3, 2).array, g.Ellipse(g.Point(*c), 3, 2).array)))
            checks.append(("reflection(line)", f, lambda f=f, c=c: (g.reflection(g.Line(np.array(c + [3]) * f)).array, g.reflection(g.Line(*c, 3)).array)))
    # an axis given by a complex multiple of its real coordinates is the same line / plane: the same reflection (the Householder
    # term is |c|^2 n n^T for the axis c n) and the same translation / centre for complex multiples of a finite point
    for c in ([1, 2], [-3, 1], [0, 2], [5, -4]):
        for f in CFACT + [-2j, 2 - 3j]:
            checks.append(("reflection(line)", f, lambda f=f, c=c: (g.reflection(g.Line(np.array(c + [3]) * f)).array, g.reflection(g.Line(*c, 3)).array)))
            checks.append(("reflection(plane)", f, lambda f=f, c=c: (g.reflection(g.Plane(np.array(c + [-2, 3]) * f)).array, g.reflection(g.Plane(*c, -2, 3)).array)))
            checks.append(("reflection(plane through origin)", f, lambda f=f, c=c: (g.reflection(g.Plane(np.array(c + [1, 0]) * f)).array, g.reflection(g.Plane(*c, 1, 0)).array)))
            checks.append(("translation(point)", f, lambda f=f, c=c: (g.translation(g.Point(np.array(c + [1]) * f)).array, g.translation(*c).array)))
    # integer representatives whose last coordinate is not 1 and does not divide the others (so that no scalar multiple of a
    # w = 1 integer point has this dtype and shape of data), against the float representative with w = 1; integer radii
    for h in ([1, 2, 2], [3, -1, 2], [1, 3, 4]):
        c = [x / h[-1] for x in h[:-1]]
        checks.append(("Circle(center)/integer-representative", 1, lambda h=h, c=c: (g.Circle(g.Point(np.array(h)), 2).array, g.Circle(g.Point(*c), 2.0).array)))
        checks.append(("Ellipse(center)/integer-representative", 1, lambda h=h, c=c: (g.Ellipse(g.Point(np.array(h)), 3, 2).array, g.Ellipse(g.Point(*c), 3.0, 2.0).array)))
        checks.append(("translation(point)/integer-representative", 1, lambda h=h, c=c: (g.translation(g.Point(np.array(h))).array, g.translation(*c).array)))
    for h in ([1, 2, 3, 2], [3, -1, 0, 2], [1, 3, -2, 4]):
        c = [x / h[-1] for x in h[:-1]]
        checks.append(("Sphere(center)/integer-representative", 1, lambda h=h, c=c: (g.Sphere(g.Point(np.array(h)), 2).array, g.Sphere(g.Point(*c), 2.0).array)))
        checks.append(("rotation(axis)/integer-representative", 1, lambda h=h, c=c: (g.rotation(0.7, axis=g.Point(np.array(h))).array, g.rotation(0.7, axis=g.Point(*c)).array)))
        checks.append(("Cone(vertex)/integer-representative", 1, lambda h=h, c=c: (g.Cone(g.Point(np.array(h)), g.Point(1, 1, 5), 2).array, g.Cone(g.Point(*c), g.Point(1, 1, 5), 2.0).array)))
    # cross ratio of four concurrent lines of 3-space (pencil through a finite point, through the origin, parallel lines):
    # one argument at a time rescaled
    for V, pts in (((1, 2, 3, 1), [(0, 0, 0), (1, 0, 0), (2, 0, 0), (5, 0, 0)]), ((0, 0, 0, 1), [(1, 1, 0), (2, 1, 0), (3, 1, 0), (6, 1, 0)]),
                   ((1, 2, 3, 0), [(0, 0, 0), (1, 0, 0), (3, 0, 0), (4, 0, 0)]), ((1, 1, 0, 0), [(0, 0, 1), (0, 1, 1), (0, 3, 1), (0, 4, 1)]),
                   ((0, 0, 1, 0), [(1, 0, 0), (2, 0, 0), (4, 0, 0), (5, 0, 0)])):
        mkl = lambda k, f, V=V, pts=pts: [g.Line(np.asarray(l.array) * (f if i == k else 1)) for i, l in
                                         enumerate(g.Line(g.Point(np.array(V)), g.Point(*p)) for p in pts)]  # noqa: E731
        for k in range(4):
            for f in FACT:
                checks.append((f"crossratio(line3 pencil, vertex {V})", f,
                               lambda k=k, f=f, mkl=mkl: (np.array([g.crossratio(*mkl(k, f)), 1.0]), np.array([g.crossratio(*mkl(k, 1)), 1.0]))))
    # conic constructors: one argument at a time rescaled (two conics pass through four points and touch a line: which of them
    # is returned must not depend on the representatives); configurations in general position and with a side or diagonal of
    # the quadrangle parallel to the tangent (an auxiliary point of the construction at infinity)
    TANG = [((1, 2, -9), [(0, 0), (3, 1), (4, 3), (1, 2)]), ((0, 1, -1), [(-1.5, 0.5), (0, -1), (1.5, 0.5), (1.5, -0.5)]),
            ((2, -1, 7), [(1, 1), (4, 0), (5, 3), (2, 5)]), ((1, 0, -5), [(0, 0), (0, 2), (3, 3), (2, -1)]),
            ((1, 1, -10), [(0, 0), (2, -2), (4, 1), (1, 3)])]
    for tl, pts in TANG:
        def ft(k, f, tl=tl, pts=pts):
            hp = [np.array(list(p) + [1.0]) * (f if i + 1 == k else 1) for i, p in enumerate(pts)]
            return g.Conic.from_tangent(g.Line(np.array(tl, dtype=float) * (f if k == 0 else 1)), *[g.Point(h) for h in hp]).array
        for k in range(5):
            for f in FACT:
                checks.append((f"Conic.from_tangent(tangent {tl}, {pts})/argument-{k}", f, lambda k=k, f=f, ft=ft: (ft(k, f), ft(k, 1))))
    FIVE = [[(0, 0), (3, 1), (4, 3), (1, 2), (-1, 1)], [(1, 0), (0, 1), (-1, 0), (0, -1), (2, 2)], [(0, 0), (1, 1), (2, 4), (3, 9), (-1, 3)]]
    for pts in FIVE:
        def f5(k, f, pts=pts):
            return g.Conic.from_points(*[g.Point(np.array(list(p) + [1.0]) * (f if i == k else 1)) for i, p in enumerate(pts)]).array
        def fc(k, f, pts=pts):
            return g.Conic.from_crossratio(0.3, *[g.Point(np.array(list(p) + [1.0]) * (f if i == k else 1)) for i, p in enumerate(pts[:4])]).array
        for k in range(5):
            for f in FACT:
                checks.append((f"Conic.from_points({pts})/argument-{k}", f, lambda k=k, f=f, f5=f5: (f5(k, f), f5(k, 1))))
                if k < 4:
                    checks.append((f"Conic.from_crossratio({pts[:4]})/argument-{k}", f, lambda k=k, f=f, fc=fc: (fc(k, f), fc(k, 1))))
    for f1, f2, b in (((0, 0), (4, 0), (2, 3)), ((1, 1), (3, 5), (0, 4)), ((-2, 1), (2, 1), (0, 1.5))):
        def ff(k, f, f1=f1, f2=f2, b=b):
            return g.Conic.from_foci(*[g.Point(np.array(list(p) + [1.0]) * (f if i == k else 1)) for i, p in enumerate((f1, f2, b))]).array
        for k in range(3):
            for f in FACT:
                checks.append((f"Conic.from_foci({f1}, {f2}, {b})/argument-{k}", f, lambda k=k, f=f, ff=ff: (ff(k, f), ff(k, 1))))
    for name, f, fn in checks:
        n_cases += 1
        stratum = "integer-representative" if "integer-representative" in name else ("complex-factor" if isinstance(f, complex) else "negative-factor" if f < 0 else "positive-factor")
        ctx.count(stratum)
        try:
            a, b = fn()
            ok = same_class(np.asarray(a).reshape(-1), np.asarray(b).reshape(-1))
            obs = np.asarray(a).tolist()
        except Exception as e:  # noqa: BLE001
            ok, obs = False, f"raised {type(e).__name__}: {e}"
        if not ok:
            ctx.mismatch(name, stratum, {"factor": str(f)}, "the same object as for the unscaled representative", str(obs)[:300])
    ctx.cov["traces_validated_against_impl"] += n_cases
    ctx.sample({"op": recs[0]["op"], "args": recs[0]["a"], "answer": recs[0]["ans"], "factors": list(FACT)})
    ctx.log(f"{len(recs)} configurations, {n_cases} scaled cases")
    # ---- the whole operation table of harness/optable.py under rescaled workspaces (harness/tableinv.py)
    from multiprocessing import Pool

    from .. import tableinv
    from ..optable import OPS

    nops = len(OPS())
    idx = list(range(nops))
    with Pool(16) as pool:
        results = pool.map(tableinv.work, [idx[i::32] for i in range(32)], chunksize=1)
    ncmp = 0
    for res in results:
        for m in res:
            if m["site"] == "__count__":
                ncmp += m["n"]
                continue
            ctx.mismatch(m["site"], m["stratum"], m["case"], m["expected"], m["observed"])
    if ncmp < 1000:
        raise MachineryError(f"only {ncmp} comparisons over the operation table (vacuous)")
    ctx.count("operation-table", ncmp)
    ctx.cov["traces_validated_against_impl"] += ncmp
    ctx.log(f"operation table: {nops} operations ({len(tableinv.EXCLUDED)} left out by design), {ncmp} comparisons under rescaled workspaces")
