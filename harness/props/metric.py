"""C09: dist and angle against C09_Metric.tla."""
from __future__ import annotations

import math
from multiprocessing import Pool

import numpy as np

from ..abstraction import TOL, same_class
from ..core import Ctx, MachineryError, S, cfg_text, import_geometer, read_dump

RULE = ("cases = all pairs/triples of the lattice configurations TLC enumerates for every supported kind combination "
        "(point-point incl. one at infinity, point-line/plane, point-3D line, point-segment with clamping, parallel plane-plane "
        "and plane-line, planar angles of three points and of two lines, 3D angles of three points and two planes); "
        "non-trivial = coincident / incident / one-at-infinity / proportional-vectors / clamped / right or zero angle")
INVS = ["DistLaws", "PointHyperLaws", "SegLaws", "AngleLaws", "AngleDirectionLaws", "DistInvariant"]


def d2_ok(obs, d2):
    n, d = d2
    obs = np.asarray(obs, dtype=float)
    if d == 0:
        return bool(np.all(np.isinf(obs)))
    exp = n / d
    return bool(np.all(np.isfinite(obs)) and np.all(np.abs(obs ** 2 - exp) <= TOL * max(1.0, exp)))


def cls_ok(theta, cs):
    theta = float(np.real(theta))
    if not math.isfinite(theta):
        return False
    return same_class([math.cos(theta), math.sin(theta)], cs)


def cos2_ok(theta, c2):
    theta = float(np.real(theta))
    if not math.isfinite(theta):
        return False
    return abs(math.cos(theta) ** 2 - c2[0] / c2[1]) <= TOL


def replay(recs):
    g = import_geometer()
    out = []
    P = lambda v: g.Point(np.array(v))  # noqa: E731

    def hyper(h):
        return g.Line(np.array(h)) if len(h) == 3 else g.Plane(np.array(h))

    def check(site, stratum, case, exp, fn, ok):
        try:
            with np.errstate(all="ignore"):
                val = fn()
            good = ok(val)
        except Exception as e:  # noqa: BLE001
            val, good = f"raised {type(e).__name__}: {e}", False
        if not good:
            out.append(dict(site=site, stratum=stratum, case=case, expected=exp,
                            observed=(val if isinstance(val, str) else np.asarray(val).tolist())))

    def pair(r):
        """the two operands of a distance record (None when the record has no plain pair)"""
        t = r["t"]
        if t == "pp":
            return len(r["a"]) - 1, P(r["a"]), P(r["b"])
        if t == "ph":
            return len(r["p"]) - 1, hyper(r["h"]), P(r["p"])
        if t == "pl3":
            return 3, g.Line(P(r["a"]), P(r["b"])), P(r["p"])
        if t == "pseg":
            return len(r["p"]) - 1, g.Segment(P(r["a"]), P(r["b"])), P(r["p"])
        if t == "parplane":
            return 3, hyper(r["h"]), hyper(r["g"])
        if t == "parline":
            return 3, hyper(r["h"]), g.Line(P(r["a"]), P(r["b"]))
        if t == "ppoly":
            return r["d"], g.Polygon(*[g.Point(*v) for v in r["poly"]]), P(r["p"])
        return None

    def moved(r, st):
        """dist is invariant under isometries: the operands are used once (so that whatever they cache is filled), then moved
        by a translation (as a transformation and as + point) and by a quarter turn, and measured again, in both orders"""
        pr = pair(r)
        if pr is None or r["d2"][1] == 0:
            return
        dim, x, y = pr
        if any(bool(np.any(o.isinf)) for o in (x, y) if hasattr(o, "isinf") and o.tensor_shape == (0, 1)):
            return
        v = [3, -2] if dim == 2 else [3, -2, 5]
        rot = np.array([[0, -1, 0], [1, 0, 0], [0, 0, 1]]) if dim == 2 else np.array([[0, -1, 0, 0], [1, 0, 0, 0], [0, 0, 1, 0], [0, 0, 0, 1]])
        motions = [("translation", lambda o: g.translation(*v) * o), ("+point", lambda o: o + g.Point(*v)),
                   ("quarter-turn", lambda o: g.Transformation(rot) * o)]
        case = {k: r[k] for k in r if k not in ("t", "d2", "inside", "len2")}
        for name, mv in motions:
            check(f"dist/{r['t']}/{dim}D/after-{name}", st, {**case, "moved by": name}, {"dist^2": r["d2"]},
                  lambda: (g.dist(x, y), g.dist(mv(x), mv(y)))[1], lambda val: d2_ok(val, r["d2"]))
            check(f"dist/{r['t']}/{dim}D/after-{name}/swapped", st, {**case, "moved by": name}, {"dist^2": r["d2"]},
                  lambda: (g.dist(y, x), g.dist(mv(y), mv(x)))[1], lambda val: d2_ok(val, r["d2"]))

    for d in recs:
        r, st = d["r"], d["s"]
        t = r["t"]
        if (d.get("_n", 0) % 3) == 0:
            moved(r, st)
        if t == "pp":
            dim = len(r["a"]) - 1
            a, b = P(r["a"]), P(r["b"])
            case = {"a": r["a"], "b": r["b"]}
            exp = {"dist^2": r["d2"]}
            check(f"dist(point,point)/{dim}D", st, case, exp, lambda: g.dist(a, b), lambda v: d2_ok(v, r["d2"]))
            check(f"dist(point,point)/{dim}D/swapped", st, case, exp, lambda: g.dist(b, a), lambda v: d2_ok(v, r["d2"]))
            if r["a"][-1] > 0 and r["b"][-1] > 0 and (sum(r["a"]) + 2 * sum(r["b"])) % 4 == 0:
                # the same pair shifted into the positive octant (a translation) and stored in narrow / unsigned types
                sa = [x + 4 * r["a"][-1] for x in r["a"][:-1]] + [r["a"][-1]]
                sb = [x + 4 * r["b"][-1] for x in r["b"][:-1]] + [r["b"][-1]]
                if min(sa) >= 0 and min(sb) >= 0:
                    for dt in (np.uint8, np.uint16, np.uint64, np.int8, np.int16, np.float32):
                        pa, pb = g.Point(np.array(sa, dtype=dt)), g.Point(np.array(sb, dtype=dt))
                        check(f"dist(point,point)/{dim}D/coordinates-stored-as-{np.dtype(dt).name}", st, {"a": sa, "b": sb}, exp,
                              lambda pa=pa, pb=pb: (g.dist(pa, pb), g.dist(pb, pa)), lambda v: d2_ok(v[0], r["d2"]) and d2_ok(v[1], r["d2"]))
        elif t == "ph":
            dim = len(r["p"]) - 1
            h, p = hyper(r["h"]), P(r["p"])
            k = "line" if dim == 2 else "plane"
            case = {"h": r["h"], "p": r["p"]}
            exp = {"dist^2": r["d2"]}
            check(f"dist({k},point)", st, case, exp, lambda: g.dist(h, p), lambda v: d2_ok(v, r["d2"]))
            check(f"dist(point,{k})", st, case, exp, lambda: g.dist(p, h), lambda v: d2_ok(v, r["d2"]))
        elif t == "pl3":
            case = {"a": r["a"], "b": r["b"], "p": r["p"]}
            exp = {"dist^2": r["d2"]}
            check("dist(line3,point)", st, case, exp, lambda: g.dist(g.Line(P(r["a"]), P(r["b"])), P(r["p"])), lambda v: d2_ok(v, r["d2"]))
            check("dist(point,line3)", st, case, exp, lambda: g.dist(P(r["p"]), g.Line(P(r["a"]), P(r["b"]))), lambda v: d2_ok(v, r["d2"]))
        elif t == "pseg":
            dim = len(r["p"]) - 1
            case = {"a": r["a"], "b": r["b"], "p": r["p"]}
            exp = {"dist^2": r["d2"]}
            check(f"dist(segment,point)/{dim}D", st, case, exp, lambda: g.dist(g.Segment(P(r["a"]), P(r["b"])), P(r["p"])), lambda v: d2_ok(v, r["d2"]))
            check(f"dist(point,segment)/{dim}D", st, case, exp, lambda: g.dist(P(r["p"]), g.Segment(P(r["a"]), P(r["b"]))), lambda v: d2_ok(v, r["d2"]))
            # other homogeneous representatives of the end points (opposite signs, as meet() returns them about half the time)
            mixed = lambda: g.Segment(np.array([np.array(r["a"]) * -1, np.array(r["b"]) * 2]))  # noqa: E731
            check(f"dist(segment,point)/{dim}D/mixed-sign-representatives", st, case, exp, lambda: g.dist(mixed(), P(r["p"])), lambda v: d2_ok(v, r["d2"]))
            check(f"dist(point,segment)/{dim}D/mixed-sign-representatives", st, case, exp, lambda: g.dist(g.Point(np.array(r["p"]) * -3), mixed()), lambda v: d2_ok(v, r["d2"]))
            check(f"Segment.length/{dim}D", "general", case, {"length^2": r["len2"]}, lambda: g.Segment(P(r["a"]), P(r["b"])).length, lambda v: d2_ok(v, r["len2"]))
        elif t == "parplane":
            case = {"h": r["h"], "g": r["g"]}
            check("dist(plane,plane)", st, case, {"dist^2": r["d2"]}, lambda: g.dist(hyper(r["h"]), hyper(r["g"])), lambda v: d2_ok(v, r["d2"]))
        elif t == "parline":
            case = {"h": r["h"], "a": r["a"], "b": r["b"]}
            exp = {"dist^2": r["d2"]}
            check("dist(plane,line3)", st, case, exp, lambda: g.dist(hyper(r["h"]), g.Line(P(r["a"]), P(r["b"]))), lambda v: d2_ok(v, r["d2"]))
            check("dist(line3,plane)", st, case, exp, lambda: g.dist(g.Line(P(r["a"]), P(r["b"])), hyper(r["h"])), lambda v: d2_ok(v, r["d2"]))
        elif t == "ppoly":
            dim = r["d"]
            case = {"poly": r["poly"], "p": r["p"]}
            exp = {"dist^2": r["d2"]}
            mk = lambda: g.Polygon(*[g.Point(*v) for v in r["poly"]])  # noqa: E731
            check(f"dist(polygon,point)/{dim}D", st, case, exp, lambda: g.dist(mk(), P(r["p"])), lambda v: d2_ok(v, r["d2"]))
            check(f"dist(point,polygon)/{dim}D", st, case, exp, lambda: g.dist(P(r["p"]), mk()), lambda v: d2_ok(v, r["d2"]))
            fac = [1, -1, 2, -3, 1, -2]
            mkm = lambda: g.Polygon(np.array([[f * c for c in list(v) + [1]] for v, f in zip(r["poly"], fac)]))  # noqa: E731
            check(f"dist(polygon,point)/{dim}D/mixed-sign-representatives", st, case, exp, lambda: g.dist(mkm(), P(r["p"])), lambda v: d2_ok(v, r["d2"]))
        elif t == "ppolyh":
            c = r["corner"]
            case = {"cuboid": [[0, 0, 0], c], "p": r["p"]}
            mk = lambda: g.Cuboid(g.Point(0, 0, 0), g.Point(c[0], 0, 0), g.Point(0, c[1], 0), g.Point(0, 0, c[2]))  # noqa: E731
            check("dist(polyhedron,point)", st, case, {"dist^2": r["d2"]}, lambda: g.dist(mk(), P(r["p"])), lambda v: d2_ok(v, r["d2"]))
            check("dist(point,polyhedron)", st, case, {"dist^2": r["d2"]}, lambda: g.dist(P(r["p"]), mk()), lambda v: d2_ok(v, r["d2"]))
        elif t == "ang2":
            case = {"a": r["a"], "b": r["b"], "c": r["c"]}
            check("angle(point,point,point)/2D", st, case, {"[cos:sin]": r["cs"]}, lambda: g.angle(P(r["a"]), P(r["b"]), P(r["c"])), lambda v: cls_ok(v, r["cs"]))
        elif t == "angl2":
            case = {"l": r["l"], "m": r["m"]}
            check("angle(line,line)/2D", st, case, {"[cos:sin]": r["cs"]}, lambda: g.angle(hyper(r["l"]), hyper(r["m"])), lambda v: cls_ok(v, r["cs"]))
        elif t == "angld2":
            case = {"l": r["l"], "direction": r["d"]}
            rev = [r["cs"][0], -r["cs"][1]]
            check("angle(line,direction)/2D", st, case, {"[cos:sin]": r["cs"]}, lambda: g.angle(hyper(r["l"]), P(r["d"])), lambda v: cls_ok(v, r["cs"]))
            check("angle(direction,line)/2D", st, case, {"[cos:sin]": rev}, lambda: g.angle(P(r["d"]), hyper(r["l"])), lambda v: cls_ok(v, rev))
            check("angle(direction,line)/2D/scaled-representatives", st, case, {"[cos:sin]": rev},
                  lambda: g.angle(g.Point(np.array(r["d"]) * -2), g.Line(np.array(r["l"]) * 3)), lambda v: cls_ok(v, rev))
            lc, dc = g.LineCollection(np.array([r["l"], r["l"]])), g.PointCollection(np.array([r["d"], r["d"]]))
            check("angle(DirectionCollection,LineCollection)/2D", st, case, {"[cos:sin]": rev}, lambda: np.asarray(g.angle(dc, lc))[1], lambda v: cls_ok(v, rev))
            check("angle(LineCollection,direction)/2D", st, case, {"[cos:sin]": r["cs"]}, lambda: np.asarray(g.angle(lc, P(r["d"])))[0], lambda v: cls_ok(v, r["cs"]))
        elif t == "ang3":
            case = {"a": r["a"], "b": r["b"], "c": r["c"]}
            check("angle(point,point,point)/3D", st, case, {"cos^2": r["cos2"]}, lambda: g.angle(P(r["a"]), P(r["b"]), P(r["c"])), lambda v: cos2_ok(v, r["cos2"]))
        elif t == "angp3":
            case = {"h": r["h"], "g": r["g"]}
            check("angle(plane,plane)", st, case, {"cos^2": r["cos2"]}, lambda: g.angle(hyper(r["h"]), hyper(r["g"])), lambda v: cos2_ok(v, r["cos2"]))
    return out


def replay_coll(job):
    """the same cases through collections (one call for many positions)"""
    g = import_geometer()
    kind, recs = job
    out = []
    try:
        with np.errstate(all="ignore"):
            if kind == "pp":
                a = g.PointCollection(np.array([r["r"]["a"] for r in recs]))
                b = g.PointCollection(np.array([r["r"]["b"] for r in recs]))
                val = np.asarray(g.dist(a, b))
            elif kind == "ph":
                dim = len(recs[0]["r"]["p"]) - 1
                hs = np.array([r["r"]["h"] for r in recs])
                h = g.LineCollection(hs) if dim == 2 else g.PlaneCollection(hs)
                p = g.PointCollection(np.array([r["r"]["p"] for r in recs]))
                val = np.asarray(g.dist(h, p))
            elif kind == "parline-obj":
                # one plane against the LineCollection of all the lattice lines parallel to it (lines through the origin, parallel
                # to an axis, in general position mixed), in both argument orders
                P = lambda v: g.Point(np.array(v))  # noqa: E731
                plane = g.Plane(np.array(recs[0]["r"]["h"]))
                lines = g.join(g.PointCollection(np.array([r["r"]["a"] for r in recs])), g.PointCollection(np.array([r["r"]["b"] for r in recs])))
                val = np.asarray(g.dist(plane, lines))
                val2 = np.asarray(g.dist(lines, plane))
                if val2.shape != val.shape or not np.allclose(val, val2, atol=1e-9, equal_nan=True):
                    out.append(dict(site=f"{kind}/collection", stratum="general", case={"count": len(recs)},
                                    expected="dist(a, b) = dist(b, a)", observed={"ab": val.tolist()[:8], "ba": val2.tolist()[:8]}))
            elif kind in ("ppoly-obj", "ppolyh-obj", "pseg-obj"):
                # one polytope, all of its query points in one PointCollection (incident and non-incident positions mixed)
                r0 = recs[0]["r"]
                P = lambda v: g.Point(np.array(v))  # noqa: E731
                if kind == "ppoly-obj":
                    obj = g.Polygon(*[g.Point(*v) for v in r0["poly"]])
                elif kind == "ppolyh-obj":
                    c = r0["corner"]
                    obj = g.Cuboid(g.Point(0, 0, 0), g.Point(c[0], 0, 0), g.Point(0, c[1], 0), g.Point(0, 0, c[2]))
                else:
                    obj = g.Segment(P(r0["a"]), P(r0["b"]))
                pts = g.PointCollection(np.array([r["r"]["p"] for r in recs]))
                val = np.asarray(g.dist(obj, pts))
                val2 = np.asarray(g.dist(pts, obj))
                if val2.shape != val.shape or not np.allclose(val, val2, atol=1e-9, equal_nan=True):
                    out.append(dict(site=f"{kind}/collection", stratum="general", case={"count": len(recs)},
                                    expected="dist(a, b) = dist(b, a)", observed={"ab": val.tolist()[:8], "ba": val2.tolist()[:8]}))
            elif kind == "ang2":
                a = g.PointCollection(np.array([r["r"]["a"] for r in recs]))
                b = g.PointCollection(np.array([r["r"]["b"] for r in recs]))
                c = g.PointCollection(np.array([r["r"]["c"] for r in recs]))
                val = np.asarray(g.angle(a, b, c))
        if val.shape != (len(recs),):
            raise ValueError(f"result shape {val.shape}")
        # the same collections arranged with two collection axes (2 x n/2): the same values, position by position
        n2 = (len(recs) // 2) * 2
        if n2 >= 4:
            def grid(c):
                arr = np.asarray(c.array)[:n2]
                return type(c)(arr.reshape((2, n2 // 2) + arr.shape[1:]))
            with np.errstate(all="ignore"):
                if kind == "pp":
                    gv = np.asarray(g.dist(grid(a), grid(b)))
                elif kind == "ph":
                    gv = np.asarray(g.dist(grid(h), grid(p)))
                elif kind == "ang2":
                    gv = np.asarray(g.angle(grid(a), grid(b), grid(c)))
                elif kind == "parline-obj":
                    gv = np.asarray(g.dist(plane, grid(lines)))
                else:
                    gv = np.asarray(g.dist(obj, grid(pts)))
            if gv.shape != (2, n2 // 2) or not np.allclose(gv.reshape(-1), val[:n2], atol=1e-9, equal_nan=True):
                out.append(dict(site=f"{kind}/collection/two-axes", stratum="general", case={"count": n2}, expected="the values of the one-axis collection, arranged 2 x n/2",
                                observed={"shape": list(gv.shape), "first": np.asarray(gv).reshape(-1)[:6].tolist(), "one-axis": val[:6].tolist()}))
        for i, r in enumerate(recs):
            ok = cls_ok(val[i], r["r"]["cs"]) if kind == "ang2" else d2_ok(val[i], r["r"]["d2"])
            if not ok:
                out.append(dict(site=f"{kind}/collection", stratum=r["s"], case={k: v for k, v in r["r"].items() if k != "t"},
                                expected="as for the single objects", observed=np.asarray(val[i]).tolist()))
    except Exception as e:  # noqa: BLE001
        # p == q short cut of dist(): a collection call with ALL positions equal returns zeros: handled by strata
        out.append(dict(site=f"{kind}/collection", stratum="general", case={"count": len(recs)}, expected="values",
                        observed=f"raised {type(e).__name__}: {e}"))
    return out


def _work(job):
    try:
        if job[0] == "single":
            return replay(job[1])
        return replay_coll(job)
    except Exception:  # noqa: BLE001
        import traceback

        return [dict(site="harness", stratum="machinery", case="", expected="", observed=traceback.format_exc())]


TIER = {"quick": dict(stride=3), "thorough": dict(stride=1)}
TASKS = ["ppoly2", "ppoly3", "ppolyh", "pp2", "pp3", "ph2", "ph3", "pl3", "pseg2", "pseg3", "par3", "ang2", "angl2", "angld2", "ang3", "angp3"]


def run(ctx: Ctx):
    t = TIER[ctx.tier]
    cfg = cfg_text(constants={"Tasks": {S(x) for x in TASKS}, "Stride": t["stride"], "Seed": ctx.seed % 97, "DoDump": True},
                   invariants=INVS, constraints=["Dump"])
    r = ctx.tlc("C09_Metric", cfg, dump=True)
    recs = list(read_dump(r["dump"]))
    strata = {}
    for x in recs:
        strata[(x["r"]["t"], x["s"])] = strata.get((x["r"]["t"], x["s"]), 0) + 1
    for need in [("pp", "coincident"), ("pp", "one-at-infinity"), ("ph", "proportional-vectors"), ("ph", "incident"),
                 ("pseg", "clamped"), ("pseg", "foot-inside"), ("parplane", "parallel"), ("parline", "parallel"),
                 ("ang2", "right-angle"), ("angl2", "general"), ("angld2", "general"), ("angld2", "right-angle"), ("angld2", "zero-angle"), ("ang3", "general"), ("angp3", "general"), ("pl3", "general"),
                 ("ppoly", "incident"), ("ppoly", "foot-inside"), ("ppoly", "nearest-edge"), ("ppolyh", "general")]:
        if not strata.get(need):
            raise MachineryError(f"stratum {need} never visited (vacuous)")
    ctx.log(f"{len(recs)} cases")
    for i, x in enumerate(recs):
        x["_n"] = 0 if x["r"]["t"] in ("parplane", "parline") else i
    jobs = [("single", recs[i:i + 400]) for i in range(0, len(recs), 400)]
    for kind in ("pp", "ph", "ang2"):
        for dim in (2, 3):
            sel = [x for x in recs if x["r"]["t"] == kind and len(x["r"].get("a", x["r"].get("p"))) == dim + 1]
            for i in range(0, len(sel), 300):
                if sel[i:i + 300]:
                    jobs.append((kind, sel[i:i + 300]))
    # one polytope against a PointCollection of all its query points
    byobj: dict = {}
    for x in recs:
        r_ = x["r"]
        if r_["t"] == "ppoly":
            byobj.setdefault(("ppoly-obj", str(r_["poly"])), []).append(x)
        elif r_["t"] == "ppolyh":
            byobj.setdefault(("ppolyh-obj", str(r_["corner"])), []).append(x)
        elif r_["t"] == "pseg":
            byobj.setdefault(("pseg-obj", str((r_["a"], r_["b"]))), []).append(x)
        elif r_["t"] == "parline":
            byobj.setdefault(("parline-obj", str(r_["h"])), []).append(x)
    ncollobj = 0
    for (kind, _), sel in sorted(byobj.items()):
        if len(sel) >= 2:
            jobs.append((kind, sel))
            ncollobj += 1
    if ncollobj < 10:
        raise MachineryError("too few polytope x PointCollection groups (vacuous)")
    with Pool(16) as pool:
        results = pool.map(_work, jobs, chunksize=1)
    for res in results:
        for m in res:
            if m["stratum"] == "machinery":
                raise MachineryError(m["observed"])
            ctx.mismatch(m["site"], m["stratum"], m["case"], m["expected"], m["observed"])
    for x in recs:
        ctx.count(x["s"])
        if x["s"] != "general":
            ctx.nontrivial(str(x["r"]))
    ctx.cov["traces_validated_against_impl"] += len(recs)
    ctx.sample(recs[0]["r"])
    ctx.sample(recs[-1]["r"])
    # ---- code -> spec: recorded calls on larger coordinates, validated by TLC against Trace_Ops.tla
    from ..optrace import run_optrace

    run_optrace(ctx, ['dist2_pp', 'dist2_ph'])
