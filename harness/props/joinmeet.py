"""C01 / C02: replay of the TLC-enumerated join/meet configurations into geometer, and validation of
recorded geometer traces by TLC."""
from __future__ import annotations

import itertools
import json
import random
from multiprocessing import Pool

import numpy as np

from ..abstraction import coords_of, kind_of, project_class, same_class, same_class_many
from ..core import Ctx, MachineryError, S, cfg_text, import_geometer, read_dump
from ..geom import build, build_coll

FAMS = {
    "j2pp": ("join", 2, ("point", "point")),
    "m2ll": ("meet", 2, ("line", "line")),
    "j3pp": ("join", 3, ("point", "point")),
    "j3ppp": ("join", 3, ("point", "point", "point")),
    "j3pl": ("join", 3, ("point", "line3")),
    "j3lp": ("join", 3, ("line3", "point")),
    "j3ll": ("join", 3, ("line3", "line3")),
    "m3ee": ("meet", 3, ("plane", "plane")),
    "m3eee": ("meet", 3, ("plane", "plane", "plane")),
    "m3el": ("meet", 3, ("plane", "line3")),
    "m3le": ("meet", 3, ("line3", "plane")),
    "m3ll": ("meet", 3, ("line3", "line3")),
}
INVS = ["ResultIncident", "ResultUnique", "ErrIffDependent", "NotCoplanarIffSkew", "OrderIndependent",
        "LinesAreLines", "RoundTrip"]

SHAPES = [(5,), (2, 3), (1, 4), (3, 1), (7,), (2, 2, 2), (64,), (1,)]


def err_name(exc) -> str:
    import geometer.exceptions as ge

    if isinstance(exc, ge.LinearDependenceError):
        return "LinearDependence"
    if isinstance(exc, ge.NotCoplanar):
        return "NotCoplanar"
    return type(exc).__name__


def _call(op, objs):
    g = import_geometer()
    f = g.join if op == "join" else g.meet
    try:
        return "ok", f(*objs)
    except Exception as e:  # noqa: BLE001
        return "exc", e


def _check_value(res, exp_kind, exp_vec):
    """None if res is the expected class, else a description."""
    k = kind_of(res)
    if k != exp_kind:
        return f"kind {k} != {exp_kind}"
    if res.free_indices != 0:
        return f"expected a single object, got free_indices={res.free_indices}"
    c = coords_of(res)
    if not same_class(c, exp_vec):
        return {"coords": np.asarray(c).tolist()}
    return None


def _contains_all(res, objs, op):
    """SubspaceTensor.contains between result and each argument (C01 observes it)."""
    bad = []
    import geometer.point as gp

    for i, a in enumerate(objs):
        try:
            if isinstance(res, gp.SubspaceTensor) and isinstance(a, (gp.PointTensor, gp.LineTensor)) \
                    and not (isinstance(res, gp.LineTensor) and isinstance(a, gp.LineTensor)):
                ok = res.contains(a)
            elif isinstance(a, gp.SubspaceTensor) and isinstance(res, (gp.PointTensor, gp.LineTensor)) \
                    and not (isinstance(res, gp.LineTensor) and isinstance(a, gp.LineTensor)):
                ok = a.contains(res)
            else:
                continue
            if not np.all(ok):
                bad.append((i, np.asarray(ok).tolist()))
        except Exception as e:  # noqa: BLE001
            bad.append((i, f"contains raised {type(e).__name__}: {e}"))
    return bad


FAR_B = {2: 10 ** 8, 3: 4 * 10 ** 5}


def far_cases(fam, cases, B=None, dtype=np.int64, tag="far-from-origin"):
    """(with B and dtype given: the configuration translated by (B, .., B) and stored in a narrower / unsigned dtype; cases with a
    negative entry are skipped for unsigned dtypes.)
    The configuration translated far from the origin by the integer vector (B, .., B) (exact on integers: points
    (x, w) -> (x + B w, w), hyperplanes (n, d) -> (n, d - B sum(n)); join and meet commute with it).  The products inside
    join / meet then exceed 2^53 but not 2^63: on integer coordinates the result must still be EXACTLY proportional to the
    translated exact result (checked with rational arithmetic on the returned floats, which are the exact integers times a
    power of two)."""
    from fractions import Fraction
    op, dim, kinds = FAMS[fam]
    g = import_geometer()
    B = FAR_B[dim] if B is None else B
    out = []
    unsigned = np.issubdtype(dtype, np.unsignedinteger)

    def tr(kind, v):
        v = [int(x) for x in v]
        if kind == "point":
            return v[:-1] and [x + B * v[-1] for x in v[:-1]] + [v[-1]]
        return v[:-1] + [v[-1] - B * sum(v[:-1])]

    for c in cases:
        if c["e"] != "none":
            continue
        if (any(k == "line3" for k in kinds) or c["k"] == "line3") and B != 0:
            continue        # the translation of Pluecker coordinates is not transcribed here
        args = [tr(k, v) for k, v in zip(kinds, c["a"])]
        if unsigned:        # the representative with the opposite sign is as good
            args = [[-x for x in v] if all(x <= 0 for x in v) else v for v in args]
            if any(x < 0 for v in args for x in v):
                continue
        exp = tr(c["k"], c["v"])
        site = f"{op}({','.join(kinds)})/{dim}D/single/{tag}"
        try:
            objs = [build(k, np.array(v, dtype=dtype)) for k, v in zip(kinds, args)]
            st, res = _call(op, objs)
            if st == "exc":
                out.append(dict(cls="raise-on-independent", site=site, stratum=c["s"], case={"args": args}, expected={"k": c["k"], "v": exp},
                                observed=f"raised {err_name(res)}: {res}"))
                continue
            got = [Fraction(float(x)) for x in np.asarray(coords_of(res)).real.reshape(-1)]
            ok = kind_of(res) == c["k"] and len(got) == len(exp) and any(got) and \
                all(got[i] * exp[j] == got[j] * exp[i] for i in range(len(exp)) for j in range(i + 1, len(exp)))
            if not ok:
                out.append(dict(cls="value", site=site, stratum=c["s"], case={"args": args}, expected={"k": c["k"], "v": exp},
                                observed={"coords": [float(x) for x in got]}))
        except Exception as e:  # noqa: BLE001
            out.append(dict(cls="value", site=site, stratum=c["s"], case={"args": args}, expected={"k": c["k"], "v": exp},
                            observed=f"raised {type(e).__name__}: {e}"))
    return out


def single_cases(fam, cases, variants=("fn",)):
    """Each case through the single-object API. Returns mismatch dicts."""
    op, dim, kinds = FAMS[fam]
    g = import_geometer()
    out = []
    for c in cases:
        for variant in variants:
            try:
                objs = [build(k, v, via=("points" if variant == "lines-from-points" else "array"))
                        for k, v in zip(kinds, c["a"])]
            except Exception as e:  # building a line through join may itself raise: not this case's business
                continue
            if variant == "same-object":
                # the identical Python object passed twice (coincident arguments by construction)
                if not (kinds[0] == kinds[1] and c["a"][0] == c["a"][1]):
                    continue
                objs = [objs[0], objs[0]] + objs[2:]
                st, res = _call(op, objs)
            elif variant in ("fn", "lines-from-points"):
                st, res = _call(op, objs)
            elif variant == "method":
                if op == "meet" and len(objs) != 2:
                    continue        # SubspaceTensor.meet takes exactly one other subspace
                try:
                    st, res = "ok", (objs[0].join(*objs[1:]) if op == "join" else objs[0].meet(*objs[1:]))
                except Exception as e:  # noqa: BLE001
                    st, res = "exc", e
            elif variant == "ctor":
                try:
                    if fam in ("j2pp", "j3pp"):
                        res = g.Line(*objs)
                    elif fam in ("j3ppp", "j3pl", "j3lp"):
                        res = g.Plane(*objs)
                    else:
                        continue
                    st = "ok"
                except Exception as e:  # noqa: BLE001
                    st, res = "exc", e
            site = f"{op}({','.join(kinds)})/{dim}D/single/{variant}"
            if c["e"] == "none":
                if st == "exc":
                    out.append(dict(cls="raise-on-independent", site=site, stratum=c["s"], case=c,
                                    expected={"k": c["k"], "v": c["v"]},
                                    observed=f"raised {err_name(res)}: {res}"))
                    continue
                d = _check_value(res, c["k"], c["v"])
                if d is not None:
                    out.append(dict(cls="value", site=site, stratum=c["s"], case=c,
                                    expected={"k": c["k"], "v": c["v"]}, observed=d))
                    continue
                bad = _contains_all(res, objs, op)
                if bad:
                    out.append(dict(cls="value", site=site + "/contains", stratum=c["s"], case=c,
                                    expected="result incident with every argument", observed=bad))
            else:
                if st == "ok":
                    out.append(dict(cls="silent", site=site, stratum=c["s"], case=c,
                                    expected={"err": c["e"]},
                                    observed={"returned": kind_of(res), "coords": np.asarray(coords_of(res)).tolist()}))
                elif err_name(res) != c["e"]:
                    out.append(dict(cls="error-class", site=site, stratum=c["s"], case=c,
                                    expected={"err": c["e"]}, observed=f"raised {err_name(res)}: {res}"))
                elif c["e"] == "LinearDependence" and not np.all(res.dependent_values):
                    out.append(dict(cls="mask", site=site, stratum=c["s"], case=c,
                                    expected={"mask": True}, observed={"mask": np.asarray(res.dependent_values).tolist()}))
    return out


def batch_cases(fam, cases, shape):
    """One collection call for len(cases) == prod(shape) cases.  Expected: if any position is skew ->
    NotCoplanar; else if any dependent -> LinearDependenceError with exactly that mask; else values."""
    op, dim, kinds = FAMS[fam]
    site = f"{op}({','.join(kinds)})/{dim}D/collection"
    out = []
    colls = [build_coll(k, [c["a"][i] for c in cases], shape) for i, k in enumerate(kinds)]
    st, res = _call(op, colls)
    errs = np.array([c["e"] for c in cases]).reshape(shape)
    skew = errs == "NotCoplanar"
    dep = errs == "LinearDependence"
    case_summary = {"f": fam, "shape": list(shape), "a": [c["a"] for c in cases], "e": errs.tolist()}
    if np.any(skew):
        if st == "ok" or err_name(res) != "NotCoplanar":
            out.append(dict(cls="error-class" if st == "exc" else "silent", site=site, stratum="skew",
                            case=case_summary, expected={"err": "NotCoplanar"},
                            observed=(f"raised {err_name(res)}" if st == "exc" else "returned")))
        return out
    if np.any(dep):
        strata = sorted({c["s"] for c in cases if c["e"] != "none"})
        if st == "ok":
            out.append(dict(cls="silent", site=site, stratum=strata[0], case=case_summary,
                            expected={"err": "LinearDependence", "mask": dep.tolist()}, observed="returned"))
        elif err_name(res) != "LinearDependence":
            out.append(dict(cls="error-class", site=site, stratum=strata[0], case=case_summary,
                            expected={"err": "LinearDependence"}, observed=f"raised {err_name(res)}: {res}"))
        else:
            m = np.asarray(res.dependent_values)
            if m.shape != dep.shape or not np.array_equal(m, dep):
                out.append(dict(cls="mask", site=site, stratum=strata[0], case=case_summary,
                                expected={"mask": dep.tolist()}, observed={"mask": m.tolist()}))
        return out
    # all independent: values
    if st == "exc":
        out.append(dict(cls="raise-on-independent", site=site, stratum="general", case=case_summary,
                        expected="a collection of results", observed=f"raised {err_name(res)}: {res}"))
        return out
    k = kind_of(res)
    expk = cases[0]["k"]
    if k != expk or tuple(res.shape[: res.free_indices]) != tuple(shape):
        out.append(dict(cls="value", site=site, stratum="general", case=case_summary,
                        expected={"k": expk, "shape": list(shape)},
                        observed={"k": k, "shape": list(res.shape), "free": res.free_indices}))
        return out
    c = np.asarray(coords_of(res))
    exp = np.array([cs["v"] for cs in cases]).reshape(tuple(shape) + (-1,))
    ok = same_class_many(c, exp)
    for idx in zip(*np.nonzero(~ok)):
        cs = cases[int(np.ravel_multi_index(idx, shape))]
        out.append(dict(cls="value", site=site, stratum=cs["s"], case={"pos": list(map(int, idx)), "shape": list(shape), **cs},
                        expected={"k": cs["k"], "v": cs["v"]}, observed={"coords": c[idx].tolist()}))
    if not out:
        bad = _contains_all(res, colls, op)
        if bad:
            out.append(dict(cls="value", site=site + "/contains", stratum="general", case=case_summary,
                            expected="result incident with every argument at every position", observed=bad))
    return out


def empty_case(fam):
    """A collection with no element has no dependent position: the call must not raise."""
    from ..abstraction import matrix_from_pluecker  # noqa: F401
    op, dim, kinds = FAMS[fam]
    g = import_geometer()
    out = []
    for shape in ((0,), (0, 2)):
        colls = []
        for k in kinds:
            if k == "line3":
                colls.append(g.LineCollection(np.zeros(shape + (4, 4))))
            elif k == "point":
                colls.append(g.PointCollection(np.zeros(shape + (dim + 1,))))
            elif k == "line":
                colls.append(g.LineCollection(np.zeros(shape + (3,))))
            else:
                colls.append(g.PlaneCollection(np.zeros(shape + (4,))))
        st, res = _call(op, colls)
        site = f"{op}({','.join(kinds)})/{dim}D/collection"
        if st == "exc":
            out.append(dict(cls="raise-on-independent", site=site, stratum="empty-collection",
                            case={"f": fam, "shape": list(shape)}, expected="an empty collection",
                            observed=f"raised {err_name(res)}: {res}"))
        elif tuple(res.shape[: len(shape)]) != shape:
            out.append(dict(cls="value", site=site, stratum="empty-collection", case={"f": fam, "shape": list(shape)},
                            expected={"shape": list(shape)}, observed={"shape": list(res.shape)}))
    return out


def roundtrip_cases(cases):
    """meet(join(p,q), join(p,r)) = p and join(meet(l,m), meet(l,n)) = l."""
    g = import_geometer()
    out = []
    for c in cases:
        f = c["f"]
        try:
            if f == "rt2mj":
                p, q, r = (build("point", v) for v in c["a"])
                res = g.meet(g.join(p, q), g.join(p, r))
            elif f == "rt2jm":
                l, m, n = (build("line", v) for v in c["a"])
                res = g.join(g.meet(l, m), g.meet(l, n))
            elif f == "rt3mj":
                p, q, r = (build("point", v) for v in c["a"])
                res = g.meet(g.join(p, q), g.join(p, r))
            elif f == "rt3jm":
                l = build("line3", c["a"][0])
                m, n = (build("plane", v) for v in c["a"][1:])
                res = g.join(g.meet(l, m), g.meet(l, n))
            else:
                continue
        except Exception as e:  # noqa: BLE001
            out.append(dict(cls="raise-on-independent", site=f"roundtrip/{f}", stratum=c["s"], case=c,
                            expected={"k": c["k"], "v": c["v"]}, observed=f"raised {err_name(e)}: {e}"))
            continue
        d = _check_value(res, c["k"], c["v"])
        if d is not None:
            out.append(dict(cls="value", site=f"roundtrip/{f}", stratum=c["s"], case=c,
                            expected={"k": c["k"], "v": c["v"]}, observed=d))
    return out


# ---------------------------------------------------------------------------------------------
# code -> spec: seeded random programs on a larger lattice, logged and validated by TLC
def pl6(a, b):
    return [a[i] * b[j] - a[j] * b[i] for i, j in [(0, 1), (0, 2), (0, 3), (1, 2), (1, 3), (2, 3)]]


def record_events(seed: int, n: int, K: int = 4):
    """Run geometer on random join/meet calls (degenerate ones made frequent) and log what it does."""
    from ..abstraction import primitive
    from ..record import Lattice

    import_geometer()
    lat = Lattice(seed, K)
    r = lat.r
    fams = [f for f in FAMS]
    events = []
    while len(events) < n:
        f = r.choice(fams)
        op, dim, kinds = FAMS[f]
        args = []
        for k in kinds:
            if k == "line3":
                while True:
                    a, b = lat.point(4), lat.point(4)
                    p = pl6(a, b)
                    if any(p):
                        break
                # bias: make the line pass through / lie in an earlier argument, or meet an earlier line
                if args and r.random() < 0.5:
                    prev_k, prev = kinds[len(args) - 1], args[-1]
                    if prev_k == "point":
                        p2 = pl6(prev, b)
                        p = p2 if any(p2) else p
                    elif prev_k == "line3" and "pts" in dir():
                        c = lat.combo(pts[0], pts[1])
                        p2 = pl6(c, b) if r.random() < 0.8 else prev
                        p = p2 if any(p2) else p
                pts = (a, b)
                args.append(primitive(p) if r.random() < 0.7 else p)
            else:
                v = lat.vec(dim + 1)
                u = r.random()
                if args and kinds[len(args) - 1] == k and u < 0.12:
                    v = lat.multiple(args[-1])
                elif len(args) == 2 and kinds[0] == kinds[1] == k and u < 0.3:
                    v = lat.combo(args[0], args[1])
                elif args and kinds[len(args) - 1] == "line3" and u < 0.4:
                    # point on the line / plane through the line
                    a, b = pts
                    if k == "point":
                        v = lat.combo(a, b)
                    else:
                        m = np.array([a, b])
                        # plane through a, b and a random third point
                        c = lat.point(4)
                        e = [int(round(x)) for x in np.linalg.det(np.array([[*a], [*b], [*c], [1, 0, 0, 0]])) * np.linalg.inv(
                            np.array([[*a], [*b], [*c], [1, 0, 0, 0]]))[:, 3]] if abs(np.linalg.det(np.array([[*a], [*b], [*c], [1, 0, 0, 0]]))) > 0.5 else v
                        v = e if any(e) else v
                args.append(v)
        objs = [build(k, v) for k, v in zip(kinds, args)]
        st, res = _call(op, objs)
        ev = {"f": f, "a": args}
        if st == "exc":
            ev.update(e=err_name(res), k="none", v=[0])
        else:
            c = project_class(coords_of(res))
            ev.update(e="none", k=kind_of(res), v=c if c is not None else ["IRRATIONAL"])
        events.append(ev)
    return events


def validate_trace(ctx: Ctx, events, name="trace"):
    """TLC decides whether every recorded event is a step of the specification."""
    from ..record import write_ndjson

    path = ctx.work / f"{name}.ndjson"
    write_ndjson(path, events)
    cfg = cfg_text(spec="TraceSpec",
                   constants={"K2": 1, "K3": 1, "Families": {S("j2pp")}, "DoDump": False, "Stride3": 1,
                              "StrideLL": 1, "Seed": 0},
                   invariants=[i for i in INVS if i != "RoundTrip"], constraints=["Report"],
                   postcondition="TraceAccepted")
    r = ctx.tlc("Trace_C01", cfg, name=name, workers=1, dump=True, env={"TRACE_FILE": str(path)})
    reports = list(read_dump(r["dump"]))
    if not reports or reports[-1]["consumed"] != len(events):
        raise MachineryError(f"trace validation consumed {reports[-1]['consumed'] if reports else 0} of {len(events)} events")
    return reports[-1]["bad"]


def moved_cases(fam, cases):
    """Used, then moved: the arguments are built, every property of them is read, the operation is applied once; then all of
    them are moved by an exact integer isometry (translation, + point, quarter turn) and the operation is applied to the moved
    objects.  The result is the specification's result carried along by the same integer map (points by T, hyperplanes by
    T^-T; cases whose result is a line of 3-space are left to the other variants)."""
    from ..moved import motions, mh, mp, warm
    op, dim, kinds = FAMS[fam]
    out = []
    for c in cases:
        if c["e"] == "none" and c["k"] == "line3":
            continue
        if c["e"] != "none" and (c["s"] == "zero-vector" or "line3" not in kinds):
            continue        # degenerate inputs: the families with lines of 3-space (the other ones hold no per-object state)
        for mname, mv, T, Ti in motions(dim):
            if mname == "+point" and any(k == "point" and v[-1] == 0 for k, v in zip(kinds, c["a"])):
                continue        # point at infinity + point is vector arithmetic (C19), not a translation of the point
            site = f"{op}({','.join(kinds)})/{dim}D/single/used-then-moved/{mname}"
            if c["e"] != "none":
                # a dependent / skew configuration stays one under an isometry (every property of the arguments was read before)
                try:
                    objs = [warm(build(k, v)) for k, v in zip(kinds, c["a"])]
                    st, res = _call(op, [mv(o) for o in objs])
                    if st == "ok":
                        out.append(dict(cls="silent", site=site, stratum=c["s"], case=c, expected={"err": c["e"]}, observed={"returned": kind_of(res)}))
                    elif err_name(res) != c["e"]:
                        out.append(dict(cls="error-class", site=site, stratum=c["s"], case=c, expected={"err": c["e"]}, observed=f"raised {err_name(res)}: {res}"))
                except Exception as e:  # noqa: BLE001
                    out.append(dict(cls="error-class", site=site, stratum=c["s"], case=c, expected={"err": c["e"]}, observed=f"raised {type(e).__name__}: {e}"))
                continue
            exp = mp(T, c["v"]) if c["k"] == "point" else mh(Ti, c["v"])
            try:
                objs = [warm(build(k, v)) for k, v in zip(kinds, c["a"])]
                _call(op, objs)
                _call(op, objs[::-1]) if len(objs) == 2 else None
                st, res = _call(op, [mv(o) for o in objs])
                if st == "exc":
                    out.append(dict(cls="raise-on-independent", site=site, stratum=c["s"], case=c, expected={"k": c["k"], "v": exp},
                                    observed=f"raised {err_name(res)}: {res}"))
                    continue
                d = _check_value(res, c["k"], exp)
                if d is not None:
                    out.append(dict(cls="value", site=site, stratum=c["s"], case=c, expected={"k": c["k"], "v": exp}, observed=d))
            except Exception as e:  # noqa: BLE001
                out.append(dict(cls="value", site=site, stratum=c["s"], case=c, expected={"k": c["k"], "v": exp}, observed=f"raised {type(e).__name__}: {e}"))
    return out


def broadcast_cases(fam, cases):
    """Collections with different numbers of collection axes (trailing axes aligned, as numpy and the unchanged library do):
    a one-axis collection (k,) against a three-axis collection (2, 2, k), in both argument orders, and a (k,) collection in
    the middle of a three-argument call.  Every position of the result must be what the single objects at that position give
    (the single-object calls are decided against the specification by single_cases)."""
    op, dim, kinds = FAMS[fam]
    g = import_geometer()
    out = []
    k = 3
    gen = [c for c in cases if c["e"] == "none"]
    for start in range(0, len(gen) - 5 * k, 5 * k):
        chunk = gen[start:start + 5 * k]
        small = [np.array(c["a"][0]) for c in chunk[:k]]                          # (k,) first arguments
        big = np.array([c["a"][1] for c in chunk[k:5 * k]]).reshape(2, 2, k, -1)    # (2, 2, k) second arguments
        rest = [np.array(chunk[0]["a"][i]) for i in range(2, len(kinds))]
        site = f"{op}({','.join(kinds)})/{dim}D/collection/axes(1)x(3)"
        case = {"first": [a.tolist() for a in small], "second": big.tolist()}
        try:
            A = build_coll(kinds[0], [a.tolist() for a in small])
            B = build_coll(kinds[1], big.reshape(-1, big.shape[-1]).tolist(), shape=(2, 2, k))
            R = [build(kk, v.tolist()) for kk, v in zip(kinds[2:], rest)]
            for order, call in (("", lambda: _call(op, [A, B] + R)), ("/swapped", lambda: _call(op, [B, A] + R) if len(kinds) == 2 and kinds[0] == kinds[1] else None)):
                res = call()
                if res is None:
                    continue
                st, val = res
                singles = {}
                ok_all = True
                for i in range(2):
                    for j in range(2):
                        for m in range(k):
                            objs = [build(kinds[0], small[m].tolist()), build(kinds[1], big[i, j, m].tolist())] + R
                            singles[(i, j, m)] = _call(op, objs if order == "" else [objs[1], objs[0]] + R)
                            ok_all = ok_all and singles[(i, j, m)][0] == "ok"
                if not ok_all:
                    continue            # a dependent pair among the positions: covered by the mask checks of batch_cases
                if st != "ok":
                    out.append(dict(cls="raise-on-independent", site=site + order, stratum="general", case=case, expected="values", observed=f"raised {err_name(val)}: {val}"))
                    continue
                arr = np.asarray(coords_of(val))
                if arr.shape[:3] != (2, 2, k):
                    out.append(dict(cls="value", site=site + order, stratum="general", case=case, expected={"shape": [2, 2, k]}, observed={"shape": list(arr.shape)}))
                    continue
                for (i, j, m), (_, sv) in singles.items():
                    if not same_class(arr[i, j, m].reshape(-1), np.asarray(coords_of(sv)).reshape(-1)):
                        out.append(dict(cls="value", site=site + order, stratum="general", case={**case, "position": [i, j, m]},
                                        expected=np.asarray(coords_of(sv)).tolist(), observed=arr[i, j, m].tolist()))
                        break
        except Exception as e:  # noqa: BLE001
            out.append(dict(cls="value", site=site, stratum="general", case=case, expected="values", observed=f"raised {type(e).__name__}: {e}"))
        # all pairwise results of two (k,) collections: the collections given one more axis through expand_dims (A: (k, 1),
        # B: (1, k)), in the positive and the negative spelling of the axis; position (m, n) is what the singles m and n give
        if len(kinds) == 2 and "line3" not in kinds and start % (10 * k) == 0:
            site2 = f"{op}({','.join(kinds)})/{dim}D/collection/pairwise-through-expand_dims"
            firsts = [c["a"][0] for c in chunk[:k]]
            seconds = [c["a"][1] for c in chunk[k:2 * k]]
            case2 = {"first": firsts, "second": seconds}
            try:
                for spelling, (ax_a, ax_b) in (("", (1, 0)), ("/negative-axis", (-2, -3))):
                    A = build_coll(kinds[0], firsts).expand_dims(ax_a)
                    B = build_coll(kinds[1], seconds).expand_dims(ax_b)
                    singles = {(m, n): _call(op, [build(kinds[0], firsts[m]), build(kinds[1], seconds[n])]) for m in range(k) for n in range(k)}
                    if not all(v[0] == "ok" for v in singles.values()):
                        continue
                    st, val = _call(op, [A, B])
                    if st != "ok":
                        out.append(dict(cls="raise-on-independent", site=site2 + spelling, stratum="general", case=case2, expected="values",
                                        observed=f"raised {err_name(val)}: {val}"))
                        continue
                    arr = np.asarray(coords_of(val))
                    if arr.shape[:2] != (k, k):
                        out.append(dict(cls="value", site=site2 + spelling, stratum="general", case=case2, expected={"shape": [k, k]}, observed={"shape": list(arr.shape)}))
                        continue
                    for (m, n), (_, sv) in singles.items():
                        if not same_class(arr[m, n].reshape(-1), np.asarray(coords_of(sv)).reshape(-1)):
                            out.append(dict(cls="value", site=site2 + spelling, stratum="general", case={**case2, "position": [m, n]},
                                            expected=np.asarray(coords_of(sv)).tolist(), observed=arr[m, n].tolist()))
                            break
            except Exception as e:  # noqa: BLE001
                out.append(dict(cls="value", site=site2, stratum="general", case=case2, expected="values", observed=f"raised {type(e).__name__}: {e}"))
        if start > 40 * 5 * k:
            break
    return out


def complex_cases(recs, cdt=np.complex128, sfx=""):
    """C01_Complex.tla: Gaussian-integer points / lines / planes; all API forms of the same multilinear operation."""
    g = import_geometer()
    from geometer.exceptions import LinearDependenceError
    out = []
    Z = lambda z: np.array(z[0]) + 1j * np.array(z[1])  # noqa: E731
    for d in recs:
        r, st = d["r"], d["s"]
        args = [Z(a).astype(cdt) for a in r["args"]]
        exp = Z(r["out"])
        dep = st == "dependent"
        if r["t"] == "j2":
            P = [g.Point(a) for a in args]
            forms = [("join(point,point)/2D/complex", lambda: g.join(P[0], P[1])), ("join(point,point)/2D/complex/swapped", lambda: g.join(P[1], P[0])),
                     ("Line(point,point)/2D/complex", lambda: g.Line(P[0], P[1]))]
        elif r["t"] == "m2":
            L = [g.Line(a) for a in args]
            forms = [("meet(line,line)/2D/complex", lambda: g.meet(L[0], L[1])), ("meet(line,line)/2D/complex/swapped", lambda: g.meet(L[1], L[0]))]
        elif r["t"] == "j3":
            P = [g.Point(a) for a in args]
            forms = [("join(point,point,point)/3D/complex", lambda: g.join(P[0], P[1], P[2])),
                     ("join(point,point,point)/3D/complex/permuted", lambda: g.join(P[2], P[0], P[1])),
                     ("join(line3,point)/3D/complex", lambda: g.join(g.join(P[0], P[1]), P[2])),
                     ("join(point,line3)/3D/complex", lambda: g.join(P[0], g.join(P[1], P[2]))),
                     ("Plane(line3,point)/3D/complex", lambda: g.Plane(g.Line(P[1], P[2]), P[0]))]
        else:
            E = [g.Plane(a) for a in args]
            forms = [("meet(plane,plane,plane)/3D/complex", lambda: g.meet(E[0], E[1], E[2])),
                     ("meet(line3,plane)/3D/complex", lambda: g.meet(g.meet(E[0], E[1]), E[2])),
                     ("meet(plane,line3)/3D/complex", lambda: g.meet(E[0], g.meet(E[1], E[2])))]
        case = {"t": r["t"], "args": r["args"]}
        for site, fn in forms:
            site = site + sfx
            try:
                res = fn()
                arr = np.asarray(res.array, dtype=complex).reshape(-1)
                if dep:
                    # a dependent configuration must raise (an inner step of a two-step form may raise as well)
                    out.append(dict(cls="silent", site=site, stratum=st, case=case, expected="LinearDependenceError", observed=arr.tolist().__repr__()))
                elif not (arr.shape == exp.shape and same_class(arr, exp)):
                    out.append(dict(cls="value", site=site, stratum=st, case=case, expected=str(exp.tolist()), observed=str(arr.tolist())))
            except LinearDependenceError:
                if not dep:
                    # two-step forms: the inner join/meet of two of the arguments may itself be dependent only if all three are
                    out.append(dict(cls="raise-on-independent", site=site, stratum=st, case=case, expected=str(exp.tolist()),
                                    observed="raised LinearDependenceError"))
            except Exception as e:  # noqa: BLE001
                out.append(dict(cls="value" if not dep else "error-class", site=site, stratum=st, case=case,
                                expected=str(exp.tolist()) if not dep else "LinearDependenceError", observed=f"raised {type(e).__name__}: {e}"))
    return out


def _work(job):
    kind = job[0]
    try:
        if kind == "single":
            return single_cases(job[1], job[2], job[3])
        if kind == "batch":
            return batch_cases(job[1], job[2], job[3])
        if kind == "rt":
            return roundtrip_cases(job[1])
        if kind == "empty":
            return empty_case(job[1])
        if kind == "complex":
            # a third of the cases also with single-precision complex coordinates (small Gaussian integers are exact there)
            return complex_cases(job[1]) + complex_cases(job[1][::3], np.complex64, "/complex64")
        if kind == "far":
            return far_cases(job[1], job[2])
        if kind == "moved":
            return moved_cases(job[1], job[2])
        if kind == "dtype":
            out = []
            for dt in (np.uint8, np.uint16, np.uint32, np.uint64, np.int16, np.int32, np.float32):
                for B in (0, 3):
                    out += far_cases(job[1], job[2], B=B, dtype=dt, tag=f"coordinates-stored-as-{np.dtype(dt).name}")
            return out
        if kind == "bcast":
            return broadcast_cases(job[1], job[2])
    except Exception as e:  # noqa: BLE001  -- a bug of the harness, not a verdict
        import traceback

        return [dict(cls="machinery", site="harness", stratum="", case=str(job)[:300],
                     expected="", observed=traceback.format_exc())]
    return []


TIER = {
    "quick": dict(K2=2, K3=1, fams=["j2pp", "m2ll", "j3pp", "m3ee", "j3pl", "j3lp", "m3el", "m3le", "j3ll",
                                    "m3ll", "j3ppp", "m3eee", "rt2mj", "rt2jm", "rt3mj", "rt3jm"],
                  stride3=11, strideLL=13, timeout=900),
    "thorough": dict(K2=3, K3=1, fams=["j2pp", "m2ll", "j3pp", "m3ee", "j3pl", "j3lp", "m3el", "m3le", "j3ll",
                                       "m3ll", "j3ppp", "m3eee", "rt2mj", "rt2jm", "rt3mj", "rt3jm"],
                     stride3=1, strideLL=1, timeout=3600),
}


def run(ctx: Ctx) -> int:
    prop = ctx.prop
    t = TIER[ctx.tier]
    cfg = cfg_text(constants={"K2": t["K2"], "K3": t["K3"], "Families": {S(f) for f in t["fams"]},
                              "DoDump": True, "Stride3": t["stride3"], "StrideLL": t["strideLL"],
                              "Seed": ctx.seed % 97},
                   invariants=INVS, constraints=["Dump"])
    r = ctx.tlc("C01_JoinMeet", cfg, dump=True, timeout=t["timeout"])
    byfam: dict[str, list] = {}
    n = 0
    for c in read_dump(r["dump"]):
        byfam.setdefault(c["f"], []).append(c)
        n += 1
    # every finished case must have been dumped: states at depth 'done' == lines
    if n == 0:
        raise MachineryError("TLC dumped no case")
    for f in t["fams"]:
        if not byfam.get(f):
            raise MachineryError(f"family {f} produced no case (vacuous)")
    for f in ("j2pp", "m2ll", "j3ppp", "m3ee", "j3pl", "m3le"):
        if f in t["fams"] and not any(c["s"] == "zero-vector" for c in byfam[f]):
            raise MachineryError(f"family {f}: no case with a zero vector among the arguments (vacuous)")
    ctx.log(f"{n} cases dumped in {len(byfam)} families")
    rng = random.Random(ctx.seed)
    jobs = []
    for f, cases in sorted(byfam.items()):
        cases.sort(key=lambda c: json.dumps(c["a"]))
        rng.shuffle(cases)
        if f.startswith("rt"):
            for i in range(0, len(cases), 500):
                jobs.append(("rt", cases[i:i + 500]))
            continue
        degenerate = [c for c in cases if c["e"] != "none"]
        general = [c for c in cases if c["e"] == "none"]
        # singles: all degenerate ones (bounded), a sample of the general ones, every API variant
        dsel = degenerate if ctx.tier == "thorough" else degenerate[:3000]
        gsel = general if ctx.tier == "thorough" else general[:4000]
        variants = ["fn", "method", "ctor", "same-object"]
        if "line3" in FAMS[f][2]:
            variants.append("lines-from-points")
        for i in range(0, len(dsel), 400):
            jobs.append(("single", f, dsel[i:i + 400], ("fn",) if prop == "C01" else tuple(variants)))
        if prop == "C02":      # the same object twice: all exactly-equal argument pairs of the family
            same = [c for c in degenerate if FAMS[f][2][0] == FAMS[f][2][1] and c["a"][0] == c["a"][1]]
            for i in range(0, len(same), 400):
                jobs.append(("single", f, same[i:i + 400], ("same-object",)))
        for i in range(0, len(gsel), 400):
            jobs.append(("single", f, gsel[i:i + 400], tuple(variants)))
        if f in ("j2pp", "m2ll", "j3pp", "m3ee", "j3ppp", "m3eee", "j3lp", "m3le") and prop == "C01":
            jobs.append(("bcast", f, gsel[:700]))
        if f in ("j2pp", "m2ll", "j3ppp", "m3eee") and prop == "C01":
            for i in range(0, len(gsel), 400):
                jobs.append(("far", f, gsel[i:i + 400]))
        if prop == "C01" and not f.startswith("rt"):
            msl = gsel[::max(1, len(gsel) // 240)]
            for i in range(0, len(msl), 80):
                jobs.append(("moved", f, msl[i:i + 80]))
        if prop == "C02" and "line3" in FAMS[f][2]:
            msl = dsel[::max(1, len(dsel) // 160)]
            for i in range(0, len(msl), 80):
                jobs.append(("moved", f, msl[i:i + 80]))
        if f in ("j2pp", "m2ll", "j3pp", "m3ee", "j3ppp", "m3eee") and prop == "C01":
            # coordinates stored in narrower / unsigned integer types and in float32 (a slice of the general cases)
            dsl = gsel[::max(1, len(gsel) // 600)]
            for i in range(0, len(dsl), 150):
                jobs.append(("dtype", f, dsl[i:i + 150]))
        # collections: (a) all-independent batches -> values; (b) mixed batches -> error + mask
        si = 0
        i = 0
        while i < len(general):
            shape = SHAPES[si % len(SHAPES)] if si % 3 else (256,)
            si += 1
            m = int(np.prod(shape))
            chunk = general[i:i + m]
            i += m
            if len(chunk) < m:
                shape = (len(chunk),)
            jobs.append(("batch", f, chunk, shape))
        mixed = list(cases)
        rng.shuffle(mixed)
        # make degenerate positions frequent in the mixed batches
        pool_d = degenerate if degenerate else []
        gi = 0
        for di in range(0, len(pool_d), 2):
            shape = SHAPES[(di // 2) % 6]
            m = int(np.prod(shape))
            chunk = pool_d[di:di + 2] + general[gi:gi + m - len(pool_d[di:di + 2])]
            gi = (gi + m) % max(1, len(general) - m)
            if len(chunk) < m:
                continue
            rng.shuffle(chunk)
            jobs.append(("batch", f, chunk, shape))
        # (b') two kinds of degeneracy in one collection: a zero vector at one position, an ordinary dependence at another
        zero = [c for c in pool_d if c["s"] == "zero-vector" and c["e"] == "LinearDependence"]
        other = [c for c in pool_d if c["s"] != "zero-vector" and c["e"] == "LinearDependence"]
        if prop == "C02" and zero and other and len(general) >= 6:
            for j in range(min(24, len(zero))):
                shape = SHAPES[j % 6]
                m = int(np.prod(shape))
                if m < 3 or len(general) < m:
                    continue
                chunk = [zero[j], other[(j * 7) % len(other)]] + general[(j * 5) % (len(general) - m + 1):][:m - 2]
                if len(chunk) == m:
                    rng.shuffle(chunk)
                    jobs.append(("batch", f, chunk, shape))
        # (c) batches in which EVERY position is dependent (the mask must still have one entry per position),
        #     including collections of length 1, and (d) empty collections (no dependent position: no error)
        ALLDEP = [(1,), (3,), (2, 2), (4,), (1, 1)]
        di = 0
        for j in range(12 if ctx.tier == "quick" else 60):
            shape = ALLDEP[j % len(ALLDEP)]
            m = int(np.prod(shape))
            only = [c for c in degenerate if c["e"] == "LinearDependence"]
            if len(only) < m:
                break
            chunk = [only[(di + x) % len(only)] for x in range(m)]
            di += m
            jobs.append(("batch", f, chunk, shape))
        jobs.append(("empty", f))
    # complex (Gaussian integer) coordinate vectors: C01_Complex.tla
    cfgc = cfg_text(constants={"Tasks": {S(x) for x in ("j2", "m2", "j3", "m3")}, "DoDump": True},
                    invariants=["ResultIncident", "RealAgrees", "RepeatedIsZero"], constraints=["Dump"])
    rc = ctx.tlc("C01_Complex", cfgc, dump=True)
    crecs = list(read_dump(rc["dump"]))
    cstrata = {}
    for x in crecs:
        cstrata[(x["r"]["t"], x["s"])] = cstrata.get((x["r"]["t"], x["s"]), 0) + 1
    for tsk in ("j2", "m2", "j3", "m3"):
        for need in ("genuinely-complex", "complex-multiple-of-real", "dependent", "real"):
            if not cstrata.get((tsk, need)):
                raise MachineryError(f"complex stratum {(tsk, need)} never visited (vacuous)")
    if ctx.tier == "quick":
        rng.shuffle(crecs)
        keep = [x for x in crecs if x["r"]["t"] in ("j2", "m2")] + [x for x in crecs if x["r"]["t"] in ("j3", "m3")][:6000]
    else:
        keep = crecs
    for i in range(0, len(keep), 400):
        jobs.append(("complex", keep[i:i + 400]))
    ctx.log(f"{len(jobs)} replay jobs")
    with Pool(16) as pool:
        results = pool.map(_work, jobs, chunksize=4)
    nrep = 0
    for job, res in zip(jobs, results):
        if job[0] == "complex":
            for c in job[1]:
                ctx.count("complex/" + c["s"])
                ctx.nontrivial(("complex", json.dumps(c["r"]["args"])))
            nrep += len(job[1])
            for m in res:
                if m["cls"] == "machinery":
                    raise MachineryError(m["observed"])
                inscope = (m["cls"] in ("value", "raise-on-independent")) if prop == "C01" else \
                          (m["cls"] in ("silent", "error-class", "mask", "raise-on-independent"))
                if inscope:
                    ctx.mismatch(m["site"], m["stratum"], m["case"], m["expected"], m["observed"], m["cls"])
            continue
        if job[0] in ("far", "bcast", "dtype", "moved"):
            nrep += len(job[2])
            for m in res:
                if m["cls"] == "machinery":
                    raise MachineryError(m["observed"])
                ctx.mismatch(m["site"], m["stratum"], m["case"], m["expected"], m["observed"], m["cls"])
            continue
        cs = [] if job[0] == "empty" else (job[2] if job[0] != "rt" else job[1])
        nrep += len(cs) * (len(job[3]) if job[0] == "single" else 1)
        for c in cs:
            ctx.count(c["s"])
            if c["s"] != "general":
                ctx.nontrivial((c["f"], json.dumps(c["a"])))
        for m in res:
            if m["cls"] == "machinery":
                raise MachineryError(m["observed"])
            inscope = (m["cls"] in ("value", "raise-on-independent")) if prop == "C01" else \
                      (m["cls"] in ("silent", "error-class", "mask", "raise-on-independent"))
            if inscope:
                ctx.mismatch(m["site"], m["stratum"], m["case"], m["expected"], m["observed"], m["cls"])
    if ctx.tier == "thorough":
        ctx.lift_lemmas([("L_Cross", "Incident", True), ("L_Space", "PlaneIncident", True), ("L_Space", "Klein", True),
                         ("L_Space", "OnLine", True), ("L_Complex", "Incident", True), ("L_Cross", "Falsified", False),
                         ("L_Space", "Falsified", False), ("L_Complex", "Falsified", False)])
    ctx.cov["traces_validated_against_impl"] += nrep
    # ---- code -> spec
    nev = 6000 if ctx.tier == "quick" else 60000
    for part in range(0, nev, 6000):
        events = record_events(ctx.seed * 1000 + part, min(6000, nev - part), K=4)
        bad = validate_trace(ctx, events, name=f"trace{part}")
        ctx.cov["traces_validated_against_impl"] += len(events)
        ctx.cov["evaluations"] += len(events)
        ctx.cov.setdefault("trace_events", 0)
        ctx.cov["trace_events"] += len(events)
        for l, why in bad:
            e = events[l - 1]
            cls_c02 = why.startswith("error-class")
            if (prop == "C02") == cls_c02 or (prop == "C01" and e["e"] != "none" and "spec none" in why):
                ctx.mismatch(f"{FAMS[e['f']][0]}({','.join(FAMS[e['f']][2])})/{FAMS[e['f']][1]}D/trace",
                             "trace:" + why.split(":")[0], e, "a step of C01_JoinMeet!Call", why)
        if events:
            ctx.sample({"recorded_event": events[0]})
    for f in list(byfam)[:4]:
        ctx.sample(byfam[f][0])
    return nrep
