"""C06: group action of transformations on every kind of object (C06_Group.tla)."""
from __future__ import annotations

import json
import random
from multiprocessing import Pool

import numpy as np

from ..abstraction import coords_of, kind_of, project_class, same_class
from ..core import Ctx, MachineryError, S, cfg_text, import_geometer, read_dump
from ..geom import build

RULE = ("cases = every history of <= MaxLen operations (t*x, t.inverse()*x, (t**k)*x over a pool of 8 generating matrices per "
        "dimension, mostly non-isometries) on every object of a pool covering all kinds in 2D and 3D; non-trivial = polytope, "
        "quadric, dual quadric, 3D line, inverse or non-positive power in the history")
INVS = ["GroupAction", "KindPreserved", "InverseUndoes", "SupportIsImage"]


def build_any(o, dim):
    """abstract object {k, v} -> geometer object"""
    g = import_geometer()
    k, v = o["k"], o["v"]
    if k in ("point", "line", "plane", "line3"):
        return build(k, v)
    a = np.array(v)
    if k == "quadric":
        return g.Conic(a) if dim == 2 else g.Quadric(a)
    if k == "dualquadric":
        return g.Conic(a, is_dual=True) if dim == 2 else g.Quadric(a, is_dual=True)
    if k == "segment":
        return g.Segment(a)
    if k == "polygon":
        return g.Polygon(a)
    if k == "polyhedron":
        return g.Polyhedron(a)
    raise ValueError(k)


def build_coll(objs, dim):
    g = import_geometer()
    k = objs[0]["k"]
    if k in ("point", "line", "plane", "line3"):
        from ..geom import build_coll as bc

        return bc(k, [o["v"] for o in objs])
    a = np.array([o["v"] for o in objs])
    if k == "quadric":
        return g.QuadricCollection(a)
    if k == "dualquadric":
        return g.QuadricCollection(a, is_dual=True)
    if k == "segment":
        return g.SegmentCollection(a)
    if k == "polygon":
        return g.PolygonCollection(a)
    raise ValueError(k)


def abs_kind(obj):
    import geometer.curve as gc
    import geometer.shapes as gs

    if isinstance(obj, gc.QuadricTensor):
        return "dualquadric" if obj.is_dual else "quadric"
    if isinstance(obj, gs.SegmentTensor):
        return "segment"
    if isinstance(obj, gs.PolygonTensor):
        return "polygon"
    if isinstance(obj, gs.Polyhedron):
        return "polyhedron"
    return kind_of(obj)


def compare_any(res, exp, pos=None):
    """None if res (optionally at collection position pos) is the abstract object exp."""
    k = abs_kind(res)
    if k != exp["k"]:
        return f"kind {k} != {exp['k']}"
    if k in ("point", "line", "plane", "line3"):
        c = np.asarray(coords_of(res))
        c = c[pos] if pos is not None else c
        return None if same_class(c, exp["v"]) else {"coords": c.tolist()}
    arr = np.asarray(res.array)
    arr = arr[pos] if pos is not None else arr
    e = np.array(exp["v"])
    if arr.shape != e.shape:
        return {"shape": list(arr.shape), "expected_shape": list(e.shape)}
    if k in ("quadric", "dualquadric"):
        return None if same_class(arr.reshape(-1), e.reshape(-1)) else {"matrix": arr.tolist()}
    flat_o = arr.reshape(-1, arr.shape[-1])
    flat_e = e.reshape(-1, e.shape[-1])
    for i in range(len(flat_e)):
        if not same_class(flat_o[i], flat_e[i]):
            return {"vertex": i, "coords": flat_o[i].tolist(), "expected": flat_e[i].tolist()}
    return None


def support_ok(res, sup, pos=None):
    if sup["k"] == "none":
        return None
    attr = "_line" if abs_kind(res) == "segment" else "_plane"
    s = getattr(res, attr, None)
    if s is None:
        return f"no cached {attr}"
    c = np.asarray(coords_of(s))
    c = c[pos] if pos is not None else c
    return None if same_class(c, sup["v"]) else {attr: c.tolist(), "expected": sup["v"]}


def make_op(g, op, M, reused=False):
    if reused:
        from .invariance import reused_transformation
        t = reused_transformation(g, M)
    else:
        t = g.Transformation(np.array(M))
    if op[0] == "apply":
        return t
    if op[0] == "inv":
        return t.inverse()
    return t ** op[2]


def replay(recs):
    g = import_geometer()
    out = []
    for r in recs:
        dim, x0, hist, exp, stratum = r["d"], r["x"], r["h"], r["c"], r["s"]
        case = {"d": dim, "x": x0, "h": hist, "ms": r["ms"]}
        site0 = f"{x0['k']}/{dim}D"
        for variant in ("sequential", "apply()", "composite", "composite/apply()", "transformation-edited-in-place"):
            try:
                x = build_any(x0, dim)
                ts = [make_op(g, op, M, reused=(variant == "transformation-edited-in-place")) for op, M in zip(hist, r["ms"])]
                if variant in ("sequential", "transformation-edited-in-place"):
                    y = x
                    for t in ts:
                        y = t * y
                elif variant == "apply()":
                    y = x
                    for t in ts:
                        y = t.apply(y)
                else:
                    if len(ts) < 2:
                        continue
                    T = ts[0]
                    for t in ts[1:]:
                        T = (t * T) if variant == "composite" else t.apply(T)
                    y = (T * x) if variant == "composite" else T.apply(x)
                d = compare_any(y, exp)
                if d is None and type(y) is not type(x):
                    d = f"result type {type(y).__name__} != {type(x).__name__}"
                if d is None:
                    d = support_ok(y, r["sup"])
                if d is None:
                    # the argument must not have been changed by being transformed (same object, re-projected)
                    pass
            except Exception as e:  # noqa: BLE001
                d = f"raised {type(e).__name__}: {e}"
            if d is not None:
                out.append(dict(site=f"{site0}/{variant}", stratum=stratum, case=case, expected=exp, observed=d))
    return out


def replay_collections(groups):
    """records with the same (dim, kind, history, vertex count): their x0's stacked into one collection."""
    g = import_geometer()
    out = []
    for recs in groups:
        r0 = recs[0]
        dim, hist = r0["d"], r0["h"]
        site = f"{r0['x']['k']}/{dim}D/collection"
        case = {"d": dim, "xs": [r["x"] for r in recs], "h": hist, "ms": r0["ms"]}
        try:
            x = build_coll([r["x"] for r in recs], dim)
            y = x
            for op, M in zip(hist, r0["ms"]):
                y = make_op(g, op, M) * y
            for i, r in enumerate(recs):
                d = compare_any(y, r["c"], pos=i) or support_ok(y, r["sup"], pos=i)
                if d is not None:
                    out.append(dict(site=site, stratum=r["s"], case={**case, "pos": i}, expected=r["c"], observed=d))
                    break
            if type(y) is not type(x):
                out.append(dict(site=site, stratum=r0["s"], case=case, expected=type(x).__name__, observed=type(y).__name__))
        except Exception as e:  # noqa: BLE001
            out.append(dict(site=site, stratum=r0["s"], case=case, expected="a collection of images",
                            observed=f"raised {type(e).__name__}: {e}"))
    return out


def replay_tcoll(groups):
    """records with the same (dim, x0) and single-op histories: TransformationCollection acting elementwise."""
    g = import_geometer()
    out = []
    # every group twice: as it is, and repeated cyclically to 70 elements (the kernels behind inverse()/apply switch to
    # vectorised formulas from 64 matrices on; the pool matrices are integer arrays, several with |det| > 1)
    groups = [recs for recs in groups] + [[recs[i % len(recs)] for i in range(70)] for recs in groups]
    for recs in groups:
        r0 = recs[0]
        dim = r0["d"]
        site = f"{r0['x']['k']}/{dim}D/TransformationCollection" + ("/70" if len(recs) == 70 else "")
        case = {"d": dim, "x": r0["x"], "hs": [r["h"] for r in recs[:12]], "n": len(recs)}
        try:
            tc = g.TransformationCollection(np.array([r["ms"][0] for r in recs]))
            x = build_coll([r0["x"]] * len(recs), dim)
            variants = [("apply", tc * x), ("inverse", None), ("pow", None)]
            y = tc * x
            for i, r in enumerate(recs):
                d = compare_any(y, r["c"], pos=i)
                if d is not None:
                    out.append(dict(site=site, stratum=r["s"], case={**case, "pos": i}, expected=r["c"], observed=d))
                    break
            # inverse of the collection undoes it elementwise; tc**0 is the identity collection; tc**2 = tc*tc
            z = tc.inverse() * y
            for i in range(len(recs)):
                d = compare_any(z, r0["xcanon"], pos=i)
                if d is not None:
                    out.append(dict(site=site + "/inverse", stratum="inverse", case={**case, "pos": i}, expected=r0["xcanon"], observed=d))
                    break
            z = (tc ** 0) * x
            for i in range(len(recs)):
                d = compare_any(z, r0["xcanon"], pos=i)
                if d is not None:
                    out.append(dict(site=site + "/pow0", stratum="nonpositive-power", case={**case, "pos": i}, expected=r0["xcanon"], observed=d))
                    break
            # the transformations (n,) against the objects in a collection with one more axis (2, n): trailing axes pair up
            if len(recs) != 70:
                x2 = build_coll([r0["x"]] * (2 * len(recs)), dim)
                arr2 = np.asarray(x2.array)
                x2 = type(x2)(arr2.reshape((2, len(recs)) + arr2.shape[1:]), **({"is_dual": x2.is_dual} if hasattr(x2, "is_dual") else {}))
                y2 = tc * x2
                bad2 = None
                for a_ in range(2):
                    for i, r in enumerate(recs):
                        bad2 = bad2 or compare_any(y2, r["c"], pos=(a_, i))
                if bad2 is not None:
                    out.append(dict(site=site + "/objects-with-one-more-axis", stratum="general", case=case, expected="tc[j] * x at every position (i, j)", observed=bad2))
            # a collection derived from one that has already been inverted (expand_dims copies the object)
            tc2 = tc.expand_dims(0)
            inv2 = tc2.inverse()
            want = np.asarray(tc.inverse().array)[None]
            if np.asarray(inv2.array).shape != want.shape or not all(
                    same_class(a.reshape(-1), b.reshape(-1)) for a, b in zip(np.asarray(inv2.array)[0], want[0])):
                out.append(dict(site=site + "/expand_dims-then-inverse", stratum="inverse", case=case,
                                expected={"shape": list(want.shape)}, observed={"shape": list(np.asarray(inv2.array).shape)}))
            z1, z2 = (tc ** 2) * x, tc * (tc * x)
            a1, a2 = np.asarray(coords_of(z1)) if abs_kind(z1) in ("point", "line", "plane", "line3") else np.asarray(z1.array), \
                np.asarray(coords_of(z2)) if abs_kind(z2) in ("point", "line", "plane", "line3") else np.asarray(z2.array)
            for i in range(len(recs)):
                if not same_class(a1[i].reshape(-1), a2[i].reshape(-1)):
                    out.append(dict(site=site + "/pow2", stratum="general", case={**case, "pos": i},
                                    expected="(tc**2)*x == tc*(tc*x)", observed={"pow": a1[i].tolist(), "twice": a2[i].tolist()}))
                    break
        except Exception as e:  # noqa: BLE001
            out.append(dict(site=site, stratum=r0["s"], case=case, expected="elementwise images",
                            observed=f"raised {type(e).__name__}: {e}"))
    return out


def replay_identity(objs):
    g = import_geometer()
    out = []
    for dim, x0, canon in objs:
        try:
            x = build_any(x0, dim)
            mk_t = lambda: g.Transformation(np.arange((dim + 1) ** 2).reshape(dim + 1, dim + 1) % 5 + np.eye(dim + 1))  # noqa: E731
            for name, t in (("identity()", g.identity(dim)), ("t**0", mk_t() ** 0)):
                d = compare_any(t * x, canon)
                if d is not None:
                    out.append(dict(site=f"{x0['k']}/{dim}D/{name}", stratum="identity", case={"d": dim, "x": x0}, expected=canon, observed=d))
            # an identity obtained earlier and then turned into a translation / shear through item assignment is another
            # transformation; identity(), t**0 and t.inverse() * t asked afterwards are still the identity
            for how, first in (("identity()", lambda: g.identity(dim)), ("t**0", lambda: mk_t() ** 0)):
                m = first()
                m[0, dim] = 3.0
                m[dim - 1, 0] = -2.0
                tt = mk_t()
                for name, t in (("identity()", g.identity(dim)), ("t**0", mk_t() ** 0), ("t.inverse()*t", tt.inverse() * tt), ("t**-1*t", tt ** -1 * tt)):
                    d = compare_any(t * x, canon)
                    if d is not None:
                        out.append(dict(site=f"{x0['k']}/{dim}D/{name}/after-an-{how}-was-edited-in-place", stratum="identity", case={"d": dim, "x": x0},
                                        expected=canon, observed=d))
        except Exception as e:  # noqa: BLE001
            out.append(dict(site=f"{x0['k']}/{dim}D/identity", stratum="identity", case={"d": dim, "x": x0}, expected=canon,
                            observed=f"raised {type(e).__name__}: {e}"))
    return out


def replay_complex(objs):
    """Transformations with genuinely complex entries (the library supports them: I, J, the projective line over C) acting on
    objects stored with real float / integer / complex coordinates: the group laws, which need no oracle -
    (s * t) * x = s * (t * x), t.inverse() * (t * x) = x, (t ** 2) * x = t * (t * x), (t ** -1) * (t * x) = x."""
    g = import_geometer()
    out = []
    for dim, x0, canon in objs:
        n = dim + 1
        A = np.arange(n * n).reshape(n, n) % 3 + np.eye(n)
        B = (np.arange(n * n).reshape(n, n) * 2 + 1) % 5 - 2.0
        S = np.eye(n) + np.triu(np.ones((n, n)), 1) * (2 - 1j)
        for tname, M in (("real+i*real", A + 1j * B), ("unitriangular-complex", S)):
            if abs(np.linalg.det(M)) < 1e-6:
                continue
            t, s_ = g.Transformation(M), g.Transformation(S.T + 0.5j * np.eye(n))
            for dname, dt in (("float64", float), ("int", None), ("complex128", complex)):
                try:
                    x = build_any(x0, dim)
                    if dt is not None:
                        x = x.copy()
                        x.array = np.asarray(x.array).astype(dt)
                    cls_of = lambda o: np.asarray(coords_of(o) if abs_kind(o) in ("point", "line", "plane", "line3") else o.array, dtype=complex)  # noqa: E731
                    def same(a, b):
                        a, b = cls_of(a), cls_of(b)
                        if a.shape != b.shape:
                            return False
                        if a.ndim == 1 or abs_kind(x) in ("quadric", "dualquadric", "line3"):
                            return same_class(a.reshape(-1), b.reshape(-1), 1e-6)
                        return all(same_class(u.reshape(-1), v.reshape(-1), 1e-6) for u, v in zip(a.reshape((-1, a.shape[-1])), b.reshape((-1, b.shape[-1]))))
                    y = t * x
                    laws = [("(s*t)*x == s*(t*x)", (s_ * t) * x, s_ * y), ("t.inverse()*(t*x) == x", t.inverse() * y, x),
                            ("(t**2)*x == t*(t*x)", (t ** 2) * x, t * y), ("(t**-1)*(t*x) == x", (t ** -1) * y, x)]
                    for lname, lhs, rhs in laws:
                        if not same(lhs, rhs):
                            out.append(dict(site=f"{x0['k']}/{dim}D/complex-transformation/{tname}/{dname}-coordinates", stratum="general",
                                            case={"d": dim, "x": x0, "law": lname}, expected=lname, observed={"lhs": str(cls_of(lhs).tolist())[:200], "rhs": str(cls_of(rhs).tolist())[:200]}))
                            break
                except Exception as e:  # noqa: BLE001
                    out.append(dict(site=f"{x0['k']}/{dim}D/complex-transformation/{tname}/{dname}-coordinates", stratum="general", case={"d": dim, "x": x0},
                                    expected="the group laws", observed=f"raised {type(e).__name__}: {e}"))
    return out


def _work(job):
    try:
        return {"rec": replay, "coll": replay_collections, "tcoll": replay_tcoll, "id": replay_identity, "cplx": replay_complex}[job[0]](job[1])
    except Exception:  # noqa: BLE001
        import traceback

        return [dict(site="harness", stratum="machinery", case=str(job)[:200], expected="", observed=traceback.format_exc())]


def canon_np(o):
    """canonical (primitive) form of an abstract object, computed like CanonAny"""
    from ..abstraction import primitive

    k, v = o["k"], o["v"]
    if k in ("point", "line", "plane", "line3"):
        return {"k": k, "v": primitive(v)}
    if k in ("quadric", "dualquadric"):
        a = np.array(v)
        return {"k": k, "v": np.array(primitive(a.reshape(-1).tolist())).reshape(a.shape).tolist()}
    if k in ("segment", "polygon"):
        return {"k": k, "v": [primitive(p) for p in v]}
    return {"k": k, "v": [[primitive(p) for p in f] for f in v]}


TIER = {"quick": dict(maxlen=2, pows="PowQuick"), "thorough": dict(maxlen=2, pows="PowFull")}


def run(ctx: Ctx):
    t = TIER[ctx.tier]
    cfg = cfg_text(constants={"Dims": {1, 2, 3}, "MaxLen": t["maxlen"], "PowExps": "XX", "DoDump": True},
                   invariants=INVS, constraints=["Dump"]).replace("PowExps = XX", f"PowExps <- {t['pows']}")
    r = ctx.tlc("C06_Group", cfg, dump=True, timeout=3000)
    recs = list(read_dump(r["dump"]))
    if len(recs) < 1000:
        raise MachineryError("too few histories dumped")
    kinds = {(x["d"], x["x"]["k"]) for x in recs}
    for need in [(2, "point"), (2, "line"), (2, "quadric"), (2, "dualquadric"), (2, "segment"), (2, "polygon"),
                 (3, "point"), (3, "plane"), (3, "line3"), (3, "quadric"), (3, "dualquadric"), (3, "segment"),
                 (3, "polygon"), (3, "polyhedron")]:
        if need not in kinds:
            raise MachineryError(f"kind {need} never visited (vacuous)")
    ctx.log(f"{len(recs)} histories")
    jobs = [("rec", recs[i:i + 500]) for i in range(0, len(recs), 500)]
    # collections of x0's
    groups: dict = {}
    for x in recs:
        if x["x"]["k"] == "polyhedron":
            continue
        nv = len(x["x"]["v"]) if x["x"]["k"] in ("polygon",) else 0
        groups.setdefault((x["d"], x["x"]["k"], json.dumps(x["h"]), nv), []).append(x)
    gl = [sorted(v, key=lambda x: json.dumps(x["x"])) for v in groups.values()]
    jobs += [("coll", gl[i:i + 300]) for i in range(0, len(gl), 300)]
    # transformation collections: single-op "apply" histories of the same object
    tg: dict = {}
    for x in recs:
        if len(x["h"]) == 1 and x["h"][0][0] == "apply" and x["x"]["k"] in ("point", "line", "plane", "line3", "quadric", "dualquadric"):  # polytopes carry a vertex axis: collection axes are aligned from the right, so an elementwise TransformationCollection is not defined for them
            x["xcanon"] = canon_np(x["x"])
            tg.setdefault((x["d"], json.dumps(x["x"])), []).append(x)
    tl = [sorted(v, key=lambda x: x["h"][0][1]) for v in tg.values()]
    jobs.append(("tcoll", tl))
    objs = {}
    for x in recs:
        objs[(x["d"], json.dumps(x["x"]))] = (x["d"], x["x"], canon_np(x["x"]))
    jobs.append(("id", list(objs.values())))
    ov = [o for o in objs.values() if o[1]["k"] in ("point", "line", "plane", "segment", "polygon", "quadric")]
    for i in range(0, len(ov), 6):
        jobs.append(("cplx", ov[i:i + 6]))
    with Pool(16) as pool:
        results = pool.map(_work, jobs, chunksize=1)
    for res in results:
        for m in res:
            if m["stratum"] == "machinery":
                raise MachineryError(m["observed"])
            ctx.mismatch(m["site"], m["stratum"], m["case"], m["expected"], m["observed"])
    for x in recs:
        ctx.count(x["s"])
        if x["s"] != "general":
            ctx.nontrivial((x["d"], json.dumps(x["x"]), json.dumps(x["h"])))
    ctx.cov["traces_validated_against_impl"] += len(recs) * 5 + len(gl) + len(tl)
    ctx.sample({k: recs[7][k] for k in ("d", "x", "h", "c")})
    ctx.sample({k: recs[-7][k] for k in ("d", "x", "h", "c")})
    # ---- code -> spec: recorded calls on larger coordinates, validated by TLC against Trace_Ops.tla
    from ..optrace import run_optrace

    run_optrace(ctx, ['apply_point', 'apply_hyper'])
