"""C16: segment / polygon / triangle membership against C16_Membership.tla."""
from __future__ import annotations

from multiprocessing import Pool

import numpy as np

from ..core import Ctx, MachineryError, S, cfg_text, import_geometer, read_dump

RULE = ("cases = (polygon or segment, query point) pairs: every simple polygon with 3 and 4 vertices on the grid as an ORDERED "
        "vertex list (so every cyclic start and both directions occur), every point of the surrounding grid, half-grid points "
        "and points at infinity, the same polygons embedded in 3-space by five integer affine maps with on- and off-plane "
        "queries, segments and rays in 2D/3D; non-trivial = query labelled by the spec as vertex / edge / edge-extension / "
        "level-with-vertex / at infinity / off-plane")
INVS = ["CycleInvariant", "WindingIsParity", "TriangleBary", "SegParam"]
LABELS = {"V": "at-vertex", "E": "on-edge", "X": "on-edge-extension", "L": "level-with-vertex", "I": "interior",
          "O": "exterior", "INF": "at-infinity"}


def emb_v(e, v):
    return [e[0][0] * v[0] + e[0][1] * v[1] + e[3][0], e[1][0] * v[0] + e[1][1] * v[1] + e[3][1],
            e[2][0] * v[0] + e[2][1] * v[1] + e[3][2]]


def emb_h(e, p):
    return [e[0][0] * p[0] + e[0][1] * p[1] + e[3][0] * p[2], e[1][0] * p[0] + e[1][1] * p[1] + e[3][1] * p[2],
            e[2][0] * p[0] + e[2][1] * p[1] + e[3][2] * p[2], p[2]]


def replay(recs):
    g = import_geometer()
    out = []

    def report(site, stratum, case, exp, obs):
        out.append(dict(site=site, stratum=stratum, case=case, expected=exp, observed=obs))

    for d in recs:
        r, st = d["r"], d["s"]
        t = r["t"]
        if t == "seg":
            dim = r["d"]
            a = g.Point(*r["a"])
            b = g.Point(np.array(list(r["b"]) + [0])) if r["ray"] else g.Point(*r["b"])
            qs = np.array(r["q"])
            exp = np.array(r["inside"])
            site = f"Segment.contains/{dim}D" + ("/ray" if r["ray"] else "")
            case0 = {"a": r["a"], "b": r["b"], "ray": r["ray"]}
            mixed = lambda: g.Segment(np.array([list(r["a"]) + [1], [-2 * v for v in r["b"]] + [-2]]))  # noqa: E731

            def edited():
                # another segment, queried, then given these end points through item assignment
                s0 = g.Segment(g.Point(*[v + 3 for v in r["a"]]), g.Point(*[v - 4 for v in r["a"]]))
                s0.contains(g.Point(*r["a"]))
                s0[0] = np.asarray(a.array)
                s0[1] = np.asarray(b.array)
                return s0
            for name, mk in (("", lambda: g.Segment(a, b)), ("/reversed", lambda: g.Segment(b, a)), ("/vertices-assigned-in-place", edited)) + \
                    ((("/mixed-sign-representatives", mixed),) if not r["ray"] else ()):
                try:
                    seg = mk()
                    got = np.asarray(seg.contains(g.PointCollection(qs)))
                    for i in np.flatnonzero(got != exp)[:3]:
                        lab = "at-infinity" if qs[i][-1] == 0 else ("endpoint" if list(qs[i][:-1]) in (list(np.array(r["a"]) * qs[i][-1]),) else st)
                        report(site + name + "/collection", lab, {**case0, "p": qs[i].tolist()}, bool(exp[i]), bool(got[i]))
                    for i in range(0, len(qs), 7):
                        one = bool(seg.contains(g.Point(qs[i])))
                        if one != bool(exp[i]):
                            report(site + name + "/single", "at-infinity" if qs[i][-1] == 0 else st, {**case0, "p": qs[i].tolist()}, bool(exp[i]), one)
                except Exception as e:  # noqa: BLE001
                    report(site + name, st, case0, "booleans", f"raised {type(e).__name__}: {e}")
            continue
        poly = r["poly"]
        exp = np.array(r["a"]["inside"])
        labs = r["a"]["lab"]
        q2 = np.array(r["q"])
        if t in ("tri", "quad"):
            verts = [g.Point(*v) for v in poly]
            qs = q2
            dim = 2
            extra_q, extra_e = np.zeros((0, 3), dtype=int), np.zeros(0, dtype=bool)
        else:
            e = d["emb"]
            verts = [g.Point(*emb_v(e, v)) for v in poly]
            qs = np.array([emb_h(e, p) for p in q2])
            n = np.cross([e[0][0], e[1][0], e[2][0]], [e[0][1], e[1][1], e[2][1]])
            fin = q2[:, 2] != 0
            extra_q = qs[fin][::3].copy()
            extra_q[:, :3] += n * extra_q[:, 3:4]
            extra_e = np.zeros(len(extra_q), dtype=bool)
            dim = 3
        allq = np.concatenate([qs, extra_q]) if len(extra_q) else qs
        alle = np.concatenate([exp, extra_e])
        alll = [LABELS[x] for x in labs] + ["off-plane"] * len(extra_q)
        case0 = {"poly": poly, "emb": d.get("emb") if dim == 3 else None}
        fac = [1, -1, 2, -3, 1, -2]
        classes = [("Polygon", lambda: g.Polygon(*verts)),
                   ("Polygon[mixed-sign-representatives]", lambda: g.Polygon(np.array([np.asarray(v.array) * f for v, f in zip(verts, fac)])))]
        def edited_poly():
            # another polygon (the same one pushed elsewhere), queried, then given these vertices through item assignment
            shift = np.array([5] * dim + [0])
            P0 = g.Polygon(np.array([np.asarray(v.array) + shift * np.asarray(v.array)[-1] for v in verts]))
            P0.contains(verts[0])
            for k, v in enumerate(verts):
                P0[k] = np.asarray(v.array)
            return P0
        classes.append(("Polygon[vertices-assigned-in-place]", edited_poly))
        if len(poly) == 3:
            classes.append(("Triangle", lambda: g.Triangle(*verts)))
        else:
            classes.append(("Rectangle", lambda: g.Rectangle(*verts)))
        for cname, mk in classes:
            site = f"{cname}.contains/{dim}D"
            try:
                P = mk()
            except Exception as ex:  # noqa: BLE001
                report(site, st, case0, "a polygon", f"constructor raised {type(ex).__name__}: {ex}")
                continue
            try:
                got = np.asarray(P.contains(g.PointCollection(allq)))
                if got.shape != alle.shape:
                    report(site + "/collection", st, case0, {"shape": list(alle.shape)}, {"shape": list(got.shape)})
                else:
                    seen = set()
                    for i in np.flatnonzero(got != alle):
                        if alll[i] in seen:
                            continue
                        seen.add(alll[i])
                        report(site + "/collection", alll[i], {**case0, "p": allq[i].tolist(), "polygon": st}, bool(alle[i]), bool(got[i]))
            except Exception as ex:  # noqa: BLE001
                report(site + "/collection", st, case0, "booleans", f"raised {type(ex).__name__}: {ex}")
            # the same batch in other orders (reversed; interleaved, so that points off the supporting plane come before and
            # between coplanar ones): the answer at each position is that of the point at that position
            for oname, perm in (("reversed", np.arange(len(allq))[::-1]), ("interleaved", np.argsort([(k * 7) % len(allq) + k / (len(allq) + 1.0) for k in range(len(allq))]))):
                try:
                    gotp = np.asarray(P.contains(g.PointCollection(allq[perm])))
                    bad = np.flatnonzero(gotp != alle[perm]) if gotp.shape == alle.shape else [0]
                    for i in list(bad)[:1]:
                        report(site + f"/collection/{oname}-order", alll[perm[i]], {**case0, "p": allq[perm[i]].tolist(), "polygon": st, "position": int(i)},
                               bool(alle[perm[i]]), bool(gotp[i]) if gotp.shape == alle.shape else {"shape": list(gotp.shape)})
                except Exception as ex:  # noqa: BLE001
                    report(site + f"/collection/{oname}-order", st, case0, "booleans", f"raised {type(ex).__name__}: {ex}")
            # the polygon has answered by now; moved by an exact isometry it must answer for its new position
            if cname in ("Polygon", "Rectangle"):
                from ..moved import motions, warm
                for mname, mv, T, Ti in motions(dim):
                    try:
                        Pm = mv(warm(P))
                        qm = (np.asarray(T) @ allq.T).T
                        gotm = np.asarray(Pm.contains(g.PointCollection(qm)))
                        bad = np.flatnonzero(gotm != alle) if gotm.shape == alle.shape else [0]
                        for i in list(bad)[:1]:
                            report(site + f"/queried-then-moved/{mname}", alll[i], {**case0, "p": allq[i].tolist(), "polygon": st, "moved by": mname},
                                   bool(alle[i]), bool(gotm[i]) if gotm.shape == alle.shape else {"shape": list(gotm.shape)})
                    except Exception as ex:  # noqa: BLE001
                        report(site + f"/queried-then-moved/{mname}", st, case0, "booleans", f"raised {type(ex).__name__}: {ex}")
            seen = set()
            for i in range(len(allq)):
                if (i * 7 + len(poly)) % 3 and alll[i] in ("interior", "exterior"):
                    continue
                try:
                    one = P.contains(g.Point(allq[i]))
                    one = bool(np.all(one)) if np.ndim(one) == 0 or np.size(one) == 1 else f"shape {np.shape(one)}"
                except Exception as ex:  # noqa: BLE001
                    one = f"raised {type(ex).__name__}: {ex}"
                if one != bool(alle[i]) and alll[i] not in seen:
                    seen.add(alll[i])
                    report(site + "/single", alll[i], {**case0, "p": allq[i].tolist(), "polygon": st}, bool(alle[i]), one)
    return out


def replay_coll(recs):
    """PolygonCollection.contains: polygons with the same vertex count (and embedding) stacked."""
    g = import_geometer()
    out = []
    r0 = recs[0]
    dim = 2 if r0["r"]["t"] in ("tri", "quad") else 3
    try:
        if dim == 2:
            arr = np.array([[list(v) + [1] for v in d["r"]["poly"]] for d in recs])
            qs = np.array(r0["r"]["q"])
        else:
            e = r0["emb"]
            arr = np.array([[emb_v(e, v) + [1] for v in d["r"]["poly"]] for d in recs])
            qs = np.array([emb_h(e, p) for p in r0["r"]["q"]])
        pc = g.PolygonCollection(arr)
        for j in range(0, len(qs), 2):
            got = np.asarray(pc.contains(g.Point(qs[j])))
            exp = np.array([d["r"]["a"]["inside"][j] for d in recs])
            if got.shape != exp.shape:
                out.append(dict(site=f"PolygonCollection.contains/{dim}D", stratum="general", case={"count": len(recs), "p": qs[j].tolist()},
                                expected={"shape": list(exp.shape)}, observed={"shape": list(got.shape)}))
                break
            for i in np.flatnonzero(got != exp)[:2]:
                out.append(dict(site=f"PolygonCollection.contains/{dim}D", stratum=LABELS[recs[i]["r"]["a"]["lab"][j]],
                                case={"poly": recs[i]["r"]["poly"], "emb": recs[i].get("emb"), "p": qs[j].tolist(), "position": int(i)},
                                expected=bool(exp[i]), observed=bool(got[i])))
    except Exception as ex:  # noqa: BLE001
        out.append(dict(site=f"PolygonCollection.contains/{dim}D", stratum="general", case={"count": len(recs)}, expected="booleans",
                        observed=f"raised {type(ex).__name__}: {ex}"))
    return out


def replay_grid(grids):
    """PolygonCollection with TWO collection axes in 3-space: a 2 x 2 grid whose rows hold one polygon each, embedded by two
    different affine maps (so that neighbouring elements have different supporting planes and projection axes), asked with
    one query point per element (PointCollection of the same shape) and with the rows as one-axis collections."""
    g = import_geometer()
    out = []
    for grid in grids:
        try:
            arr = np.array([[[emb_v(d["emb"], v) + [1] for v in d["r"]["poly"]] for d in row] for row in grid])
            pc = g.PolygonCollection(arr)
            nq = min(len(d["r"]["q"]) for row in grid for d in row)
            case = {"polys": [[d["r"]["poly"] for d in row] for row in grid], "embeddings": [[d["emb"] for d in row] for row in grid]}
            for j in range(0, nq, 3):
                pts = np.array([[emb_h(d["emb"], d["r"]["q"][j]) for d in row] for row in grid])
                exp = np.array([[d["r"]["a"]["inside"][j] for d in row] for row in grid])
                got = np.asarray(pc.contains(g.PointCollection(pts)))
                if got.shape != exp.shape or not np.array_equal(got, exp):
                    bad = tuple(np.argwhere(got != exp)[0]) if got.shape == exp.shape else (0, 0)
                    d = grid[bad[0]][bad[1]]
                    out.append(dict(site="PolygonCollection.contains/3D/two-collection-axes", stratum=LABELS[d["r"]["a"]["lab"][j]],
                                    case={**case, "position": list(map(int, bad)), "p": pts[bad].tolist()}, expected=exp.tolist(),
                                    observed=got.tolist() if got.shape == exp.shape else {"shape": list(got.shape)}))
                    break
        except Exception as ex:  # noqa: BLE001
            out.append(dict(site="PolygonCollection.contains/3D/two-collection-axes", stratum="general", case={"grid": "2x2"}, expected="booleans",
                            observed=f"raised {type(ex).__name__}: {ex}"))
    return out


def _work(job):
    try:
        if job[0] == "grid":
            return replay_grid(job[1])
        return replay(job[1]) if job[0] == "single" else replay_coll(job[1])
    except Exception:  # noqa: BLE001
        import traceback

        return [dict(site="harness", stratum="machinery", case="", expected="", observed=traceback.format_exc())]


TIER = {"quick": dict(G=2, stride=2), "thorough": dict(G=3, stride=3)}
TASKS = ["tri", "quad", "tri3", "quad3", "seg2", "seg3"]


def run(ctx: Ctx):
    t = TIER[ctx.tier]
    cfg = cfg_text(constants={"Tasks": {S(x) for x in TASKS}, "G": t["G"], "Stride": t["stride"], "Seed": ctx.seed % 97,
                              "DoDump": True}, invariants=INVS, constraints=["Dump"])
    r = ctx.tlc("C16_Membership", cfg, dump=True)
    recs = list(read_dump(r["dump"]))
    kinds = {}
    for x in recs:
        kinds[(x["r"]["t"], x["s"])] = kinds.get((x["r"]["t"], x["s"]), 0) + 1
    for need in [("tri", "convex/ccw"), ("tri", "convex/cw"), ("quad", "non-convex/ccw"), ("quad", "non-convex/cw"),
                 ("quad", "convex/cw"), ("tri3", "convex/ccw"), ("quad3", "non-convex/cw"), ("seg", "ray"), ("seg", "segment")]:
        if not kinds.get(need):
            raise MachineryError(f"stratum {need} never visited (vacuous)")
    npairs = sum(len(x["r"]["q"]) for x in recs)
    ctx.log(f"{len(recs)} polygons/segments, {npairs} (object, query) pairs")
    jobs = [("single", recs[i:i + 40]) for i in range(0, len(recs), 40)]
    groups = {}
    for x in recs:
        if x["r"]["t"] != "seg":
            groups.setdefault((x["r"]["t"], x["r"].get("e", 0)), []).append(x)
    for k, v in groups.items():
        for i in range(0, len(v), 60):
            jobs.append(("coll", v[i:i + 60]))
    # 2 x 2 grids: two polygons (rows) x two embeddings with different projection axes (columns).  Whether a query point lies
    # in a polygon is a fact of the plane: the harness may embed any polygon of the dump by any of the specification's maps
    quads = [x for x in recs if x["r"]["t"] == "quad3"]
    embs = []
    for x in quads:
        if x["emb"] not in embs:
            embs.append(x["emb"])
    grids = []
    for i in range(0, len(quads) - 1, 2):
        for a in range(len(embs)):
            for b in range(len(embs)):
                if a != b and (i // 2 + a + 2 * b) % 5 == 0:
                    grids.append([[dict(quads[i], emb=embs[a]), dict(quads[i], emb=embs[b])],
                                  [dict(quads[i + 1], emb=embs[a]), dict(quads[i + 1], emb=embs[b])]])
    if len(grids) < 10:
        raise MachineryError("too few 2 x 2 polygon grids (vacuous)")
    grids = grids[:: max(1, len(grids) // 400)]
    jobs += [("grid", grids[i:i + 25]) for i in range(0, len(grids), 25)]
    with Pool(16) as pool:
        results = pool.map(_work, jobs, chunksize=1)
    for res in results:
        for m in res:
            if m["stratum"] == "machinery":
                raise MachineryError(m["observed"])
            ctx.mismatch(m["site"], m["stratum"], m["case"], m["expected"], m["observed"])
    for x in recs:
        if x["r"]["t"] == "seg":
            ctx.count(x["s"], n=len(x["r"]["q"]))
            ctx.nontrivial(str((x["r"]["a"], x["r"]["b"], x["r"]["ray"])))
        else:
            for lab in x["r"]["a"]["lab"]:
                ctx.count(LABELS[lab])
            for j, lab in enumerate(x["r"]["a"]["lab"]):
                if lab not in ("I", "O"):
                    ctx.nontrivial((str(x["r"]["poly"]), x["r"].get("e", 0), j))
    ctx.cov["traces_validated_against_impl"] += npairs
    ctx.sample({"poly": recs[0]["r"].get("poly"), "t": recs[0]["r"]["t"], "q": recs[0]["r"]["q"][:4]})
    # ---- code -> spec: recorded calls on larger coordinates, validated by TLC against Trace_Ops.tla
    from ..optrace import run_optrace

    run_optrace(ctx, ['seg_contains', 'poly_contains2', 'poly_contains3'])
