"""C17: polytope measures and equality against C17_Measures.tla."""
from __future__ import annotations

import math
from multiprocessing import Pool

import numpy as np

from ..abstraction import TOL, same_class
from ..core import Ctx, MachineryError, S, cfg_text, import_geometer, read_dump

RULE = ("cases = polygons enumerated by TLC (all grid triangles, simple quadrilaterals, pentagons/hexagon in every cyclic start "
        "and direction) at several lattice offsets, planar and under five embeddings into 3-space; all 24 orderings of "
        "quadrilateral vertex lists for equality; tetrahedra in every vertex order; cuboids on orthogonal integer frames; regular "
        "polygons at several centres; non-trivial = not at the origin, embedded, different-cycle, permuted")
INVS = ["CycleInvariantMeasures", "TranslationCovariant", "FanArea", "EmbeddedArea", "CircumEquidistant", "EqLaws"]


def close(a, b, tol=TOL):
    return bool(np.all(np.isfinite(np.asarray(a, dtype=float))) and abs(float(a) - float(b)) <= tol * max(1.0, abs(float(b))))


def replay(recs):
    g = import_geometer()
    out = []

    def chk(site, st, case, exp, fn, ok):
        try:
            val = fn()
            good = ok(val)
        except Exception as e:  # noqa: BLE001
            val, good = f"raised {type(e).__name__}: {e}", False
        if not good:
            out.append(dict(site=site, stratum=st, case=case, expected=exp,
                            observed=val if isinstance(val, str) else np.asarray(getattr(val, "array", val)).tolist()))

    for d in recs:
        r, st = d["r"], d["s"]
        t = r["t"]
        if t == "poly":
            n = len(r["poly"])
            case = {"poly": r["poly"], "embedding": r["e"]}
            if r["e"] == 0:
                verts = [g.Point(*v) for v in r["poly"]]
                area = r["area2"] / 2
                dim = 2
            else:
                verts = [g.Point(*v) for v in r["v3"]]
                area = math.sqrt(r["area3sq"][0] / r["area3sq"][1])
                dim = 3
            def is_rect(vs):
                e = [np.array(vs[(i + 1) % 4]) - np.array(vs[i]) for i in range(4)]
                return all(np.dot(e[i], e[(i + 1) % 4]) == 0 for i in range(4))
            # Rectangle(...) is constructed directly only for genuine rectangles; arbitrary quadrilaterals reach that class
            # only where the library itself chooses it (indexing a collection / a polyhedron), see replay_coll
            classes = [("Polygon", g.Polygon)] + ([("Triangle", g.Triangle)] if n == 3 else []) + \
                ([("Rectangle", g.Rectangle)] if n == 4 and is_rect(r["poly"]) else [])
            for cname, cls in classes:
                chk(f"{cname}.area/{dim}D", st, case, area, lambda: cls(*verts).area, lambda v: close(v, area))
            # the vertex list reversed / rotated through indexing the object itself (p[::-1], np.roll of its rows), and the
            # same for its edges (e[::-1], edges[:, ::-1]): the same measures
            def via_index():
                P0 = g.Polygon(*verts)
                try:
                    R = P0[::-1]
                except g.exceptions.LinearDependenceError:
                    if dim != 3:
                        raise
                    R = P0      # three collinear leading vertices do not span the plane of a polygon of 3-space (constructor limit)
                e = P0.edges
                e0 = e[0]
                vals = [float(np.real(R.area)), bool(R == P0), type(R).__name__,
                        same_class(e0[::-1].midpoint.array, e0.midpoint.array), float(abs(e0[::-1].length - e0.length)),
                        all(same_class(a, b) for a, b in zip(np.asarray(e[:, ::-1].midpoint.array), np.asarray(e.midpoint.array))),
                        float(np.max(np.abs(np.asarray(e[:, ::-1].length) - np.asarray(e.length)))),
                        bool(e0[::-1].contains(e0.midpoint)), bool(np.all(e[:, ::-1].contains(e.midpoint)))]
                if dim == 2:
                    vals.append(same_class(R.centroid.array, P0.centroid.array))
                return vals
            chk(f"Polygon[::-1] / Segment[::-1]/{dim}D", st, case, "the measures of the polygon and of its edges",
                via_index, lambda v: close(v[0], area) and v[1] is True and v[3] is True and v[4] < 1e-9 and v[5] is True and v[6] < 1e-9
                and v[7] is True and v[8] is True and (len(v) < 10 or v[9] is True))
            # invariance under isometries, on an object that has already been measured (everything it may memorise is filled)
            from ..moved import motions, warm
            for mname, mv, T, Ti in motions(dim):
                def moved_area(mv=mv):
                    x = warm(g.Polygon(*verts))
                    x.area, x.centroid
                    return mv(x).area
                chk(f"Polygon.area/{dim}D/measured-then-moved/{mname}", st, case, area, moved_area, lambda v: close(v, area))
                if dim == 2:
                    c2 = (np.array(T) @ np.array(r["centroid"])).tolist()

                    def moved_centroid(mv=mv):
                        x = warm(g.Polygon(*verts))
                        x.centroid
                        return mv(x).centroid
                    chk(f"Polygon.centroid/2D/measured-then-moved/{mname}", st, case, c2, moved_centroid, lambda v, c2=c2: same_class(v.array, c2))
            # ... and under a stretch that is no isometry (a memo that an isometry leaves numerically right is now stale)
            Sm = np.diag([2, 3, 1] if dim == 2 else [2, 3, 4, 1])

            def stretched(measured, what):
                x = g.Polygon(*verts)
                if measured:
                    warm(x)
                    x.area, x.centroid
                return getattr(g.Transformation(Sm) * x, what)
            if dim == 2:
                chk("Polygon.area/2D/measured-then-stretched", st, case, 6 * area, lambda: stretched(True, "area"), lambda v: close(v, 6 * area))
                cs = (Sm @ np.array(r["centroid"])).tolist()
                chk("Polygon.centroid/2D/measured-then-stretched", st, case, cs, lambda: stretched(True, "centroid"), lambda v, cs=cs: same_class(v.array, cs))
            else:
                chk("Polygon.area/3D/measured-then-stretched", st, case, "the area of the image of an unmeasured polygon",
                    lambda: [float(stretched(True, "area")), float(stretched(False, "area"))], lambda v: close(v[0], v[1]) and v[1] > 0)
            if dim == 2:
                c = r["centroid"]
                chk("Polygon.centroid/2D", st, case, c, lambda: g.Polygon(*verts).centroid, lambda v: same_class(v.array, c))
                # scaled vertex representatives must not matter for a measure (positive factors)
                sv = [g.Point(np.array(list(v) + [1]) * f) for v, f in zip(r["poly"], [2, 1, 3, 0.5, 1, 4])]
                chk("Polygon.area/2D/scaled-vertices", st, case, area, lambda: g.Polygon(*sv).area, lambda v: close(v, area))
                if n == 3:
                    cc = r["circum"]
                    chk("Triangle.circumcenter/2D", st, case, cc, lambda: g.Triangle(*verts).circumcenter, lambda v: same_class(v.array, cc))
                    chk("Triangle.volume/2D", st, case, area, lambda: g.Triangle(*verts).volume, lambda v: close(v, area))
            else:
                # centroid / circumcentre of the embedded polygon = embedded centroid / the point equidistant in the plane
                if n == 3:
                    def circ_ok(v):
                        p = np.asarray(v.normalized_array, dtype=float)[:-1]
                        ds = [np.linalg.norm(p - np.array(x)) for x in r["v3"]]
                        nrm = np.cross(np.array(r["v3"][1]) - r["v3"][0], np.array(r["v3"][2]) - r["v3"][0])
                        return max(ds) - min(ds) < 1e-6 and abs(np.dot(p - np.array(r["v3"][0]), nrm)) < 1e-6
                    chk("Triangle.circumcenter/3D", st, case, "equidistant from the vertices, in their plane",
                        lambda: g.Triangle(*verts).circumcenter, circ_ok)
                    chk("Triangle.volume/3D", st, case, area, lambda: g.Triangle(*verts).volume, lambda v: close(v, area))
        elif t == "eq":
            P = [g.Point(*v) for v in r["p"]]
            Q = [g.Point(*v) for v in r["q"]]
            case = {"p": r["p"], "q": r["q"]}
            chk("Polygon.__eq__", st, case, r["eq"], lambda: g.Polygon(*P) == g.Polygon(*Q), lambda v: bool(v) == r["eq"])
            chk("Polygon.__eq__/scaled", st, case, r["eq"],
                lambda: g.Polygon(*P) == g.Polygon(*[g.Point(np.array(list(v) + [1]) * f) for v, f in zip(r["q"], [2, -1, 3, 0.5])]),
                lambda v: bool(v) == r["eq"])
            def noncoll(vs):
                (a, b, c) = vs[:3]
                return (b[0] - a[0]) * (c[1] - a[1]) - (b[1] - a[1]) * (c[0] - a[0]) != 0
            if noncoll(r["p"]) and noncoll(r["q"]):      # constructor precondition of polygons in 3-space
                S3 = [g.Point(v[0], v[1], v[0] - v[1] + 1) for v in r["p"]]
                T3 = [g.Point(v[0], v[1], v[0] - v[1] + 1) for v in r["q"]]
                chk("Polygon.__eq__/3D", st, case, r["eq"], lambda: g.Polygon(*S3) == g.Polygon(*T3), lambda v: bool(v) == r["eq"])
        elif t == "tetra":
            V = [g.Point(*v) for v in r["v"]]
            vol = r["vol6"] / 6
            chk("Simplex.volume", st, {"v": r["v"]}, vol, lambda: g.Simplex(*V).volume, lambda v: close(v, vol))
        elif t == "cuboid":
            mk = lambda: g.Cuboid(g.Point(*r["a"]), g.Point(*r["b"]), g.Point(*r["c"]), g.Point(*r["d"]))  # noqa: E731
            case = {k: r[k] for k in ("a", "b", "c", "d")}
            chk("Cuboid.area", st, case, r["area"], lambda: mk().area, lambda v: close(v, r["area"]))
            chk("Polyhedron.faces.area(sum)", st, case, r["area"], lambda: float(np.sum(mk().faces.area)), lambda v: close(v, r["area"]))
            chk("Polyhedron[i].area(sum)", st, case, r["area"], lambda: float(sum(mk()[i].area for i in range(6))), lambda v: close(v, r["area"]))
            from ..moved import motions, warm
            for mname, mv, T, Ti in motions(3):
                chk(f"Cuboid.area/measured-then-moved/{mname}", st, case, r["area"], lambda mv=mv: mv(warm(mk())).area, lambda v: close(v, r["area"]))
            # measured, then stretched by diag(2, 3, 4) (not an isometry: a stale face list keeps the old area); the expected
            # area is that of the parallelepiped spanned by the stretched edge vectors
            Sd = np.array([2.0, 3.0, 4.0])
            eu, ev, ew = [Sd * (np.array(r[k], dtype=float) - np.array(r["a"], dtype=float)) for k in ("b", "c", "d")]
            sarea = 2 * float(np.linalg.norm(np.cross(eu, ev)) + np.linalg.norm(np.cross(eu, ew)) + np.linalg.norm(np.cross(ev, ew)))
            stretch = lambda o: g.Transformation(np.diag([2, 3, 4, 1])) * o  # noqa: E731
            chk("Cuboid.area/stretched", st, case, sarea, lambda: stretch(mk()).area, lambda v: close(v, sarea))
            chk("Cuboid.area/measured-then-stretched", st, case, sarea, lambda: stretch(warm(mk())).area, lambda v: close(v, sarea))
            chk("Polyhedron.faces.area(sum)/measured-then-stretched", st, case, sarea,
                lambda: float(np.sum(stretch(warm(mk())).faces.area)), lambda v: close(v, sarea))
            chk("Polyhedron.faces.vertices/measured-then-stretched", st, case, "the faces of the fresh image",
                lambda: np.asarray(stretch(warm(mk())).faces.array, dtype=float).tolist(),
                lambda v: np.allclose(np.asarray(v, dtype=float), np.asarray(stretch(mk()).faces.array, dtype=float)))
            chk("Cuboid.edges/vertices", st, case, {"edges": 12, "vertices": 8}, lambda: (len(mk().edges), len(mk().vertices)), lambda v: v == (12, 8))
            # the same solid with the three edge vertices in another order is the same polyhedron
            other = lambda: g.Cuboid(g.Point(*r["a"]), g.Point(*r["c"]), g.Point(*r["d"]), g.Point(*r["b"]))  # noqa: E731
            chk("Polyhedron.__eq__", st, case, True, lambda: mk() == other(), lambda v: bool(v) is True)
            moved = lambda: g.Cuboid(g.Point(*[x + 1 for x in r["a"]]), g.Point(*[x + 1 for x in r["b"]]), g.Point(*[x + 1 for x in r["c"]]), g.Point(*[x + 1 for x in r["d"]]))  # noqa: E731
            chk("Polyhedron.__eq__/translated", st, case, False, lambda: mk() == moved(), lambda v: bool(v) is False)
        elif t == "regular":
            n, c, rad = r["n"], r["c"], r["r"]
            ax = r.get("ax") or None
            mk = (lambda: g.RegularPolygon(g.Point(*c), rad, n)) if ax is None else (lambda: g.RegularPolygon(g.Point(*c), rad, n, axis=g.Point(*ax)))  # noqa: E731
            case = {"n": n, "center": c, "radius": rad, "axis": ax}
            st2 = ("regular/at-origin" if c == [0, 0] else "regular/elsewhere") if ax is None else st
            if ax is not None:
                def in_plane(vs):
                    A = np.array([np.asarray(v.normalized_array[:-1], dtype=float) for v in vs])
                    d = A - np.array(c, dtype=float)
                    return bool(np.all(np.abs(d @ np.array(ax, dtype=float)) <= 1e-9 * np.linalg.norm(ax) * rad)
                                and np.allclose(np.linalg.norm(d, axis=1), rad, rtol=1e-9)
                                and np.allclose(np.linalg.norm(np.roll(A, -1, axis=0) - A, axis=1), 2 * rad * math.sin(math.pi / n), rtol=1e-9))
                chk("RegularPolygon(axis).vertices", st2, case, "n points at distance r from the centre in the plane perpendicular to the axis, equally spaced",
                    lambda: mk().vertices, in_plane)
                # the length of the axis vector is irrelevant
                chk("RegularPolygon(axis)/axis-rescaled", st2, case, "the same polygon", lambda: (mk(), g.RegularPolygon(g.Point(*c), rad, n, axis=g.Point(*[3 * x for x in ax]))),
                    lambda v: bool(v[0] == v[1]))
            chk("RegularPolygon.radius", st2, case, rad, lambda: mk().radius, lambda v: close(v, rad))
            chk("RegularPolygon.center", st2, case, c, lambda: mk().center, lambda v: same_class(v.array, c + [1]))
            if r["inr2"][1] != 0:
                inr = math.sqrt(r["inr2"][0] / r["inr2"][1])
                chk("RegularPolygon.inradius", st2, case, inr, lambda: mk().inradius, lambda v: close(v, inr))
            area = n * rad * rad * math.sin(2 * math.pi / n) / 2
            chk("RegularPolygon.area", st2, case, area, lambda: mk().area, lambda v: close(v, area))
    return out


def replay_coll(recs):
    """PolygonCollection: area of the collection, of its items (indexing) and of the faces of a Polyhedron built from them."""
    g = import_geometer()
    out = []
    try:
        dim = 2 if recs[0]["r"]["e"] == 0 else 3
        if dim == 2:
            arr = np.array([[list(v) + [1] for v in d["r"]["poly"]] for d in recs])
            exp = np.array([d["r"]["area2"] / 2 for d in recs])
        else:
            arr = np.array([[list(v) + [1] for v in d["r"]["v3"]] for d in recs])
            exp = np.array([math.sqrt(d["r"]["area3sq"][0] / d["r"]["area3sq"][1]) for d in recs])
        pc = g.PolygonCollection(arr)
        variants = [("PolygonCollection.area", np.asarray(pc.area)),
                    ("PolygonCollection[i].area", np.array([float(pc[i].area) for i in range(len(recs))])),
                    ("iter(PolygonCollection).area", np.array([float(p.area) for p in pc]))]
        n2 = (len(recs) // 2) * 2
        if n2 >= 4:          # two collection axes (2 x n/2)
            pc2 = g.PolygonCollection(arr[:n2].reshape((2, n2 // 2) + arr.shape[1:]))
            a2 = np.asarray(pc2.area)
            variants.append(("PolygonCollection.area/two-axes", np.concatenate([a2.reshape(-1), exp[n2:]]) if a2.shape == (2, n2 // 2) else np.full(len(recs), np.nan)))
            variants.append(("PolygonCollection[i][j].area/two-axes", np.concatenate([np.array([float(pc2[i][j].area) for i in range(2) for j in range(n2 // 2)]), exp[n2:]])))
        if dim == 3:
            ph = g.Polyhedron(arr)
            variants += [("Polyhedron.faces.area", np.asarray(ph.faces.area)),
                         ("Polyhedron[i].area", np.array([float(ph[i].area) for i in range(len(recs))])),
                         ("Polyhedron.facets[i].area", np.array([float(f.area) for f in ph.facets]))]
        for name, got in variants:
            bad = np.flatnonzero(~(np.abs(got - exp) <= TOL * np.maximum(1, exp)))
            for i in bad[:2]:
                out.append(dict(site=f"{name}/{dim}D", stratum=recs[i]["s"], case={"poly": recs[i]["r"]["poly"], "embedding": recs[i]["r"]["e"], "position": int(i)},
                                expected=float(exp[i]), observed=float(got[i])))
    except Exception as e:  # noqa: BLE001
        out.append(dict(site="PolygonCollection.area", stratum="general", case={"count": len(recs)}, expected="areas",
                        observed=f"raised {type(e).__name__}: {e}"))
    return out


def _work(job):
    try:
        return replay(job[1]) if job[0] == "single" else replay_coll(job[1])
    except Exception:  # noqa: BLE001
        import traceback

        return [dict(site="harness", stratum="machinery", case="", expected="", observed=traceback.format_exc())]


TIER = {"quick": dict(G=2, stride=2), "thorough": dict(G=3, stride=2)}
TASKS = ["tri", "quad", "penta", "eq", "tetra", "cuboid", "regular"]


def run(ctx: Ctx):
    t = TIER[ctx.tier]
    cfg = cfg_text(constants={"Tasks": {S(x) for x in TASKS}, "G": t["G"], "Stride": t["stride"], "Seed": ctx.seed % 97,
                              "DoDump": True}, invariants=INVS, constraints=["Dump"])
    r = ctx.tlc("C17_Measures", cfg, dump=True)
    recs = list(read_dump(r["dump"]))
    strata = {}
    for x in recs:
        strata[x["s"]] = strata.get(x["s"], 0) + 1
    for need in ("planar/at-origin", "planar/elsewhere", "embedded/elsewhere", "same-cycle", "different-cycle", "tetra", "cuboid", "regular",
                 "regular3/axis-parallel", "regular3/axis-in-coordinate-plane", "regular3/axis-generic"):
        if not strata.get(need):
            raise MachineryError(f"stratum {need} never visited (vacuous)")
    ctx.log(f"{len(recs)} cases")
    jobs = [("single", recs[i:i + 150]) for i in range(0, len(recs), 150)]
    groups = {}
    for x in recs:
        if x["r"]["t"] == "poly":
            groups.setdefault((len(x["r"]["poly"]), x["r"]["e"]), []).append(x)
    for k, v in groups.items():
        for i in range(0, len(v), 40):
            jobs.append(("coll", v[i:i + 40]))
    with Pool(16) as pool:
        results = pool.map(_work, jobs, chunksize=1)
    for res in results:
        for m in res:
            if m["stratum"] == "machinery":
                raise MachineryError(m["observed"])
            ctx.mismatch(m["site"], m["stratum"], m["case"], m["expected"], m["observed"])
    for x in recs:
        ctx.count(x["s"])
        if x["s"] not in ("planar/at-origin",):
            ctx.nontrivial(str(x["r"]))
    ctx.cov["traces_validated_against_impl"] += len(recs)
    ctx.sample({k: v for k, v in recs[0]["r"].items()})
    ctx.sample({k: v for k, v in recs[-1]["r"].items()})
    # ---- code -> spec: recorded calls on larger coordinates, validated by TLC against Trace_Ops.tla
    from ..optrace import run_optrace

    run_optrace(ctx, ['area2', 'midpoint'])
