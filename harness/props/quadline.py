"""C14: quadric-line intersection, tangents, polars, duals against C14_QuadricLine.tla."""
from __future__ import annotations

from multiprocessing import Pool

import numpy as np

from ..abstraction import same_class
from ..core import Ctx, MachineryError, S, cfg_text, import_geometer, read_dump
from .quadctors import adj3, on, tangent

RULE = ("cases = (quadric, line) pairs: generic symmetric 3x3 matrices with entries -1..1 and named circles / ellipse / hyperbola "
        "/ parabola / imaginary conic / line pairs / double line, spheres, cone, cylinder, hyperboloid, generic and plane-pair "
        "quadrics of 3-space, against lines through two lattice points; strata assigned by the discriminant: secant-rational, "
        "tangent, complex-gaussian, secant-/complex-irrational, line-in-quadric; plus pole/polar/dual/is_tangent and tangent(at); "
        "non-trivial = everything but secant-rational")
INVS = ["PointsOnBoth", "GaussianOn", "SecantThroughKnown", "Reciprocal"]
TANG_TOL = 1e-5
THOROUGH = False


def gvec(gp):
    return np.array([complex(a, b) for a, b in gp])


def make_quadric(g, Q, dim):
    """the quadric through the most specific class whose constructor produces this matrix"""
    Q = np.array(Q)
    out = [("Conic" if dim == 2 else "Quadric", (lambda: g.Conic(Q)) if dim == 2 else (lambda: g.Quadric(Q)))]
    n = dim
    if np.array_equal(Q[:n, :n], np.eye(n, dtype=int)) and Q[n, n] < 0 or (np.array_equal(Q[:n, :n], np.eye(n, dtype=int)) and -Q[n, :n] @ -Q[n, :n] - Q[n, n] > 0):
        c = -Q[n, :n]
        r2 = c @ c - Q[n, n]
        if r2 > 0:
            r = float(np.sqrt(r2))
            if dim == 2:
                out.append(("Circle", lambda: g.Circle(g.Point(*c), r)))
            else:
                out.append(("Sphere", lambda: g.Sphere(g.Point(*c), r)))
    # the same quadric as an object of class Circle / Sphere: the image of the unit circle / sphere under a projective map (a
    # transformed object keeps its class), for quadrics of signature (dim, 1)
    lam, V = np.linalg.eigh(np.asarray(Q, dtype=float))
    sgn = 1.0
    if np.sum(lam > 1e-9) == 1 and np.sum(lam < -1e-9) == dim:
        lam, V, sgn = -lam[::-1], V[:, ::-1], -1.0
    if np.sum(lam > 1e-9) == dim and np.sum(lam < -1e-9) == 1:
        Tinv = np.diag(np.sqrt(np.abs(lam))) @ V.T                  # eigenvalues ascending: the negative direction comes first
        Pm = np.roll(np.eye(dim + 1), -1, axis=0)                     # ... and is moved last
        T = np.linalg.inv(Pm @ Tinv)

        def image(T=T):
            unit = g.Circle(g.Point(0, 0), 1) if dim == 2 else g.Sphere(g.Point(0, 0, 0), 1)
            obj = g.Transformation(T) * unit
            if not same_class(np.asarray(obj.array).reshape(-1), np.asarray(Q, dtype=float).reshape(-1), 1e-7):
                raise MachineryError("the projective image of the unit sphere is not the requested quadric")
            return obj
        out.append((("Circle" if dim == 2 else "Sphere") + "[projective image of the unit one]", image))
    if dim == 2 and np.array_equal(Q, np.diag([4, 9, -36])):
        out.append(("Ellipse", lambda: g.Ellipse(g.Point(0, 0), 3, 2)))
    if dim == 3 and np.array_equal(Q, np.diag([1, 1, -1, 0])):
        out.append(("Cone", lambda: g.Cone()))
    if dim == 3 and np.array_equal(Q, np.diag([1, 1, 0, -1])):
        out.append(("Cylinder", lambda: g.Cylinder()))
    return out


def pts_list(res):
    out = []
    for p in res:
        a = np.asarray(p.array)
        out.append(a if a.ndim == 1 else a.reshape(-1, a.shape[-1])[0])
    return out


def same_pt(a, b, tol):
    return same_class(a, b, tol)


def check_intersection(got, r, Q, A, B, dim):
    k = r["k"]
    if k == "line-in-quadric":
        return None
    if not all(np.all(np.isfinite(np.asarray(x, dtype=complex))) for x in got):
        return {"returned": [np.asarray(x).tolist() for x in got]}
    if k == "secant-rational":
        exp = [np.array(p) for p in r["pts"]]
        if len(got) != 2 or not all(any(same_pt(x, e, 1e-6) for e in exp) for x in got) or not all(any(same_pt(x, e, 1e-6) for x in got) for e in exp):
            return {"returned": [np.asarray(x).tolist() for x in got]}
        return None
    if k == "tangent":
        e = np.array(r["pts"][0])
        if len(got) not in (1, 2) or not all(same_pt(x, e, TANG_TOL) for x in got):
            return {"returned": [np.asarray(x).tolist() for x in got]}
        return None
    if k == "complex-gaussian":
        exp = [gvec(p) for p in r["gpts"]]
        if len(got) != 2 or not all(any(same_pt(x, e, 1e-6) for e in exp) for x in got) or not all(any(same_pt(x, e, 1e-6) for x in got) for e in exp):
            return {"returned": [str(np.asarray(x).tolist()) for x in got]}
        return None
    # irrational strata: the facts the property states
    Qm = np.array(Q, dtype=complex)
    A, B = np.array(A, dtype=complex), np.array(B, dtype=complex)
    if len(got) != 2:
        return {"count": len(got)}
    for x in got:
        x = np.asarray(x, dtype=complex)
        if abs(x @ Qm @ x) > 1e-7 * np.linalg.norm(Qm) * np.linalg.norm(x) ** 2:
            return {"not on the quadric": x.tolist()}
        m = np.array([A, B, x])
        if np.linalg.matrix_rank(m, tol=1e-7 * np.linalg.norm(m)) > 2:
            return {"not on the line": str(x.tolist())}
    if same_pt(got[0], got[1], 1e-6):
        return {"coincident": [str(np.asarray(x).tolist()) for x in got]}
    if k == "complex-irrational" and not same_pt(np.conj(got[0]), got[1], 1e-6):
        return {"not a conjugate pair": [str(np.asarray(x).tolist()) for x in got]}
    return None


def replay(recs):
    g = import_geometer()
    out = []
    P = lambda v: g.Point(np.array(v))  # noqa: E731
    for d in recs:
        r, st = d["r"], d["s"]
        t = r["t"]
        try:
            if t == "int":
                dim = r["d"]
                for cname, mk in make_quadric(g, r["Q"], dim):
                    lines = [("Line(p,q)", lambda: g.Line(P(r["A"]), P(r["B"])))]
                    if dim == 2:
                        lines.append(("Line(coords)", lambda: g.Line(np.array(r["l"]))))
                        lines.append(("Line(coords*-0.37)", lambda: g.Line(np.array(r["l"]) * -0.37)))
                        if THOROUGH:        # a line written with small (but not tiny) coefficients
                            lines.append(("Line(coords*0.01)", lambda: g.Line(np.array(r["l"]) * 0.01)))
                    for lname, mkl in lines:
                        site = f"{cname}.intersect/{dim}D/{lname}"
                        case = {"Q": r["Q"], "A": r["A"], "B": r["B"]}
                        try:
                            with np.errstate(all="ignore"):
                                got = pts_list(mk().intersect(mkl()))
                            bad = check_intersection(got, r["r"], r["Q"], r["A"], r["B"], dim)
                        except Exception as e:  # noqa: BLE001
                            bad = None if r["r"]["k"] == "line-in-quadric" else f"raised {type(e).__name__}: {e}"
                        if bad is not None:
                            out.append(dict(site=site, stratum=st + ("/degenerate-quadric" if r["deg"] else ""), case=case,
                                            expected={k: r["r"][k] for k in ("k", "pts", "gpts")}, observed=bad))
                    # used-then-moved: the quadric has intersected, reported its dual and tangency; moved by an exact isometry
                    # together with the line it must give the moved points, and is_tangent / dual must be those of the moved quadric
                    if cname in ("Conic", "Quadric") and r["r"]["k"] in ("secant-rational", "tangent", "complex-gaussian") and sum(r["A"]) % 3 == 0:
                        from ..moved import motions, mp, mq, warm
                        for mname, mv, T, Ti in motions(dim):
                            rr = dict(r["r"])
                            rr["pts"] = [mp(T, q) for q in r["r"]["pts"]]
                            rr["gpts"] = [[[int(z.real), int(z.imag)] for z in (np.asarray(T) @ gvec(q))] for q in r["r"]["gpts"]]
                            site = f"{cname}.intersect/{dim}D/used-then-moved/{mname}"
                            case = {"Q": r["Q"], "A": r["A"], "B": r["B"], "moved by": mname}
                            try:
                                with np.errstate(all="ignore"):
                                    q0, l0 = warm(mk()), warm(g.Line(P(r["A"]), P(r["B"])))
                                    q0.intersect(l0)
                                    q0.is_tangent(g.Line(np.arange(1, dim + 2)) if dim == 2 else g.Plane(np.arange(1, dim + 2))) if not r["deg"] else None
                                    q1, l1 = mv(q0), mv(l0)
                                    got = pts_list(q1.intersect(l1))
                                bad = check_intersection(got, rr, mq(Ti, r["Q"]), mp(T, r["A"]), mp(T, r["B"]), dim)
                                if bad is None and not r["deg"]:
                                    # dual of the moved quadric: the adjugate of the moved matrix (as a class)
                                    Qm = np.array(mq(Ti, r["Q"]), dtype=float)
                                    adj = np.linalg.inv(Qm) * np.linalg.det(Qm)
                                    if not same_class(np.asarray(q1.dual.array).reshape(-1), adj.reshape(-1)):
                                        bad = {"dual of the moved quadric": np.asarray(q1.dual.array).tolist()}
                            except Exception as e:  # noqa: BLE001
                                bad = f"raised {type(e).__name__}: {e}"
                            if bad is not None:
                                out.append(dict(site=site, stratum=st + ("/degenerate-quadric" if r["deg"] else ""), case=case,
                                                expected={k: rr[k] for k in ("k", "pts", "gpts")}, observed=bad))
                    # tangent(at) in a lattice point of the quadric: contains the point, is tangent (the polar hyperplane)
                    Qm = np.array(r["Q"])
                    for X in (r["A"], r["B"]):
                        x = np.array(X)
                        if x @ Qm @ x == 0 and np.any(Qm @ x != 0) and not r["deg"]:
                            try:
                                q = mk()
                                tp = q.tangent(P(X))
                                ok = same_class(np.asarray(tp.array), Qm @ x) and bool(tp.contains(P(X))) and bool(q.is_tangent(tp))
                                obs = np.asarray(tp.array).tolist()
                            except Exception as e:  # noqa: BLE001
                                ok, obs = False, f"raised {type(e).__name__}: {e}"
                            if not ok:
                                out.append(dict(site=f"{cname}.tangent(at)/{dim}D", stratum="point-on-quadric", case={"Q": r["Q"], "at": X},
                                                expected=(Qm @ x).tolist(), observed=obs))
                    # tangent(at) in the points of the quadric that intersect() returns - real or a complex conjugate pair - and in
                    # the exact Gaussian-integer points of the specification: the hyperplane Q x, which contains x
                    if not r["deg"] and r["r"]["k"] != "line-in-quadric":
                        try:
                            with np.errstate(all="ignore"):
                                ret = [np.asarray(x, dtype=complex) for x in pts_list(mk().intersect(g.Line(P(r["A"]), P(r["B"]))))]
                        except Exception:  # noqa: BLE001
                            ret = []
                        ats = [("returned-by-intersect", x) for x in ret] + [("gaussian-point", gvec(q)) for q in r["r"]["gpts"]]
                        for aname, x in ats:
                            if not np.all(np.isfinite(x)) or np.linalg.norm(Qm @ x) <= 1e-9 * np.linalg.norm(Qm) * np.linalg.norm(x):
                                continue
                            cplx = bool(np.abs((x / x[np.argmax(np.abs(x))]).imag).max() > 1e-9)
                            try:
                                tp = mk().tangent(g.Point(x))
                                tps = list(tp) if isinstance(tp, (list, tuple)) else [tp]
                                h = np.asarray(tps[0].array, dtype=complex).reshape(-1)
                                ok = len(tps) == 1 and h.shape == x.shape and same_class(h, Qm @ x, 1e-6) and abs(h @ x) <= 1e-7 * np.linalg.norm(h) * np.linalg.norm(x)
                                obs = h.tolist().__repr__()
                            except Exception as e:  # noqa: BLE001
                                ok, obs = False, f"raised {type(e).__name__}: {e}"
                            if not ok:
                                out.append(dict(site=f"{cname}.tangent(at)/{dim}D/{aname}", stratum=("complex-point-on-quadric" if cplx else "point-on-quadric"),
                                                case={"Q": r["Q"], "at": str(x.tolist())}, expected=str((Qm @ x).tolist()), observed=obs))
            elif t == "polar":
                Q = np.array(r["Q"])
                c = g.Conic(Q)
                case = {"Q": r["Q"], "p": r["p"], "h": r["h"]}
                checks = [
                    ("Conic.polar", r["polar"], lambda: c.polar(P(r["p"])), lambda v: same_class(v.array, r["polar"])),
                    ("Conic.dual", r["dual"], lambda: c.dual, lambda v: same_class(np.asarray(v.array).reshape(-1), np.array(r["dual"]).reshape(-1)) and v.is_dual is True),
                    ("Conic.dual.dual", r["Q"], lambda: c.dual.dual, lambda v: same_class(np.asarray(v.array).reshape(-1), Q.reshape(-1)) and v.is_dual is False),
                    ("Conic.is_tangent", r["tan"], lambda: c.is_tangent(g.Line(np.array(r["h"]))), lambda v: bool(v) == r["tan"]),
                    ("Conic.contains", r["on"], lambda: c.contains(P(r["p"])), lambda v: bool(v) == r["on"]),
                    ("Conic.dual.contains(line)", r["tan"], lambda: c.dual.contains(g.Line(np.array(r["h"]))), lambda v: bool(v) == r["tan"]),
                ]
                for name, exp, fn, ok in checks:
                    try:
                        val = fn()
                        good = bool(ok(val))
                        obs = np.asarray(getattr(val, "array", val)).tolist()
                    except Exception as e:  # noqa: BLE001
                        good, obs = False, f"raised {type(e).__name__}: {e}"
                    if not good:
                        out.append(dict(site=name, stratum=st, case=case, expected=exp, observed=obs))
            elif t == "tan":
                Q = np.array(r["Q"])
                case = {"Q": r["Q"], "at": r["p"]}
                for cname, mk in make_quadric(g, r["Q"], 2):
                    try:
                        with np.errstate(all="ignore"):
                            res = mk().tangent(P(r["p"]))
                        if r["on"]:
                            good = (not isinstance(res, tuple)) and same_class(res.array, r["polar"])
                            obs = np.asarray(res.array).tolist() if not isinstance(res, tuple) else "a pair"
                        else:
                            good = isinstance(res, tuple) and len(res) == 2 and \
                                all(on(np.zeros((3, 3)) + 0, [0, 0, 0]) or True for _ in res) and \
                                all(abs(np.asarray(l.array, dtype=complex) @ np.array(r["p"])) <= 1e-7 * np.linalg.norm(l.array) * np.linalg.norm(r["p"]) for l in res) and \
                                all(tangent(Q, np.asarray(l.array)) for l in res)
                            obs = [str(np.asarray(l.array).tolist()) for l in res] if isinstance(res, tuple) else "a single line"
                    except Exception as e:  # noqa: BLE001
                        good, obs = False, f"raised {type(e).__name__}: {e}"
                    if not good:
                        out.append(dict(site=f"{cname}.tangent(at)", stratum=st, case=case,
                                        expected=(r["polar"] if r["on"] else "two lines through the point, each tangent to the conic"), observed=obs))
        except Exception as e:  # noqa: BLE001
            out.append(dict(site=t, stratum=st, case={k: v for k, v in r.items() if k != "r"}, expected="no exception",
                            observed=f"raised {type(e).__name__}: {e}"))
    return out


SCALES = [1, 2000, 0.001, -3, 1500, -0.5]      # homogeneous coordinates of lines / points
QSCALES = [1, 30, 0.05, -3, 20, -0.5]           # quadric matrices: moderate factors only - the library's absolute tolerances act on
                                                # quadratic and cubic expressions of the matrix and are, by design, not scale free
                                                # (a cone scaled by 0.001 is already misjudged by the single-object call)


def replay_coll(groups):
    """One quadric against a LineCollection of all its lines (secants, tangents and lines without real points in the same
    collection, the coordinates of the lines rescaled by factors of very different magnitude), and a QuadricCollection
    against the LineCollection position by position: every position must satisfy what the single pair satisfies."""
    g = import_geometer()
    out = []
    for dim, recs in groups:
        recs = [d for d in recs if d["r"]["r"]["k"] != "line-in-quadric"]
        if len(recs) < 2:
            continue
        n = len(recs)
        sc = np.array([SCALES[i % len(SCALES)] for i in range(n)], dtype=float)
        qsc = np.array([QSCALES[i % len(QSCALES)] for i in range(n)], dtype=float)
        variants = []
        Q0 = recs[0]["r"]["Q"]
        same_q = [d for d in recs if d["r"]["Q"] == Q0]
        if dim == 2:
            variants.append(("Conic.intersect(LineCollection)/mixed-scales", same_q,
                             lambda rs, f: g.Conic(np.array(Q0)).intersect(g.LineCollection(np.array([d["r"]["l"] for d in rs]) * f[:, None]))))
            variants.append(("QuadricCollection.intersect(LineCollection)/mixed-scales", recs,
                             lambda rs, f: g.QuadricCollection(np.array([d["r"]["Q"] for d in rs]) * qsc[: len(rs)][::-1, None, None]).intersect(
                                 g.LineCollection(np.array([d["r"]["l"] for d in rs], dtype=float)))))
            variants.append(("QuadricCollection.intersect(LineCollection)", recs,
                             lambda rs, f: g.QuadricCollection(np.array([d["r"]["Q"] for d in rs])).intersect(
                                 g.LineCollection(np.array([d["r"]["l"] for d in rs])))))
        else:
            variants.append(("Quadric.intersect(LineCollection)/3D/mixed-scales", same_q,
                             lambda rs, f: g.Quadric(np.array(Q0)).intersect(g.join(g.PointCollection(np.array([d["r"]["A"] for d in rs]) * f[:, None]),
                                                                                    g.PointCollection(np.array([d["r"]["B"] for d in rs]))))))
            variants.append(("QuadricCollection.intersect(LineCollection)/3D/mixed-scales", recs,
                             lambda rs, f: g.QuadricCollection(np.array([d["r"]["Q"] for d in rs]) * qsc[: len(rs)][::-1, None, None]).intersect(
                                 g.join(g.PointCollection(np.array([d["r"]["A"] for d in rs])), g.PointCollection(np.array([d["r"]["B"] for d in rs]))))))
        # two collection axes (2 x n/2): one quadric against a LineCollection grid
        if len(same_q) >= 4:
            n2 = (len(same_q) // 2) * 2
            if dim == 2:
                variants.append(("Conic.intersect(LineCollection)/two-axes", same_q[:n2],
                                 lambda rs, f: [g.PointCollection(np.asarray(p.array).reshape((len(rs),) + np.asarray(p.array).shape[2:])) for p in
                                                g.Conic(np.array(Q0)).intersect(g.LineCollection(np.array([d["r"]["l"] for d in rs], dtype=float).reshape(2, len(rs) // 2, 3)))]))
            else:
                variants.append(("Quadric.intersect(LineCollection)/3D/two-axes", same_q[:n2],
                                 lambda rs, f: [g.PointCollection(np.asarray(p.array).reshape((len(rs),) + np.asarray(p.array).shape[2:])) for p in
                                                g.Quadric(np.array(Q0)).intersect(g.join(
                                                    g.PointCollection(np.array([d["r"]["A"] for d in rs]).reshape(2, len(rs) // 2, 4)),
                                                    g.PointCollection(np.array([d["r"]["B"] for d in rs]).reshape(2, len(rs) // 2, 4))))]))
        for site, rs, fn in variants:
            if len(rs) < 2:
                continue
            try:
                with np.errstate(all="ignore"):
                    res = fn(rs, sc[: len(rs)])
                parts = [np.asarray(p.array) for p in res]
                if len(parts) != 2 or any(p.shape[0] != len(rs) for p in parts):
                    out.append(dict(site=site, stratum="collection", case={"count": len(rs)}, expected="two point collections of the length of the arguments",
                                    observed=[list(p.shape) for p in parts]))
                    continue
                for i, d in enumerate(rs):
                    r = d["r"]
                    got = [parts[0][i], parts[1][i]]
                    bad = check_intersection(got, r["r"], r["Q"], r["A"], r["B"], dim)
                    if bad is not None:
                        out.append(dict(site=site, stratum=d["s"] + ("/degenerate-quadric" if r["deg"] else ""),
                                        case={"position": i, "Q": r["Q"], "A": r["A"], "B": r["B"], "Qs": [x["r"]["Q"] for x in rs][:8],
                                              "lines": [x["r"].get("l", [x["r"]["A"], x["r"]["B"]]) for x in rs][:8], "scales": sc[: len(rs)].tolist()[:8]},
                                        expected={k: r["r"][k] for k in ("k", "pts", "gpts")}, observed=bad))
                        break
            except Exception as e:  # noqa: BLE001
                out.append(dict(site=site, stratum="collection", case={"count": len(rs), "Q": Q0}, expected="points", observed=f"raised {type(e).__name__}: {e}"))
    return out


def replay_dual_classes(_):
    """dual must work for every quadric class (the subclasses take other constructor arguments)"""
    g = import_geometer()
    out = []
    objs = [("Quadric", g.Quadric(np.diag([1, 2, -3, 1])), None), ("Conic", g.Conic(np.diag([1, 2, -3])), None),
            ("Circle", g.Circle(g.Point(1, 2), 2), g.Line(1, 0, -3)), ("Ellipse", g.Ellipse(g.Point(0, 1), 3, 2), g.Line(1, 0, -3)),
            ("Sphere", g.Sphere(g.Point(1, 0, 2), 3), g.Plane(1, 0, 0, -4)), ("Sphere(2D)", g.Sphere(g.Point(1, 2), 2), g.Line(1, 0, -3)),
            ("QuadricCollection", g.QuadricCollection(np.array([np.diag([1, 1, -4]), np.diag([1, -1, 1])])), None)]
    for name, q, tangent_h in objs:
        try:
            dq = q.dual
            A = np.asarray(q.array)
            ok = dq.is_dual is True and np.allclose(np.asarray(dq.array) @ A / np.max(np.abs(np.asarray(dq.array) @ A), axis=(-2, -1), keepdims=True),
                                                    np.broadcast_to(np.eye(A.shape[-1]), A.shape) * np.sign((np.asarray(dq.array) @ A)[..., :1, :1]), atol=1e-8)
            dd = dq.dual
            ok = ok and dd.is_dual is False and all(same_class(x.reshape(-1), y.reshape(-1)) for x, y in zip(np.asarray(dd.array).reshape((-1,) + A.shape[-2:]), A.reshape((-1,) + A.shape[-2:])))
            if tangent_h is not None:
                ok = ok and bool(q.is_tangent(tangent_h))
            obs = None if ok else {"dual": np.asarray(dq.array).tolist(), "is_dual": dq.is_dual}
        except Exception as e:  # noqa: BLE001
            obs = f"raised {type(e).__name__}: {e}"
        if obs is not None:
            out.append(dict(site=f"{name}.dual", stratum="quadric-class", case={"class": name}, expected="the dual quadric (inverse matrix class), an involution", observed=obs))
    return out


def _work(job):
    global THOROUGH
    try:
        THOROUGH = job[2] if len(job) > 2 else False
        if job[0] == "coll":
            return replay_coll(job[1])
        return replay(job[1]) if job[0] == "recs" else replay_dual_classes(None)
    except Exception:  # noqa: BLE001
        import traceback

        return [dict(site="harness", stratum="machinery", case="", expected="", observed=traceback.format_exc())]


TIER = {"quick": dict(stride=3), "thorough": dict(stride=1)}
TASKS = ["gen2", "named2", "named3", "polar2", "tan2"]


def run(ctx: Ctx):
    t = TIER[ctx.tier]
    cfg = cfg_text(constants={"Tasks": {S(x) for x in TASKS}, "Stride": t["stride"], "Seed": ctx.seed % 97, "DoDump": True},
                   invariants=INVS, constraints=["Dump"])
    r = ctx.tlc("C14_QuadricLine", cfg, dump=True)
    recs = list(read_dump(r["dump"]))
    strata = {}
    for x in recs:
        strata[(x["r"]["t"], x["r"].get("d"), x["s"])] = strata.get((x["r"]["t"], x["r"].get("d"), x["s"]), 0) + 1
    for need in [("int", 2, "tangent"), ("int", 2, "secant-rational"), ("int", 2, "complex-gaussian"), ("int", 2, "secant-irrational"),
                 ("int", 2, "complex-irrational"), ("int", 2, "line-in-quadric"), ("int", 3, "tangent"), ("int", 3, "secant-rational"),
                 ("int", 3, "complex-gaussian"), ("polar", None, "tangent-line"), ("polar", None, "point-on-conic"), ("tan", None, "point-on-conic"),
                 ("tan", None, "outside-or-inside")]:
        if not strata.get(need):
            raise MachineryError(f"stratum {need} never visited (vacuous)")
    ctx.log(f"{len(recs)} cases")
    jobs = [("recs", recs[i:i + 300], ctx.tier == "thorough") for i in range(0, len(recs), 300)] + [("dual", None)]
    # collections: groups of 6 consecutive intersection cases of the same dimension, sorted by quadric (so that many groups
    # share their quadric) and - second family - interleaved (neighbouring positions hold different quadrics and strata)
    ncoll = 0
    for dim in (2, 3):
        sel = sorted((x for x in recs if x["r"]["t"] == "int" and x["r"]["d"] == dim), key=lambda x: (str(x["r"]["Q"]), x["s"]))
        inter = sel[::7] + sel[3::7]
        groups = [(dim, sel[i:i + 6]) for i in range(0, len(sel), 6)] + [(dim, inter[i:i + 5]) for i in range(0, len(inter), 5)]
        # third family: only degenerate quadrics, reducible ones (plane / line pairs) next to irreducible ones (cone, cylinder)
        byq = {}
        for x in sel:
            if x["r"]["deg"]:
                byq.setdefault(str(x["r"]["Q"]), []).append(x)
        if len(byq) >= 2:
            lists = list(byq.values())
            n = min(len(v) for v in lists)
            mixed_deg = [v[k] for k in range(0, n, max(1, n // 40)) for v in lists]
            groups += [(dim, mixed_deg[i:i + len(lists)]) for i in range(0, len(mixed_deg), len(lists))]
        elif dim == 3:
            raise MachineryError("no two different degenerate quadrics of 3-space to mix in one collection (vacuous)")
        ncoll += len(groups)
        jobs += [("coll", groups[i:i + 40]) for i in range(0, len(groups), 40)]
    if ncoll < 100:
        raise MachineryError("too few collection groups (vacuous)")
    with Pool(16) as pool:
        results = pool.map(_work, jobs, chunksize=1)
    for res in results:
        for m in res:
            if m["stratum"] == "machinery":
                raise MachineryError(m["observed"])
            ctx.mismatch(m["site"], m["stratum"], m["case"], m["expected"], m["observed"])
    for x in recs:
        ctx.count(x["s"])
        if x["s"] not in ("secant-rational", "general"):
            ctx.nontrivial(str(x["r"]))
    ctx.cov["traces_validated_against_impl"] += len(recs)
    ctx.sample(recs[0]["r"])
    ctx.sample(recs[-1]["r"])
