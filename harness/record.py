"""Code -> specification direction: drivers run the real library on seeded random programs over a
larger lattice than the exhaustive configs, log one event per public call AFTER it returned or
raised (the linearisation point of a sequential library), and TLC validates the log.

The recorder is inert unless GEOMETER_VERIF_TRACE=1 (bin/check sets it)."""
from __future__ import annotations

import json
import os
import random

import numpy as np

ENABLED = os.environ.get("GEOMETER_VERIF_TRACE") == "1"


class Lattice:
    """Seeded source of integer vectors with a bias towards degenerate configurations."""

    def __init__(self, seed: int, K: int):
        self.r = random.Random(seed)
        self.K = K

    def vec(self, n, nonzero=True):
        while True:
            v = [self.r.randint(-self.K, self.K) for _ in range(n)]
            if not nonzero or any(v):
                return v

    def point(self, n, finite_bias=0.7):
        v = self.vec(n)
        if self.r.random() < finite_bias and v[-1] == 0:
            v[-1] = self.r.choice([1, 1, 2, -1])
        return v

    def multiple(self, v):
        k = self.r.choice([-2, -1, 2, 3, 1])
        return [k * x for x in v]

    def combo(self, a, b):
        """a point on the line a b"""
        while True:
            s, t = self.r.randint(-2, 2), self.r.randint(-2, 2)
            v = [s * x + t * y for x, y in zip(a, b)]
            if any(v):
                return v

    def orth(self, vs, n):
        """a non-zero integer vector orthogonal to all of vs (hyperplane through them), or None"""
        m = np.array(vs, dtype=float)
        _, s, vh = np.linalg.svd(m)
        null = vh[len([x for x in s if x > 1e-9]):]
        if len(null) == 0:
            return None
        # integer null vector by cross products for n = 3, 4 with |vs| = n - 1
        if n == 3 and len(vs) == 2:
            return [int(x) for x in np.cross(vs[0], vs[1])]
        return None


def write_ndjson(path, events):
    with open(path, "w") as f:
        for e in events:
            f.write(json.dumps(e) + "\n")
