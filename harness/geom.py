"""Builders: abstract (integer) objects of the specification -> real geometer objects."""
from __future__ import annotations

import numpy as np

from .abstraction import matrix_from_pluecker, pluecker_dual


def G():
    from .core import import_geometer

    return import_geometer()


def to_np(v):
    """Integer vector, or Gaussian-integer vector given as [[re, im], ...]."""
    a = np.asarray(v)
    if a.ndim >= 2 and a.shape[-1] == 2 and a.dtype != object and _is_gauss(v):
        return a[..., 0] + 1j * a[..., 1]
    return a


def _is_gauss(v):
    return isinstance(v, (list, tuple)) and len(v) > 0 and isinstance(v[0], (list, tuple))


def build(kind: str, v, *, scale=1, via: str = "array"):
    """A single geometer object of the given abstract kind from integer coordinates."""
    g = G()
    a = np.asarray(v)
    if scale != 1:
        a = a * scale
    if kind == "point":
        return g.Point(a)
    if kind == "line":
        return g.Line(a)
    if kind == "plane":
        return g.Plane(a)
    if kind == "line3":
        if via == "points":
            p, q = two_points_of_line3(v)
            return g.Line(g.Point(np.asarray(p) * scale), g.Point(np.asarray(q)))
        return g.Line(matrix_from_pluecker(pluecker_dual(a)))
    raise ValueError(kind)


def build_coll(kind: str, vs, shape=None):
    """A collection from a list of integer vectors (optionally reshaped to `shape`)."""
    g = G()
    a = np.asarray(vs)
    if kind == "line3":
        a = matrix_from_pluecker(pluecker_dual(a))
        if shape is not None:
            a = a.reshape(tuple(shape) + (4, 4))
        return g.LineCollection(a)
    if shape is not None:
        a = a.reshape(tuple(shape) + (a.shape[-1],))
    if kind == "point":
        return g.PointCollection(a)
    if kind == "line":
        return g.LineCollection(a)
    if kind == "plane":
        return g.PlaneCollection(a)
    raise ValueError(kind)


def two_points_of_line3(p):
    """Two independent integer points on the line with point-form Pluecker vector p
    (rows of the antisymmetric matrix P span the line)."""
    m = matrix_from_pluecker(np.asarray(p))
    rows = [m[i] for i in range(4) if np.any(m[i] != 0)]
    a = rows[0]
    for b in rows[1:]:
        if np.any(np.outer(a, b) - np.outer(b, a) != 0):
            return a, b
    raise ValueError("degenerate Pluecker vector")
