"""Harness package.  geometer is always imported from $GEOMETER_SRC (default /repo): put it first on sys.path before anything
can import the editable install by accident (import_geometer() verifies where the package really came from)."""
import os
import sys

_src = os.environ.get("GEOMETER_SRC", "/repo")
if not sys.path or sys.path[0] != _src:
    sys.path.insert(0, _src)
