"""Code -> spec binding for stateless operations (spec/Trace_Ops.tla).

A seeded driver runs the real library on integer coordinates larger than the lattices TLC enumerates exhaustively, logs one
event per call with the projected result, and TLC decides for every event whether it is what the library modules of the
specification compute for the logged arguments.  Used by the checks of C06, C07, C09, C10, C11, C13, C16, C17."""
from __future__ import annotations

import random
from fractions import Fraction

import numpy as np

from .abstraction import coords_of, project_class
from .core import Ctx, MachineryError, cfg_text, import_geometer, read_dump
from .record import write_ndjson

BADRAT = [123456789, 1]          # the projection found no small rational: no specification value equals this


def rat(x, maxden=20000):
    """[n, d] of a float that is (numerically) a small rational; BADRAT otherwise; infinity [1, 0]; nan [0, 0]."""
    x = complex(x)
    if np.isnan(x.real) or np.isnan(x.imag):
        return [0, 0]
    if abs(x.imag) > 1e-7 * max(1.0, abs(x)):
        return BADRAT
    x = x.real
    if np.isinf(x):
        return [1, 0]
    f = Fraction(x).limit_denominator(maxden)
    if abs(float(f) - x) > 1e-7 * max(1.0, abs(x)):
        return BADRAT
    return [f.numerator, f.denominator]


def cls(t, n):
    """primitive integer class of a returned tensor (zeros of the expected length if it is not a small rational class)"""
    try:
        c = project_class(np.asarray(coords_of(t)).reshape(-1))
    except Exception:  # noqa: BLE001
        c = None
    return list(c) if c is not None and len(c) == n else [0] * n


# simple polygons (Cartesian integer vertices), moved and stretched by the driver
POLYS = [[(0, 0), (4, 0), (4, 3), (0, 3)], [(0, 0), (5, 1), (2, 4)], [(0, 0), (4, 0), (4, 4), (2, 1), (0, 4)],
         [(0, 2), (2, 0), (4, 2), (2, 4)], [(0, 0), (6, 0), (6, 2), (2, 2), (2, 5), (0, 5)], [(1, 0), (3, 0), (4, 2), (2, 4), (0, 2)]]


class Driver:
    def __init__(self, seed, K=9):
        self.r = random.Random(seed)
        self.K = K
        self.g = import_geometer()

    def A(self, v):
        """the coordinates as an array of a dtype drawn by the driver: int64 mostly, also float64, int32 and - when no entry is
        negative - uint32 / uint64 (what the library computes must not depend on how the exact integers are stored)"""
        a = np.array(v)
        u = self.r.random()
        if u < 0.5 or a.dtype.kind != "i":
            return a
        if u < 0.65:
            return a.astype(np.float64)
        if u < 0.8 or a.min() < 0:
            return a.astype(np.int32)
        return a.astype(np.uint32 if u < 0.9 else np.uint64)

    def ints(self, n, lo=None, hi=None):
        lo = -self.K if lo is None else lo
        hi = self.K if hi is None else hi
        return [self.r.randint(lo, hi) for _ in range(n)]

    def fin(self, dim):
        """finite homogeneous point with w in 1..3 (sometimes negative representative)"""
        w = self.r.choice([1, 1, 2, 3])
        v = self.ints(dim) + [w]
        return v if self.r.random() < 0.8 else [-x for x in v]

    def hyper(self, dim):
        while True:
            h = self.ints(dim, -5, 5)
            if any(h):
                return h + [self.r.randint(-9, 9)]

    def poly(self):
        p = self.r.choice(POLYS)
        s, (dx, dy) = self.r.choice([1, 1, 2]), self.ints(2, -4, 4)
        q = [(s * x + dx, s * y + dy) for x, y in p]
        k = self.r.randrange(len(q))
        q = q[k:] + q[:k]
        return [list(v) for v in (q if self.r.random() < 0.5 else q[::-1])]

    # ---- one event per operation ------------------------------------------------------------
    def ev(self, op):
        g, r = self.g, self.r
        P = lambda v: g.Point(self.A(v))  # noqa: E731
        if op == "dist2_pp":
            dim = r.choice([2, 3])
            p, q = self.fin(dim), (self.fin(dim))
            if r.random() < 0.1:
                q = [x * 2 for x in p]
            return [p, q], rat(g.dist(P(p), P(q)) ** 2)
        if op == "dist2_ph":
            dim = r.choice([2, 3])
            p, h = self.fin(dim), self.hyper(dim)
            if r.random() < 0.15:       # incident
                h[-1] = 0
                h = [x * p[-1] for x in h[:-1]] + [-sum(a * b for a, b in zip(h[:-1], p[:-1]))]
            H = g.Line(self.A(h)) if dim == 2 else g.Plane(self.A(h))
            return [p, h], rat(g.dist(H, P(p)) ** 2 if r.random() < 0.5 else g.dist(P(p), H) ** 2)
        if op in ("foot_ph", "mirror_ph"):
            dim = r.choice([2, 3])
            p, h = self.fin(dim), self.hyper(dim)
            H = g.Line(self.A(h)) if dim == 2 else g.Plane(self.A(h))
            res = H.project(P(p)) if op == "foot_ph" else H.mirror(P(p))
            return [p, h], cls(res, dim + 1)
        if op == "midpoint":
            dim = r.choice([2, 3])
            a, b = self.ints(dim), self.ints(dim)
            if a == b:
                b[0] += 1
            return [a + [1], b + [1]], cls(g.Segment(g.Point(*a), g.Point(*b)).midpoint, dim + 1)
        if op == "seg_contains":
            dim = r.choice([2, 3])
            a, b = self.ints(dim), self.ints(dim)
            if a == b:
                b[0] += 1
            u = r.random()
            if u < 0.6:      # on the supporting line: a + t (b - a), t = k/m
                m = r.choice([1, 2, 3])
                k = r.randint(-2, 5)
                p = [m * x + k * (y - x) for x, y in zip(a, b)] + [m]
            else:
                p = self.ints(dim) + [r.choice([1, 2])]
            return [a, b, p], bool(g.Segment(g.Point(*a), g.Point(*b)).contains(P(p)))
        if op == "poly_contains2":
            poly = self.poly()
            w = r.choice([1, 1, 2, 3])
            xs = [v[0] for v in poly]
            ys = [v[1] for v in poly]
            p = [r.randint(w * min(xs) - 2, w * max(xs) + 2), r.randint(w * min(ys) - 2, w * max(ys) + 2), w]
            cl = g.Polygon
            if len(poly) == 3 and r.random() < 0.5:
                cl = g.Triangle
            return [poly, p], bool(cl(*[g.Point(*v) for v in poly]).contains(P(p)))
        if op == "poly_contains3":
            poly2 = self.poly()
            # embed into the plane z = a x + b y + c (integer): a planar polygon of 3-space
            a, b, c = self.ints(3, -2, 2)
            poly = [[x, y, a * x + b * y + c] for x, y in poly2]
            w = r.choice([1, 1, 2])
            xs = [v[0] for v in poly]
            ys = [v[1] for v in poly]
            x, y = r.randint(w * min(xs) - 1, w * max(xs) + 1), r.randint(w * min(ys) - 1, w * max(ys) + 1)
            z = a * x + b * y + c * w + (0 if r.random() < 0.8 else 1)
            p = [x, y, z, w]
            return [poly, p], bool(g.Polygon(*[g.Point(*v) for v in poly]).contains(P(p)))
        if op == "area2":
            poly = self.poly()
            return [poly], rat(2 * g.Polygon(*[g.Point(*v) for v in poly]).area)
        if op == "crossratio":
            dim = r.choice([1, 2, 3])
            while True:
                a, d = self.ints(dim + 1, -4, 4), self.ints(dim + 1, -4, 4)
                if any(a[i] * d[j] - a[j] * d[i] for i in range(dim + 1) for j in range(dim + 1)):
                    break
            params = r.sample([(1, 0), (0, 1), (1, 1), (-1, 1), (2, 1), (1, 2), (3, 1), (-2, 1), (3, 2), (-1, 3)], 4)
            pts = [[s * x + t * y for x, y in zip(a, d)] for s, t in params]
            return pts, rat(g.crossratio(*[P(p) for p in pts]))
        if op in ("apply_point", "apply_hyper"):
            dim = r.choice([2, 3])
            while True:
                M = [self.ints(dim + 1, -3, 3) for _ in range(dim + 1)]
                if abs(round(np.linalg.det(np.array(M)))) >= 1:
                    break
            T = g.Transformation(self.A(M))
            if op == "apply_point":
                p = self.ints(dim + 1)
                if not any(p):
                    p[0] = 1
                return [M, p], cls(T * P(p), dim + 1)
            h = self.hyper(dim)
            H = g.Line(self.A(h)) if dim == 2 else g.Plane(self.A(h))
            return [M, h], cls(T * H, dim + 1)
        if op == "is_collinear":
            a, b = self.fin(2), self.fin(2)
            c = [s + t for s, t in zip(a, b)] if r.random() < 0.4 else self.fin(2)
            return [a, b, c], bool(g.is_collinear(P(a), P(b), P(c)))
        if op == "is_coplanar":
            a, b, c = self.fin(3), self.fin(3), self.fin(3)
            d = [x + 2 * y - z for x, y, z in zip(a, b, c)] if r.random() < 0.4 else self.fin(3)
            return [a, b, c, d], bool(g.is_coplanar(P(a), P(b), P(c), P(d)))
        if op == "conic_contains":
            A = [self.ints(3, -4, 4) for _ in range(3)]
            Q = [[A[i][j] + A[j][i] for j in range(3)] for i in range(3)]
            p = self.fin(2)
            if r.random() < 0.5:     # force the point onto the conic by solving for the constant term when w != 0
                x, y, w = p
                rest = sum(Q[i][j] * p[i] * p[j] for i in range(3) for j in range(3)) - Q[2][2] * w * w
                if rest % (w * w) == 0:
                    Q[2][2] = -rest // (w * w)
            if not np.any(Q):
                Q[0][0] = 1
            return [Q, p], bool(g.Conic(self.A(Q)).contains(P(p)))
        if op == "on_hyper":
            dim = r.choice([2, 3])
            p, h = self.fin(dim), self.hyper(dim)
            if r.random() < 0.5:
                h = [x * p[-1] for x in h[:-1]] + [-sum(a * b for a, b in zip(h[:-1], p[:-1]))]
            H = g.Line(self.A(h)) if dim == 2 else g.Plane(self.A(h))
            return [p, h], bool(H.contains(P(p)))
        raise ValueError(op)


def record(ops, seed, n):
    d = Driver(seed)
    events = []
    while len(events) < n:
        op = ops[len(events) % len(ops)]
        try:
            with np.errstate(all="ignore"):
                a, res = d.ev(op)
            events.append({"op": op, "a": a, "r": res})
        except Exception as e:  # noqa: BLE001  -- the library raised where the specification defines a value
            events.append({"op": op, "a": getattr(e, "args_logged", []), "r": None, "exc": f"{type(e).__name__}: {e}"})
    return events


def run_optrace(ctx: Ctx, ops, n_quick=2400, n_thorough=24000):
    """record, validate with TLC, turn rejected events into mismatches; returns the number of events"""
    n = n_quick if ctx.tier == "quick" else n_thorough
    total = 0
    for part in range(0, n, 6000):
        events = record(ops, ctx.seed * 7919 + part, min(6000, n - part))
        raised = [e for e in events if e.get("exc")]
        for e in raised:
            ctx.mismatch(f"{e['op']}/trace", "trace:raised", {"op": e["op"]}, "a value (a step of Trace_Ops!TrOp)", e["exc"])
        events = [e for e in events if not e.get("exc")]
        path = ctx.work / f"optrace{part}.ndjson"
        write_ndjson(path, events)
        cfg = cfg_text(spec="TraceSpec", constants={}, invariants=[], constraints=["Report"], postcondition="TraceAccepted")
        r = ctx.tlc("Trace_Ops", cfg, name=f"optrace{part}", workers=1, dump=True, env={"TRACE_FILE": str(path)})
        rep = list(read_dump(r["dump"]))
        if not rep or rep[-1]["consumed"] != len(events):
            raise MachineryError("operation trace was not consumed to the end")
        for l, why in rep[-1]["bad"]:
            e = events[l - 1]
            ctx.mismatch(f"{e['op']}/trace", "trace:" + why.split(":")[1], {"op": e["op"], "args": e["a"]},
                         "the value of the specification's operator on the logged arguments (Trace_Ops!Expected)", {"logged result": e["r"]})
        for e in events:
            ctx.count("trace/" + e["op"])
        total += len(events)
        if events:
            ctx.sample({"recorded_event": events[0]})
    ctx.cov["traces_validated_against_impl"] += total
    ctx.cov["trace_events"] = ctx.cov.get("trace_events", 0) + total
    return total
