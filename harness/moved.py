"""Used-then-moved variants.

An object that has already answered queries (so that whatever it memorises is filled) is moved by an exact integer isometry
and asked again: the answers must be those of the moved object.  The specification's expected values are carried along by
the same integer map (exact: points p -> T p, hyperplanes h -> T^-T h, quadrics Q -> T^-T Q T^-1), which is the statement of
C07 applied to the expected data, so no new oracle is involved."""
from __future__ import annotations

import numpy as np

from .core import import_geometer

VEC = {2: [3, -2], 3: [3, -2, 5]}


def warm(obj):
    """read every public property of the object once (exceptions are irrelevant here)"""
    for name in dir(type(obj)):
        if name.startswith("_"):
            continue
        if isinstance(getattr(type(obj), name, None), property) or type(getattr(type(obj), name, None)).__name__ == "cached_property":
            try:
                with np.errstate(all="ignore"):
                    getattr(obj, name)
            except Exception:  # noqa: BLE001
                pass
    return obj


def tmat(dim, kind="translation"):
    """integer matrix of the motion and of its inverse"""
    n = dim + 1
    if kind == "translation":
        T, Ti = np.eye(n, dtype=int), np.eye(n, dtype=int)
        T[:-1, -1] = VEC[dim]
        Ti[:-1, -1] = [-x for x in VEC[dim]]
        return T, Ti
    # quarter turn (about the origin in the plane, about the x-axis in space) followed by the translation
    R = np.eye(n, dtype=int)
    i, j = (0, 1) if dim == 2 else (1, 2)
    R[i, i], R[i, j], R[j, i], R[j, j] = 0, -1, 1, 0
    T0, T0i = tmat(dim)
    return T0 @ R, R.T @ T0i


def motions(dim):
    """(name, function moving a geometer object, T, T^-1)"""
    g = import_geometer()
    v = VEC[dim]
    T, Ti = tmat(dim)
    R, Ri = tmat(dim, "turn")
    return [("translation", lambda o: g.translation(*v) * o, T, Ti),
            ("+point", lambda o: o + g.Point(*v), T, Ti),
            ("quarter-turn+translation", lambda o: g.Transformation(R) * o, R, Ri)]


def mp(T, p):
    """image of a homogeneous point (any numeric type)"""
    return (np.asarray(T) @ np.asarray(p)).tolist()


def mh(Ti, h):
    """image of a hyperplane"""
    return (np.asarray(Ti).T @ np.asarray(h)).tolist()


def mq(Ti, Q):
    """image of a quadric matrix"""
    return (np.asarray(Ti).T @ np.asarray(Q) @ np.asarray(Ti)).tolist()


def mc(T, v):
    """image of a Cartesian integer point"""
    return mp(T, list(v) + [1])[:-1]
