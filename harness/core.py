"""Common machinery: work directories, TLC runner, evidence, violations, known findings.

Exit codes of a check: 0 = property held on everything explored, 1 = violation (with a
`VIOLATION property=<id> replay=<path>` line), 2 = machinery failure (no verdict).
"""
from __future__ import annotations

import hashlib
import json
import os
import re
import shutil
import subprocess
import sys
import time
from pathlib import Path

ROOT = Path(__file__).resolve().parent.parent
SPEC = ROOT / "spec"
LIB = SPEC / "lib"
WORK = ROOT / ".work"
EVID = ROOT / "evidence"
REPLAYS = ROOT / "replays"
JAR = "/opt/veriftools/tla/tla2tools.jar:/opt/veriftools/tla/CommunityModules-deps.jar"

GEOMETER_SRC = os.environ.get("GEOMETER_SRC", "/repo")


class MachineryError(Exception):
    """Something in /verif itself failed (TLC error, lost dump line, vacuous stratum...)."""


def pin_env() -> None:
    for k in ("OMP_NUM_THREADS", "OPENBLAS_NUM_THREADS", "MKL_NUM_THREADS"):
        os.environ.setdefault(k, "1")
    os.environ.setdefault("PYTHONHASHSEED", "0")


def import_geometer():
    """Import geometer from the current working tree of the repository (or $GEOMETER_SRC)."""
    if sys.path[0] != GEOMETER_SRC:
        sys.path.insert(0, GEOMETER_SRC)
    import geometer  # noqa: F401

    src = os.path.realpath(os.path.dirname(geometer.__file__))
    want = os.path.realpath(os.path.join(GEOMETER_SRC, "geometer"))
    if src != want:
        raise MachineryError(f"geometer imported from {src}, expected {want}")
    return geometer


def repo_commit() -> str:
    try:
        return subprocess.run(["git", "-C", GEOMETER_SRC, "rev-parse", "--short", "HEAD"],
                              capture_output=True, text=True, timeout=20).stdout.strip()
    except Exception:
        return "unknown"


class Ctx:
    """One run of one check."""

    def __init__(self, prop: str, tier: str, seed: int):
        self.prop = prop
        self.tier = tier
        self.seed = seed
        self.t0 = time.time()
        self.work = WORK / f"{prop}-{tier}-{os.getpid()}"
        if self.work.exists():
            shutil.rmtree(self.work)
        self.work.mkdir(parents=True)
        EVID.mkdir(exist_ok=True)
        REPLAYS.mkdir(exist_ok=True)
        self.violations: list[dict] = []
        self.known_hits: dict[str, dict] = {}
        self.cov: dict = {"states": 0, "transitions": 0, "traces_validated_against_impl": 0,
                          "evaluations": 0, "samples": [], "strata": {}, "tlc_runs": [],
                          "actions": {}}
        self.assumptions: list[str] = []
        self.nontrivial_keys: set = set()
        self.known = load_known()
        self.log_lines: list[str] = []

    # -- logging -----------------------------------------------------------------------
    def log(self, msg: str) -> None:
        line = f"[{self.prop} {time.time() - self.t0:6.1f}s] {msg}"
        print(line, flush=True)

    # -- bookkeeping -------------------------------------------------------------------
    def count(self, stratum: str, n: int = 1, key=None) -> None:
        s = self.cov["strata"]
        s[stratum] = s.get(stratum, 0) + n
        self.cov["evaluations"] += n

    def nontrivial(self, key) -> None:
        self.nontrivial_keys.add(key)

    def sample(self, obj, limit: int = 6) -> None:
        if len(self.cov["samples"]) < limit:
            self.cov["samples"].append(obj)

    # -- verdicts ----------------------------------------------------------------------
    def mismatch(self, site: str, stratum: str, case, expected, observed, note: str = "") -> None:
        """A disagreement between the specification's answer and the implementation's."""
        key = f"{self.prop}|{site}|{stratum}"
        rec = {"property": self.prop, "site": site, "stratum": stratum, "case": case,
               "expected": expected, "observed": observed, "note": note,
               "geometer_commit": repo_commit(), "seed": self.seed, "tier": self.tier}
        if key in self.known["findings"]:
            h = self.known_hits.setdefault(key, {"n": 0, "example": rec})
            h["n"] += 1
            return
        self.violations.append(rec)

    def finish(self, level: str = "model_checking", rule: str = "", extra: dict | None = None) -> int:
        wall = time.time() - self.t0
        group = getattr(self, "replay_group", None)
        if group is not None:
            hits = [v for v in self.violations if f"{v['site']}|{v['stratum']}" == group]
            shutil.rmtree(self.work, ignore_errors=True)
            if hits:
                p = REPLAYS / f"{self.prop}-replayed.json"
                with open(p, "w") as f:
                    json.dump({"property": self.prop, "group": group, "count": len(hits), "cases": hits[:5]}, f, indent=1, default=str)
                print(f"VIOLATION property={self.prop} replay={p}   ({len(hits)} case(s) in group {group})", flush=True)
                return 1
            print(f"replay: group {group} of {self.prop} no longer reproduces on this tree", flush=True)
            return 0
        # known findings: one line each
        for key, h in sorted(self.known_hits.items()):
            f = self.known["findings"][key]
            print(f"KNOWN-FINDING: property={self.prop} {f['site']} [{f['stratum']}] {f['what']} "
                  f"(hit {h['n']}x, e.g. {json.dumps(h['example']['case'], default=str)[:160]})", flush=True)
        # violations: group by (site, stratum), one replay file per group (first 5 cases kept)
        groups: dict[str, list[dict]] = {}
        for v in self.violations:
            groups.setdefault(f"{v['site']}|{v['stratum']}", []).append(v)
        paths = []
        for g, vs in sorted(groups.items()):
            digest = hashlib.sha1(json.dumps(vs[0], sort_keys=True, default=str).encode()).hexdigest()[:10]
            p = REPLAYS / f"{self.prop}-{digest}.json"
            with open(p, "w") as f:
                json.dump({"property": self.prop, "group": g, "count": len(vs), "cases": vs[:5]}, f,
                          indent=1, default=str)
            paths.append((g, len(vs), p))
        cov = self.cov
        cov["distinct_nontrivial"] = len(self.nontrivial_keys)
        cov["rule"] = rule
        cov["violation_groups"] = [{"group": g, "count": n, "replay": str(p)} for g, n, p in paths]
        cov["known_findings_hit"] = {k: h["n"] for k, h in self.known_hits.items()}
        if extra:
            cov.update(extra)
        if not cov["samples"]:
            cov["samples"] = ["(no case recorded)"]
        ev = {"property_id": self.prop, "tier": self.tier, "seed": self.seed, "level": level,
              "coverage": cov, "assumptions": self.assumptions, "wall_s": round(wall, 2),
              "violations": len(self.violations), "geometer_commit": repo_commit()}
        with open(EVID / f"{self.prop}.json", "w") as f:
            json.dump(ev, f, indent=1, default=str)
        shutil.rmtree(self.work, ignore_errors=True)
        for g, n, p in paths:
            print(f"VIOLATION property={self.prop} replay={p}   ({n} case(s) in group {g})", flush=True)
        self.log(f"done: {cov['evaluations']} evaluations, {len(self.violations)} violation(s), "
                 f"{len(self.known_hits)} known finding(s), {wall:.1f}s")
        return 1 if self.violations else 0

    # -- Apalache: oracle lemmas lifted from the lattice to all integers ----------------
    def lift_lemmas(self, items, timeout: int = 240) -> None:
        """items: (module under spec/lemmas, invariant, must_hold).  `apalache-mc check --length=0 --inv=..` with every
        variable ranging over Int proves a polynomial identity of the oracle for ALL integers (not only the lattice TLC
        enumerated).  A lemma that is refuted, or a falsified control that is not, is a machinery failure (the oracle
        would be wrong); one that does not finish is reported as not lifted and nothing depends on it."""
        exe = shutil.which("apalache-mc")
        res = self.cov.setdefault("lemmas_lifted_to_all_integers", [])
        if exe is None:
            self.assumptions.append("apalache-mc not found: the oracle lemmas were checked on the lattice only")
            return
        for module, inv, must_hold in items:
            out = self.work / f"apalache-{module}-{inv}"
            t0 = time.time()
            try:
                r = subprocess.run([exe, "check", "--length=0", f"--inv={inv}", f"--out-dir={out}", f"{module}.tla"],
                                   cwd=str(SPEC / "lemmas"), capture_output=True, text=True, timeout=timeout)
                txt = r.stdout + r.stderr
                verdict = "holds" if "The outcome is: NoError" in txt else ("refuted" if "The outcome is: Error" in txt else "failed")
            except subprocess.TimeoutExpired:
                verdict = "not lifted (timeout)"
            shutil.rmtree(out, ignore_errors=True)
            res.append({"module": module, "lemma": inv, "expected": "holds" if must_hold else "refuted (control)",
                        "apalache": verdict, "seconds": round(time.time() - t0, 1)})
            self.log(f"Apalache {module}.{inv}: {verdict}")
            if verdict == "failed":
                raise MachineryError(f"apalache-mc failed on {module}.{inv}: {txt[-400:]}")
            if must_hold and verdict == "refuted":
                raise MachineryError(f"oracle lemma {module}.{inv} is refuted over the integers")
            if not must_hold and verdict == "holds":
                raise MachineryError(f"falsified control {module}.{inv} was not refuted: the lifting is vacuous")

    # -- TLC ---------------------------------------------------------------------------
    def tlc(self, module: str, cfg: str, *, name: str | None = None, workers: int = 16,
            dump: bool = False, simulate: str | None = None, depth: int | None = None,
            timeout: int | None = None, env: dict | None = None, coverage: bool = False,
            extra_args: list[str] | None = None, allow_timeout: bool = False) -> dict:
        """Run TLC on spec/<module>.tla with the given cfg text.  Returns statistics and the
        path of the -userFile dump.  Any TLC error (invariant of the oracle violated, overflow,
        parse error) is a machinery failure."""
        name = name or module
        if timeout is None:
            timeout = 400 if self.tier == "quick" else 5400
        elif self.tier == "quick":
            timeout = min(timeout, 400)      # a quick check never waits longer than this for TLC
        cfgp = self.work / f"{name}.cfg"
        cfgp.write_text(cfg)
        meta = self.work / f"meta-{name}"
        dumpf = self.work / f"{name}.dump"
        heap = os.environ.get("VERIF_TLC_HEAP", "8g")
        cmd = ["java", "-Xss16m", "-XX:+UseParallelGC", f"-Xmx{heap}", f"-DTLA-Library={LIB}", f"-Djava.io.tmpdir={self.work}",
               "-cp", JAR, "tlc2.TLC", "-workers", str(workers), "-metadir", str(meta),
               "-noGenerateSpecTE", "-seed", str(self.seed), "-config", str(cfgp)]
        if dump:
            cmd += ["-userFile", str(dumpf)]
        if simulate:
            cmd += ["-simulate", simulate]
        if depth:
            cmd += ["-depth", str(depth)]
        if coverage:
            cmd += ["-coverage", "1"]
        if extra_args:
            cmd += extra_args
        cmd += [str(SPEC / f"{module}.tla")]
        e = dict(os.environ)
        if env:
            e.update(env)
        t0 = time.time()
        timed_out = False
        try:
            r = subprocess.run(cmd, cwd=str(SPEC), capture_output=True, text=True, timeout=timeout, env=e)
            out = r.stdout + r.stderr
            rc = r.returncode
        except subprocess.TimeoutExpired as ex:
            subprocess.run(["pkill", "-f", f"metadir {meta}"], capture_output=True)
            out = (ex.stdout or b"").decode() if isinstance(ex.stdout, bytes) else (ex.stdout or "")
            rc = -9
            timed_out = True
            if not allow_timeout:
                raise MachineryError(f"TLC timed out after {timeout}s on {name}")
        dt = time.time() - t0
        res = {"name": name, "rc": rc, "wall_s": round(dt, 1), "dump": dumpf if dump else None,
               "output": out, "timed_out": timed_out}
        m = re.search(r"(\d+) states generated, (\d+) distinct states found", out)
        if m:
            res["generated"], res["distinct"] = int(m.group(1)), int(m.group(2))
        else:
            res["generated"] = res["distinct"] = 0
        m = re.search(r"depth of the complete state graph search is (\d+)", out)
        res["depth"] = int(m.group(1)) if m else None
        ok = ("Model checking completed. No error has been found" in out) or \
             (simulate is not None and rc in (0,) and "Error:" not in out) or (timed_out and allow_timeout)
        res["ok"] = ok
        if not ok:
            (ROOT / ".work" / f"tlc-fail-{self.prop}-{name}.log").write_text(out)
            tail = "\n".join(out.splitlines()[-40:])
            raise MachineryError(f"TLC failed on {name} (rc={rc}); this is a failure of the oracle/"
                                 f"machinery, not a verdict about geometer:\n{tail}")
        # action coverage: count of states per action from the summary if requested
        self.cov["states"] += res["distinct"]
        self.cov["transitions"] += res["generated"]
        self.cov["tlc_runs"].append({k: res[k] for k in ("name", "wall_s", "generated", "distinct", "depth")})
        self.log(f"TLC {name}: {res['distinct']} distinct states, {res['generated']} generated, {dt:.1f}s")
        return res


def read_dump(path: Path):
    """Each PrintT line of -userFile is a TLA+ string literal holding one JSON object."""
    with open(path) as f:
        for line in f:
            line = line.strip()
            if not line or line[0] != '"':
                continue
            yield json.loads(json.loads(line))


def load_known() -> dict:
    p = ROOT / "known_findings.json"
    if not p.exists():
        return {"findings": {}, "fixed": []}
    d = json.loads(p.read_text())
    return {"findings": {f"{f['property']}|{f['site']}|{f['stratum']}": f for f in d.get("findings", [])},
            "fixed": d.get("fixed", [])}


def cfg_text(spec: str = "Spec", constants: dict | None = None, invariants=(), properties=(),
             constraints=(), action_constraints=(), postcondition: str | None = None,
             view: str | None = None, deadlock: bool = False) -> str:
    def val(v):
        if isinstance(v, bool):
            return "TRUE" if v else "FALSE"
        if isinstance(v, int):
            return str(v)
        if isinstance(v, str):
            return v            # raw TLA+ expression text (strings must carry their quotes)
        if isinstance(v, (set, frozenset, list, tuple)):
            items = ", ".join(val(x) for x in (sorted(v, key=str) if isinstance(v, (set, frozenset)) else v))
            return "{" + items + "}" if isinstance(v, (set, frozenset)) else "<<" + items + ">>"
        raise TypeError(v)

    lines = [f"SPECIFICATION {spec}"]
    if constants:
        lines.append("CONSTANTS")
        for k, v in constants.items():
            lines.append(f"  {k} = {val(v)}")
    for i in invariants:
        lines.append(f"INVARIANT {i}")
    for p in properties:
        lines.append(f"PROPERTY {p}")
    for c in constraints:
        lines.append(f"CONSTRAINT {c}")
    for c in action_constraints:
        lines.append(f"ACTION_CONSTRAINT {c}")
    if postcondition:
        lines.append(f"POSTCONDITION {postcondition}")
    if view:
        lines.append(f"VIEW {view}")
    lines.append(f"CHECK_DEADLOCK {'TRUE' if deadlock else 'FALSE'}")
    return "\n".join(lines) + "\n"


def S(x: str) -> str:
    """A TLA+ string literal for cfg_text."""
    return '"' + x + '"'
