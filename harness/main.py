"""Entry point: ./bin/check <id> quick|thorough   |   ./bin/check <id> --replay <file>   |   --setup"""
from __future__ import annotations

import importlib
import json
import os
import subprocess
import sys
import traceback

from .core import JAR, LIB, ROOT, SPEC, Ctx, MachineryError, pin_env

# property id -> (module, description of the rule that makes a case non-trivial)
REGISTRY = {
    "C01": "joinmeet",
    "C02": "joinmeet",
    "C03": "repr",
    "C04": "collections",
    "C20": "kernels",
    "C05": "diagram",
    "C06": "transform",
    "C07": "invariance",
    "C08": "constructors",
    "C09": "metric",
    "C10": "constructions",
    "C11": "crossratio",
    "C12": "purity",
    "C13": "quadctors",
    "C14": "quadline",
    "C15": "degenerate",
    "C16": "membership",
    "C17": "measures",
    "C18": "intersect",
    "C19": "tensorops",
}


def setup() -> int:
    """Parse every specification with SANY (offline)."""
    rc = 0
    files = sorted(SPEC.glob("*.tla")) + sorted(LIB.glob("*.tla")) + sorted((SPEC / "lemmas").glob("*.tla"))
    for f in files:
        r = subprocess.run(["java", f"-DTLA-Library={LIB}", "-cp", JAR, "tla2sany.SANY", str(f)],
                           cwd=str(f.parent), capture_output=True, text=True)
        ok = r.returncode == 0 and "Semantic errors" not in r.stdout and "Parse Error" not in r.stdout \
            and "Fatal errors" not in r.stdout and "Could not find module" not in r.stdout
        print(("ok   " if ok else "FAIL ") + str(f.relative_to(ROOT)))
        if not ok:
            print(r.stdout[-2000:])
            rc = 2
    return rc


def main(argv: list[str]) -> int:
    pin_env()
    if argv and argv[0] == "--setup":
        return setup()
    if len(argv) < 2:
        print(__doc__)
        return 2
    prop = argv[0]
    seed = int(os.environ.get("VERIF_SEED", "0") or 0)
    replay_group = None
    if argv[1] == "--replay":
        # a replay file names a group (site | stratum) of one check; the check is run again (same tier and seed as recorded)
        # and only that group is judged: exit 1 + VIOLATION when it still fires, exit 0 when it no longer reproduces.
        # The evidence file of the property is left alone.
        rec = json.load(open(argv[2]))
        replay_group = rec["group"]
        first = (rec.get("cases") or [{}])[0]
        argv = [prop, first.get("tier", "quick")]
        seed = int(first.get("seed", seed))
    tier = os.environ.get("VERIF_TIER") or argv[1]
    if argv[1] in ("quick", "thorough"):
        tier = argv[1]
    if prop not in REGISTRY:
        print(f"unknown property {prop}")
        return 2
    ctx = Ctx(prop, tier, seed)
    ctx.replay_group = replay_group
    try:
        mod = importlib.import_module(f".props.{REGISTRY[prop]}", "harness")
        mod.run(ctx)
        return ctx.finish(rule=getattr(mod, "RULE", ""))
    except MachineryError as e:
        print(f"MACHINERY-FAILURE property={prop}: {e}", flush=True)
        return 2
    except Exception:  # noqa: BLE001
        print(f"MACHINERY-FAILURE property={prop}: unexpected exception in the harness", flush=True)
        traceback.print_exc()
        return 2
    finally:
        import shutil

        shutil.rmtree(ctx.work, ignore_errors=True)      # scratch files never outlive the run (also after a failure)


if __name__ == "__main__":
    sys.exit(main(sys.argv[1:]))
