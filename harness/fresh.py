"""One query asked FIRST: a fresh interpreter, a fresh workspace, nothing else before it (the initial state of Purity.tla).

    python -m harness.fresh <mode> <op index> [<op index> ...]

prints the canonical answer of the LAST operation of the list after running the earlier ones in order (a list of one index is
the query asked first; a longer list is a history from the true initial state, caches empty)."""
import sys


def main(argv):
    from .core import import_geometer
    from .optable import OPS, build_workspace
    from .props.purity import run_op

    import_geometer()
    mode, idx = argv[0], [int(x) for x in argv[1:]]
    w = build_workspace(mode)
    ans = None
    for i in idx:
        ans = run_op(i, w)
    print("ANSWER " + OPS()[idx[-1]][0] + " :: " + repr(ans))
    return 0


if __name__ == "__main__":
    sys.exit(main(sys.argv[1:]))
