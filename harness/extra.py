"""Specification modules beyond the twenty listed properties (spec/extra/).

    python -m harness.extra

They are NOT registered in MANIFEST.json and never print a VIOLATION line: a disagreement between the library and one of these
modules is reported as an OBSERVATION (extra/REPORT.json), because no listed property states what these functions must do."""
from __future__ import annotations

import json
import math
import shutil
import sys
from pathlib import Path

import numpy as np

from .core import Ctx, MachineryError, cfg_text, import_geometer, read_dump

OUT = Path(__file__).resolve().parents[1] / "extra" / "REPORT.json"


def x01(ctx, rep):
    g = import_geometer()
    cfg = cfg_text(constants={"DoDump": True}, invariants=["UnitLorentzNorm", "LorentzIsCosine", "MeetIffCosine", "TranslationInvariant"],
                   constraints=["Dump"])
    r = ctx.tlc("extra/X01_Circles", cfg, name="X01_Circles", dump=True)
    recs = list(read_dump(r["dump"]))
    if len(recs) < 1000:
        raise MachineryError("too few circle pairs")
    n_lie = n_ang = 0
    bad_lie, bad_ang = [], []
    for d in recs:
        x, st = d["r"], d["s"]
        a = g.Circle(g.Point(*x["a"][0]), x["a"][1])
        b = g.Circle(g.Point(*x["b"][0]), x["b"][1])
        lie = np.asarray(a.lie_coordinates, dtype=float)
        want = np.array([n / m for n, m in x["lie"]])
        n_lie += 1
        if lie.shape != (4,) or not np.allclose(lie, want, rtol=1e-12, atol=1e-12):
            bad_lie.append({"circle": x["a"], "expected": want.tolist(), "observed": lie.tolist()})
        if x["meet"]:
            n_ang += 1
            cos = x["cos"][0] / x["cos"][1]
            with np.errstate(all="ignore"):
                ang = float(a.intersection_angle(b))
            if not (math.isfinite(ang) and abs(math.cos(ang) - cos) <= 1e-9):
                bad_ang.append({"a": x["a"], "b": x["b"], "stratum": st, "expected_cos": cos, "observed_angle": ang})
    rep["X01_Circles"] = {
        "states": r.get("distinct", len(recs)), "pairs": len(recs),
        "lie_coordinates": {"checked": n_lie, "disagree": len(bad_lie), "examples": bad_lie[:3]},
        "intersection_angle": {"checked": n_ang, "disagree": len(bad_ang), "examples": bad_ang[:3]},
    }
    for name, bad, n in (("Circle.lie_coordinates", bad_lie, n_lie), ("Circle.intersection_angle", bad_ang, n_ang)):
        if bad:
            print(f"OBSERVATION module=X01_Circles function={name}: {len(bad)} of {n} cases disagree with the specification, e.g. {json.dumps(bad[0])}")
        else:
            print(f"agrees: {name} on {n} cases")


def x02(ctx, rep):
    """small API functions no listed property mentions: infty_hyperplane, from_array / from_tensor, Line.contravariant_tensor"""
    g = import_geometer()
    from geometer.base import Tensor
    from geometer.point import infty_hyperplane

    obs = []
    for dim in (2, 3):
        h = infty_hyperplane(dim)
        if not (np.array_equal(np.asarray(h.array), [0] * dim + [1]) and h.dim == dim):
            obs.append(f"infty_hyperplane({dim}) is {h}")
    arr = np.arange(12.0).reshape(4, 3)
    c = g.PointCollection.from_array(arr)
    p = g.PointCollection.from_array(arr[0])
    if not (isinstance(c, g.PointCollection) and isinstance(p, g.Point) and np.shares_memory(c.array, arr)):
        obs.append("PointCollection.from_array: collection for rank 2, Point for rank 1, array not copied")
    t = Tensor(arr[1], covariant=[0])
    q = g.PointCollection.from_tensor(t)
    if not (isinstance(q, g.Point) and np.array_equal(q.array, arr[1])):
        obs.append("PointCollection.from_tensor of a tensor without free indices is a Point")
    # the two tensors of a line of 3-space describe the same line: L_cov contracted with L_con vanishes, and both contain the
    # points / planes the line was built from
    for P, Q in (((1, 2, 3), (0, 1, -1)), ((0, 0, 0), (1, 0, 0)), ((2, -1, 4), (2, 5, 4))):
        l = g.Line(g.Point(*P), g.Point(*Q))
        cov, con = l.covariant_tensor, l.contravariant_tensor
        a, b = np.asarray(cov.array, dtype=float), np.asarray(con.array, dtype=float)
        e = np.asarray(g.join(l, g.Point(7, -3, 2)).array, dtype=float)        # a plane through the line
        if not (cov.tensor_shape == (2, 0) and con.tensor_shape == (0, 2) and np.allclose(a @ b, 0) and np.allclose(b @ a, 0)
                and np.allclose(b @ np.array(P + (1,)), 0) and np.allclose(b @ np.array(Q + (1,)), 0) and np.allclose(a @ e, 0)
                and l == cov.contravariant_tensor and cov.covariant_tensor is cov):
            obs.append(f"covariant / contravariant tensors of Line({P}, {Q}) do not describe one line")
    rep["X02_SmallAPI"] = {"observations": obs}
    for o in obs:
        print(f"OBSERVATION module=X02_SmallAPI: {o}")
    if not obs:
        print("agrees: infty_hyperplane, from_array, from_tensor, Line.contravariant_tensor")


def main(argv):
    ctx = Ctx("EXTRA", "quick", 1)
    rep = {}
    try:
        x01(ctx, rep)
        x02(ctx, rep)
    except MachineryError as e:
        print(f"MACHINERY-FAILURE extra: {e}")
        return 2
    finally:
        shutil.rmtree(ctx.work, ignore_errors=True)
    OUT.parent.mkdir(exist_ok=True)
    OUT.write_text(json.dumps(rep, indent=1))
    return 0


if __name__ == "__main__":
    sys.exit(main(sys.argv[1:]))
