"""C03 over the operation table of harness/optable.py: the answer of every operation is the same - up to the representative of
projective objects, the order of returned lists, exactly for predicates and numbers - when the workspace objects are given by
other representatives: all of them at once (workspace modes "float": points x 2, hyperplanes x 1/2; "neg": points x -3,
hyperplanes x -1/4, quadric and transformation matrices x -2) and one object at a time (x -1 and x 2.5).

Operations whose answer is by definition not a function of the projective objects are left out, with the reason."""
from __future__ import annotations

import numpy as np

from .core import import_geometer

EXCLUDED = {
    "p-pinf": "a point at infinity acts as a direction vector in point arithmetic (C19): its length matters",
    "pcmix+p": "same (the collection holds a point at infinity)",
    "translation(pinf)": "the argument is a vector",
    "pcmix.normalized_array": "points at infinity are not normalised",
    "l.basis_matrix": "a matrix of coordinates, not a projective object", "L.basis_matrix": "same", "(t3*L).basis_matrix": "same",
    "L.base_point": "documented as an arbitrary point of the line", "(t3*L).base_point": "same",
    "det(t)": "a kernel applied to the raw matrix", "adjugate(conic)": "same", "adjugate(2x2)": "same", "inv(t3)": "same",
    "ray.contains": "a segment with an end point at infinity is a ray in that direction: the sign of the direction matters (C16)",
    "dist(ray,p)": "same", "str(ray)": "same",
    "conic.dual": "the conic of the workspace is degenerate (five points, three of them collinear): its dual is not defined",
    "(t*conic).dual": "same", "conic.is_tangent(l)": "same", "(t*conic).is_tangent": "same",
}
MODULO_PI = {"angle(p,q,r)", "angle(l,m)", "poly.angles", "angle(P,Q,R)", "angle(E,F)", "angle(L,M)"}      # C09: angles are defined modulo pi
DIRECTION_KEYS = {"pinf", "ray", "pcmix"}      # objects holding a point at infinity that is used as a direction


def _kinds():
    g = import_geometer()
    from geometer.shapes import PolytopeTensor

    proj = (g.Point, g.PointCollection, g.Line, g.LineCollection, g.Plane, g.PlaneCollection, g.Quadric, g.QuadricCollection,
            g.Transformation, g.TransformationCollection)
    return g, proj, PolytopeTensor


def canon(x):
    g, proj, poly = _kinds()
    from geometer.base import Tensor

    if isinstance(x, poly):
        return ("POLY", type(x).__name__, np.asarray(x.array, dtype=complex))
    if isinstance(x, proj):
        return ("CLS", type(x).__name__, np.asarray(x.array, dtype=complex), sum(x.tensor_shape))
    if isinstance(x, (Tensor, str)):
        return ("SKIP",)
    if isinstance(x, (list, tuple)):
        return ("L", [canon(y) for y in x])
    try:
        a = np.asarray(x)
    except Exception:  # noqa: BLE001
        return ("SKIP",)
    if a.dtype == bool:
        return ("B", a)
    if a.dtype.kind in "iufc":
        return ("N", a.astype(complex))
    return ("SKIP",)


def _rowclass(a, b, nt):
    if a.shape != b.shape:
        return False
    k = a.ndim - nt
    A = a.reshape((-1,) + a.shape[k:]) if k > 0 else a[None]
    B = b.reshape((-1,) + b.shape[k:]) if k > 0 else b[None]
    for x, y in zip(A, B):
        x, y = x.ravel(), y.ravel()
        if not (np.all(np.isfinite(x)) and np.all(np.isfinite(y))):
            if not np.array_equal(np.isfinite(x), np.isfinite(y)):
                return False
            continue
        mx, my = np.abs(x).max(), np.abs(y).max()
        if mx == 0 or my == 0:
            if mx != my:
                return False
            continue
        i = int(np.argmax(np.abs(y)))
        if abs(x[i]) < 1e-9 * mx or np.abs(x * (y[i] / x[i]) - y).max() > 1e-7 * my:
            return False
    return True


def same(a, b):
    if a[0] != b[0]:
        return False
    if a[0] == "SKIP":
        return True
    if a[0] == "EXC":
        return a[1] == b[1]
    if a[0] == "L":
        if len(a[1]) != len(b[1]):
            return False
        left = list(b[1])
        for x in a[1]:
            hit = [k for k, y in enumerate(left) if same(x, y)]
            if not hit:
                return False
            left.pop(hit[0])
        return True
    if a[0] == "B":
        return a[1].shape == b[1].shape and bool(np.array_equal(a[1], b[1]))
    if a[0] == "N":
        return a[1].shape == b[1].shape and bool(np.allclose(a[1], b[1], rtol=1e-7, atol=1e-9, equal_nan=True))
    if a[0] == "POLY":
        return a[1] == b[1] and _rowclass(a[2], b[2], 1)
    return a[1] == b[1] and _rowclass(a[2], b[2], a[3])


def describe(c):
    if c[0] in ("CLS", "POLY"):
        return {"class": c[1], "coordinates": np.round(c[2], 6).tolist().__repr__()[:300]}
    if c[0] == "L":
        return [describe(x) for x in c[1]][:4]
    if c[0] in ("B", "N"):
        return np.asarray(c[1]).tolist().__repr__()[:300]
    return c[1] if len(c) > 1 else c[0]


class _Recording(dict):
    def __init__(self, *a):
        super().__init__(*a)
        self.used = []

    def __getitem__(self, k):
        if k not in self.used:
            self.used.append(k)
        return super().__getitem__(k)


def _answer(fn, w, name=""):
    try:
        with np.errstate(all="ignore"):
            val = fn(w)
            if name in MODULO_PI:       # compare [cos : sin] classes
                val = [np.exp(2j * np.real(np.asarray(v)).astype(float)) for v in (val if isinstance(val, (list, tuple)) else [val])]
                return ("N", np.asarray(val, dtype=complex))
            return canon(val)
    except Exception as e:  # noqa: BLE001
        return ("EXC", type(e).__name__)


def _rescale_object(o, f):
    """the same object given by other representatives (polytopes: alternating factors per vertex)"""
    _, proj, poly = _kinds()
    a = np.asarray(o.array)
    a = a.astype(complex if np.iscomplexobj(a) else float)
    if isinstance(o, poly):
        fac = np.array([f if k % 2 == 0 else 2.0 for k in range(a.shape[-2])])
        o.array = a * fac[:, None]
    else:
        o.array = a * f
    return o


def work(job):
    """job = list of operation indices; returns mismatches"""
    import_geometer()
    from .optable import OPS, build_workspace

    out = []
    for i in job:
        name, fn = OPS()[i]
        if name in EXCLUDED:
            continue
        w0 = _Recording(build_workspace("int"))
        base = _answer(fn, w0, name)
        n = 0
        for mode in ("float", "neg"):
            other = _answer(fn, build_workspace(mode), name)
            n += 1
            if not same(base, other):
                out.append(dict(site=name, stratum=f"operation-table/{'negative' if mode == 'neg' else 'float'}-workspace", case={"operation": name, "workspace": mode},
                                expected=describe(base), observed=describe(other)))
        for k in w0.used:
            if k in DIRECTION_KEYS:
                continue
            for f in (-1.0, 2.5):
                w = build_workspace("int")
                _rescale_object(w[k], f)
                other = _answer(fn, w, name)
                n += 1
                if not same(base, other):
                    out.append(dict(site=f"{name}/object={k}", stratum="operation-table/one-object-rescaled", case={"operation": name, "object": k, "factor": f},
                                    expected=describe(base), observed=describe(other)))
        out.append(dict(site="__count__", n=n, keys=len(w0.used)))
    return out
