"""The workspace and the operation table shared by the history-based checks (C12) and mirrored by
spec/Purity.tla (NOps must equal len(OPS); a mismatch is a machinery failure).

Every operation is a QUERY in the sense of the property: it takes workspace objects and returns a value; it must
not change any workspace object, module constant or cache."""
from __future__ import annotations

import numpy as np


def build_workspace(mode="int"):
    """A fresh pool of objects of every class, 2D and 3D, single and collection.

    mode "int": integer coordinates, points with last coordinate 1 (the fast paths of normalisation);
    mode "float": the same objects given by float64 representatives with last coordinate 2 (points) resp. scaled by 1/2
    (hyperplanes), so that every normalising code path has real work to do and no dtype conversion makes a protective copy;
    mode "complex": the same real values stored as complex128 (the dtype of the lines and points the library itself returns
    from angle_bisectors, mirror, perpendicular, intersect)."""
    import geometer as _g

    dt = complex if mode == "complex" else float

    def _rescale(o, f):
        if np.iscomplexobj(o.array) and mode != "complex":
            return o
        r = o.copy()
        r.array = np.asarray(o.array, dtype=dt) * f
        return r

    class _Scaled:
        """geometer with point / hyperplane constructors that rescale their float representative"""

        def __getattr__(self, name):
            return getattr(_g, name)

        Point = staticmethod(lambda *a, **k: _rescale(_g.Point(*a, **k), 2.0))
        PointCollection = staticmethod(lambda *a, **k: _rescale(_g.PointCollection(*a, **k), 2.0))
        Line = staticmethod(lambda *a, **k: _rescale(_g.Line(*a, **k), 0.5))
        LineCollection = staticmethod(lambda *a, **k: _rescale(_g.LineCollection(*a, **k), 0.5))
        Plane = staticmethod(lambda *a, **k: _rescale(_g.Plane(*a, **k), 0.5))
        PlaneCollection = staticmethod(lambda *a, **k: _rescale(_g.PlaneCollection(*a, **k), 0.5))

    g = _g if mode == "int" else _Scaled()
    arr = (lambda x: np.array(x)) if mode == "int" else (lambda x: np.array(x, dtype=dt) * 2.0)

    w = {}
    # --- plane
    w["p"] = g.Point(1, 2)
    w["q"] = g.Point(3, -1)
    w["r"] = g.Point(0, 0)
    w["u"] = g.Point(2, 2)
    w["pinf"] = g.Point([1, 1, 0])
    w["pc"] = g.PointCollection([(1, 2), (0, 1), (2, 2)], homogenize=True)
    w["pc2"] = g.PointCollection([(3, -1), (1, 1), (0, 0)], homogenize=True)
    w["l"] = g.Line(1, 2, -3)
    w["m"] = g.Line(2, -1, 1)
    w["k"] = g.Line(0, 1, -2)
    w["lc"] = g.LineCollection([(1, 2, -3), (0, 1, -2), (1, 0, 1)])
    w["seg"] = g.Segment(g.Point(0, 2), g.Point(2, 0))
    w["segc"] = g.SegmentCollection(arr([[[0, 0, 1], [2, 1, 1]], [[1, 1, 1], [3, 1, 1]]]))
    w["poly"] = g.Polygon(g.Point(0, 0), g.Point(3, 0), g.Point(3, 3), g.Point(1, 1), g.Point(0, 3))
    w["tri"] = g.Triangle(g.Point(0, 0), g.Point(4, 0), g.Point(0, 3))
    w["rect"] = g.Rectangle(g.Point(0, 0), g.Point(2, 0), g.Point(2, 1), g.Point(0, 1))
    w["rpoly"] = g.RegularPolygon(g.Point(1, 1), 2, 5)
    w["polyc"] = g.PolygonCollection(arr([[[0, 0, 1], [2, 0, 1], [2, 2, 1], [0, 2, 1]], [[1, 1, 1], [4, 1, 1], [4, 3, 1], [1, 3, 1]]]))
    w["conic"] = g.Conic.from_points(g.Point(1, 0), g.Point(0, 1), g.Point(-1, 0), g.Point(0, -2), g.Point(2, 2))
    w["circle"] = g.Circle(g.Point(1, 2), 2)
    w["ell"] = g.Ellipse(g.Point(0, 1), 3, 2)
    w["deg"] = g.Conic.from_lines(g.Line(1, 0, -1), g.Line(0, 1, 1))
    w["qc"] = g.QuadricCollection(np.array([np.diag([1, 1, -4]), np.diag([1, -1, 1])]))
    w["t"] = g.rotation(0.3) * g.translation(1, 2)
    w["tc"] = g.TransformationCollection(np.array([np.eye(3), [[1, 1, 0], [0, 1, 0], [0, 0, 1]], [[2, 0, 1], [0, 1, 0], [0, 0, 1]]]))
    # --- space
    w["P"] = g.Point(1, 2, 3)
    w["Q"] = g.Point(0, 1, -1)
    w["R"] = g.Point(2, 0, 1)
    w["S"] = g.Point(1, 1, 1)
    w["O"] = g.Point(0, 0, 0)
    w["PC"] = g.PointCollection([(1, 2, 3), (0, 1, -1), (2, 0, 1)], homogenize=True)
    w["L"] = g.Line(g.Point(1, 2, 3), g.Point(0, 1, -1))
    w["M"] = g.Line(g.Point(1, 2, 3), g.Point(2, 0, 1))
    w["LC"] = g.join(g.PointCollection([(0, 0, 0), (1, 0, 0)], homogenize=True), g.PointCollection([(0, 0, 1), (1, 1, 1)], homogenize=True))
    w["E"] = g.Plane(g.Point(1, 2, 3), g.Point(0, 1, -1), g.Point(2, 0, 1))
    w["F"] = g.Plane(1, 0, -1, 2)
    w["EC"] = g.PlaneCollection([(1, 0, -1, 2), (0, 1, 1, -1), (1, 1, 1, -3)])
    w["seg3"] = g.Segment(g.Point(0, 0, 0), g.Point(1, 2, 2))
    w["poly3"] = g.Polygon(g.Point(0, 0, 1), g.Point(2, 0, 1), g.Point(2, 2, 3), g.Point(0, 2, 3))
    w["polyc3"] = g.PolygonCollection(arr([[[0, 0, 1, 1], [2, 0, 1, 1], [2, 2, 3, 1], [0, 2, 3, 1]],
                                                [[0, 0, 0, 1], [1, 0, 0, 1], [1, 1, 0, 1], [0, 1, 0, 1]]]))
    w["tri3"] = g.Triangle(g.Point(1, 0, 0), g.Point(0, 1, 0), g.Point(0, 0, 1))
    w["cube"] = g.Cuboid(g.Point(0, 0, 0), g.Point(2, 0, 0), g.Point(0, 1, 0), g.Point(0, 0, 3))
    w["tetra"] = g.Simplex(g.Point(0, 0, 0), g.Point(1, 0, 0), g.Point(0, 1, 0), g.Point(0, 0, 1))
    w["sph"] = g.Sphere(g.Point(1, 0, 2), 3)
    w["cone"] = g.Cone(g.Point(0, 0, 0), g.Point(0, 0, 2), 1)
    w["cyl"] = g.Cylinder(g.Point(0, 0, 0), g.Point(0, 0, 1), 2)
    w["deg3"] = g.Quadric.from_planes(g.Plane(1, 0, 0, -1), g.Plane(0, 1, 1, 0))
    w["t3"] = g.rotation(0.5, axis=g.Point(1, 2, 2)) * g.translation(1, 0, -1)
    return w


def _ops():
    import geometer as g
    from geometer.utils import adjugate, det, inv, is_multiple, null_space, orth

    O = []

    def op(name, fn):
        O.append((name, fn))

    # points / lines 2D
    op("join(p,q)", lambda w: g.join(w["p"], w["q"]))
    op("meet(l,m)", lambda w: g.meet(w["l"], w["m"]))
    op("join(pc,pc2)", lambda w: g.join(w["pc"], w["pc2"]))
    op("meet(lc,l)", lambda w: g.meet(w["lc"], w["m"]))
    op("p==q", lambda w: w["p"] == w["q"])
    op("p+q", lambda w: w["p"] + w["q"])
    op("p-pinf", lambda w: w["p"] - w["pinf"])
    op("2*p", lambda w: 2 * w["p"])
    op("pc/2", lambda w: w["pc"] / 2)
    op("-p", lambda w: -w["p"])
    op("pc.isinf", lambda w: w["pc"].isinf)
    op("p.isreal", lambda w: w["p"].isreal)
    op("pc.normalized_array", lambda w: w["pc"].normalized_array)
    op("pc[1]", lambda w: w["pc"][1])
    op("l.contains(p)", lambda w: w["l"].contains(w["p"]))
    op("lc.contains(pc)", lambda w: w["lc"].contains(w["pc"]))
    op("l.is_parallel(m)", lambda w: w["l"].is_parallel(w["m"]))
    op("l.parallel(p)", lambda w: w["l"].parallel(w["p"]))
    op("l.perpendicular(p)", lambda w: w["l"].perpendicular(w["p"]))
    op("l.perpendicular(u)", lambda w: w["l"].perpendicular(w["u"]))       # u lies on l'=x+2y-3? (2,2): 2+4-3 != 0 -> off
    op("k.perpendicular(p)", lambda w: w["k"].perpendicular(w["p"]))       # p = (1,2) lies ON k: y = 2
    op("lc.perpendicular(pc)", lambda w: w["lc"].perpendicular(w["pc"]))
    op("l.project(q)", lambda w: w["l"].project(w["q"]))
    op("k.project(p)", lambda w: w["k"].project(w["p"]))
    op("l.mirror(q)", lambda w: w["l"].mirror(w["q"]))
    op("l.base_point", lambda w: w["l"].base_point)
    op("lc.direction", lambda w: w["lc"].direction)
    op("l.basis_matrix", lambda w: w["l"].basis_matrix)
    op("l.general_point", lambda w: w["l"].general_point)
    op("l+p", lambda w: w["l"] + w["p"])
    op("crossratio(points)", lambda w: g.crossratio(w["p"], w["q"], g.Point(2, 0.5), g.Point(5, -4)))
    op("crossratio(lines)", lambda w: g.crossratio(g.Line(w["p"], g.Point(0, 5)), g.Line(w["p"], w["q"]), g.Line(w["p"], w["r"]), g.Line(w["p"], w["u"])))
    op("harmonic_set", lambda w: g.harmonic_set(w["p"], w["q"], g.Point(2, 0.5)))
    op("angle(p,q,r)", lambda w: g.angle(w["p"], w["q"], w["r"]))
    op("angle(l,m)", lambda w: g.angle(w["l"], w["m"]))
    op("angle_bisectors", lambda w: g.angle_bisectors(w["l"], w["m"]))
    op("dist(p,q)", lambda w: g.dist(w["p"], w["q"]))
    op("dist(l,q)", lambda w: g.dist(w["l"], w["q"]))
    op("dist(k,p)", lambda w: g.dist(w["k"], w["p"]))
    op("dist(pc,pc2)", lambda w: g.dist(w["pc"], w["pc2"]))
    op("dist(seg,p)", lambda w: g.dist(w["seg"], w["p"]))
    op("dist(seg,midpt)", lambda w: g.dist(w["seg"], g.Point(1, 1)))
    op("dist(poly,q)", lambda w: g.dist(w["poly"], w["q"]))
    op("is_cocircular", lambda w: g.is_cocircular(g.Point(1, 0), g.Point(0, 1), g.Point(-1, 0), g.Point(0, -1)))
    op("is_perpendicular", lambda w: g.is_perpendicular(w["l"], w["m"]))
    op("is_collinear", lambda w: g.is_collinear(w["p"], w["q"], w["r"]))
    # polytopes 2D
    op("seg.contains(p)", lambda w: w["seg"].contains(g.Point(1, 1)))
    op("segc.contains(pc)", lambda w: w["segc"].contains(g.PointCollection([(1, 0.5), (2, 1)], homogenize=True)))
    op("seg.intersect(l)", lambda w: w["seg"].intersect(w["l"]))
    op("seg.intersect(segc)", lambda w: w["segc"].intersect(w["m"]))
    op("seg.midpoint", lambda w: w["seg"].midpoint)
    op("segc.length", lambda w: w["segc"].length)
    op("seg.vertices", lambda w: w["seg"].vertices)
    op("poly.contains(p)", lambda w: w["poly"].contains(w["p"]))
    op("poly.contains(pc)", lambda w: w["poly"].contains(w["pc"]))
    op("tri.contains(p)", lambda w: w["tri"].contains(w["p"]))
    op("polyc.contains(p)", lambda w: w["polyc"].contains(w["u"]))
    op("poly.intersect(l)", lambda w: w["poly"].intersect(w["l"]))
    op("poly.area", lambda w: w["poly"].area)
    op("polyc.area", lambda w: w["polyc"].area)
    op("poly.centroid", lambda w: w["poly"].centroid)
    op("poly.angles", lambda w: w["poly"].angles)
    op("poly.edges", lambda w: w["poly"].edges)
    op("poly.vertices", lambda w: w["poly"].vertices)
    op("tri.circumcenter", lambda w: w["tri"].circumcenter)
    op("tri.volume", lambda w: w["tri"].volume)
    op("rpoly.radius", lambda w: w["rpoly"].radius)
    op("rpoly.inradius", lambda w: w["rpoly"].inradius)
    op("rpoly.center", lambda w: w["rpoly"].center)
    op("poly==poly", lambda w: w["rect"] == g.Rectangle(g.Point(2, 0), g.Point(2, 1), g.Point(0, 1), g.Point(0, 0)))
    op("poly+p", lambda w: w["rect"] + w["p"])
    op("polyc[1]", lambda w: w["polyc"][1])
    # quadrics 2D
    op("conic.contains(p)", lambda w: w["conic"].contains(g.Point(1, 0)))
    op("qc.contains(p)", lambda w: w["qc"].contains(g.Point(2, 0)))
    op("circle.intersect(l)", lambda w: w["circle"].intersect(w["l"]))
    op("conic.intersect(conic)", lambda w: w["conic"].intersect(w["ell"]))
    op("circle.tangent(p)", lambda w: w["circle"].tangent(g.Point(3, 2)))
    op("circle.tangent(outside)", lambda w: w["circle"].tangent(g.Point(5, 5)))
    op("conic.is_tangent(l)", lambda w: w["conic"].is_tangent(w["l"]))
    op("conic.polar(p)", lambda w: w["conic"].polar(w["p"]))
    op("conic.dual", lambda w: w["conic"].dual)
    op("deg.components", lambda w: w["deg"].components)
    op("deg.is_degenerate", lambda w: w["deg"].is_degenerate)
    op("ell.foci", lambda w: w["ell"].foci)
    op("circle.center", lambda w: w["circle"].center)
    op("circle.radius", lambda w: w["circle"].radius)
    op("circle.area", lambda w: w["circle"].area)
    op("circle+p", lambda w: w["circle"] + w["p"])
    op("qc[0]", lambda w: w["qc"][0])
    # transformations
    op("t*p", lambda w: w["t"] * w["p"])
    op("t*l", lambda w: w["t"] * w["l"])
    op("t*pc", lambda w: w["t"] * w["pc"])
    op("t*seg", lambda w: w["t"] * w["seg"])
    op("t*poly", lambda w: w["t"] * w["poly"])
    op("t*conic", lambda w: w["t"] * w["conic"])
    op("t*t", lambda w: w["t"] * w["t"])
    op("t.inverse()", lambda w: w["t"].inverse())
    op("t**3", lambda w: w["t"] ** 3)
    op("t**-2", lambda w: w["t"] ** -2)
    op("tc.inverse()", lambda w: w["tc"].inverse())
    op("tc*pc", lambda w: w["tc"] * w["pc"])
    op("reflection(l)", lambda w: g.reflection(w["l"]))
    op("translation(p)", lambda w: g.translation(w["p"]))
    op("from_points", lambda w: g.Transformation.from_points((w["p"], w["q"]), (w["q"], w["r"]), (w["r"], w["u"]), (w["u"], w["p"])))
    # space
    op("join(P,Q)", lambda w: g.join(w["P"], w["Q"]))
    op("join(P,Q,R)", lambda w: g.join(w["P"], w["Q"], w["R"]))
    op("join(L,S)", lambda w: g.join(w["L"], w["S"]))
    op("meet(E,F)", lambda w: g.meet(w["E"], w["F"]))
    op("meet(E,L)", lambda w: g.meet(w["F"], w["L"]))
    op("meet(L,M)", lambda w: g.meet(w["L"], w["M"]))
    op("join(L,M)", lambda w: g.join(w["L"], w["M"]))
    op("meet(EC,L)", lambda w: g.meet(w["EC"], w["L"]))
    op("E.contains(P)", lambda w: w["E"].contains(w["P"]))
    op("E.contains(L)", lambda w: w["E"].contains(w["L"]))
    op("L.contains(PC)", lambda w: w["L"].contains(w["PC"]))
    op("L.is_coplanar(M)", lambda w: w["L"].is_coplanar(w["M"]))
    op("L.covariant_tensor", lambda w: w["L"].covariant_tensor)
    op("L.base_point", lambda w: w["L"].base_point)
    op("L.direction", lambda w: w["L"].direction)
    op("L.basis_matrix", lambda w: w["L"].basis_matrix)
    op("E.basis_matrix", lambda w: w["E"].basis_matrix)
    op("L.perpendicular(S)", lambda w: w["L"].perpendicular(w["S"]))
    op("L.perpendicular(P)", lambda w: w["L"].perpendicular(w["P"]))         # P lies on L
    op("L.project(S)", lambda w: w["L"].project(w["S"]))
    op("L.mirror(S)", lambda w: w["L"].mirror(w["S"]))
    op("E.perpendicular(S)", lambda w: w["E"].perpendicular(w["S"]))
    op("E.perpendicular(L)", lambda w: w["F"].perpendicular(w["L"]))
    op("E.project(S)", lambda w: w["E"].project(w["S"]))
    op("E.mirror(S)", lambda w: w["E"].mirror(w["S"]))
    op("EC.mirror(S)", lambda w: w["EC"].mirror(w["S"]))
    op("E.parallel(S)", lambda w: w["E"].parallel(w["S"]))
    op("E.is_parallel(F)", lambda w: w["E"].is_parallel(w["F"]))
    op("dist(P,Q)", lambda w: g.dist(w["P"], w["Q"]))
    op("dist(E,S)", lambda w: g.dist(w["E"], w["S"]))
    op("dist(L,S)", lambda w: g.dist(w["L"], w["S"]))
    op("dist(seg3,S)", lambda w: g.dist(w["seg3"], w["S"]))
    op("dist(poly3,S)", lambda w: g.dist(w["poly3"], w["S"]))
    op("dist(cube,P)", lambda w: g.dist(w["cube"], w["P"]))
    op("angle(P,Q,R)", lambda w: g.angle(w["P"], w["Q"], w["R"]))
    op("angle(E,F)", lambda w: g.angle(w["E"], w["F"]))
    op("angle(L,M)", lambda w: g.angle(w["L"], w["M"]))
    op("crossratio(planes)", lambda w: g.crossratio(g.Plane(1, 0, 0, 0), g.Plane(0, 1, 0, 0), g.Plane(1, 1, 0, 0), g.Plane(1, -2, 0, 0)))
    op("is_coplanar", lambda w: g.is_coplanar(w["P"], w["Q"], w["R"], w["S"]))
    op("is_perpendicular(E,F)", lambda w: g.is_perpendicular(w["E"], w["F"]))
    op("seg3.contains", lambda w: w["seg3"].contains(g.Point(0.5, 1, 1)))
    op("seg3.midpoint", lambda w: w["seg3"].midpoint)
    op("seg3.intersect(F)", lambda w: w["seg3"].intersect(g.Plane(1, 0, 0, -0.5)))
    op("poly3.contains", lambda w: w["poly3"].contains(g.Point(1, 1, 2)))
    op("polyc3.contains", lambda w: w["polyc3"].contains(g.PointCollection([(1, 1, 2), (0.5, 0.5, 0)], homogenize=True)))
    op("poly3.area", lambda w: w["poly3"].area)
    op("polyc3.area", lambda w: w["polyc3"].area)
    op("poly3.centroid", lambda w: w["poly3"].centroid)
    op("poly3.intersect(L)", lambda w: w["poly3"].intersect(g.Line(g.Point(1, 1, 0), g.Point(1, 1, 5))))
    op("polyc3.intersect(L)", lambda w: w["polyc3"].intersect(g.Line(g.Point(0.5, 0.5, -1), g.Point(0.5, 0.5, 5))))
    op("tri3.circumcenter", lambda w: w["tri3"].circumcenter)
    op("tri3.area", lambda w: w["tri3"].area)
    op("cube.area", lambda w: w["cube"].area)
    op("cube.faces", lambda w: w["cube"].faces)
    op("cube.edges", lambda w: w["cube"].edges)
    op("cube.vertices", lambda w: w["cube"].vertices)
    op("cube.intersect(L)", lambda w: w["cube"].intersect(g.Line(g.Point(1, 0.5, -1), g.Point(1, 0.5, 5))))
    op("cube==cube", lambda w: w["cube"] == g.Cuboid(g.Point(0, 0, 0), g.Point(0, 1, 0), g.Point(2, 0, 0), g.Point(0, 0, 3)))
    op("cube[0]", lambda w: w["cube"][0])
    op("tetra.volume", lambda w: w["tetra"].volume)
    op("sph.contains", lambda w: w["sph"].contains(g.Point(4, 0, 2)))
    op("sph.intersect(L)", lambda w: w["sph"].intersect(w["L"]))
    op("sph.tangent", lambda w: w["sph"].tangent(g.Point(4, 0, 2)))
    op("sph.is_tangent", lambda w: w["sph"].is_tangent(g.Plane(1, 0, 0, -4)))
    op("sph.center", lambda w: w["sph"].center)
    op("sph.volume", lambda w: w["sph"].volume)
    op("sph.area", lambda w: w["sph"].area)
    op("sph.dual", lambda w: w["sph"].dual)
    op("cone.intersect(L)", lambda w: w["cone"].intersect(w["L"]))
    op("cyl.contains", lambda w: w["cyl"].contains(g.Point(2, 0, 5)))
    op("deg3.components", lambda w: w["deg3"].components)
    op("deg3.intersect(L)", lambda w: w["deg3"].intersect(w["L"]))
    op("sph+P", lambda w: w["sph"] + w["P"])
    op("t3*P", lambda w: w["t3"] * w["P"])
    op("t3*L", lambda w: w["t3"] * w["L"])
    op("t3*E", lambda w: w["t3"] * w["E"])
    op("t3*seg3", lambda w: w["t3"] * w["seg3"])
    op("t3*poly3", lambda w: w["t3"] * w["poly3"])
    op("t3*cube", lambda w: w["t3"] * w["cube"])
    op("t3*sph", lambda w: w["t3"] * w["sph"])
    op("t3.inverse()", lambda w: w["t3"].inverse())
    op("reflection(E)", lambda w: g.reflection(w["E"]))
    # tensor level / kernels on the arrays of workspace objects
    op("E*P", lambda w: w["E"] * w["P"])
    op("t.T", lambda w: w["t"].T)
    op("conic.copy()", lambda w: w["conic"].copy())
    op("pc.expand_dims", lambda w: w["pc"].expand_dims(0))
    op("is_zero", lambda w: w["pc"].is_zero())
    op("np.add(p,q)", lambda w: np.add(w["p"], w["q"]))
    op("np.negative(pc)", lambda w: np.negative(w["pc"]))
    op("det(t)", lambda w: det(w["t"].array))
    op("adjugate(conic)", lambda w: adjugate(w["conic"].array))
    op("adjugate(2x2)", lambda w: adjugate(w["t"].array[:2, :2]))
    op("inv(t3)", lambda w: inv(w["t3"].array))
    op("null_space(E)", lambda w: null_space(w["E"].array[None, :]))
    op("orth(t)", lambda w: orth(w["t"].array))
    op("is_multiple", lambda w: is_multiple(w["p"].array, w["q"].array))
    op("eps(3)", lambda w: g.base.LeviCivitaTensor(3).array.copy())
    op("eps(4,False)", lambda w: g.base.LeviCivitaTensor(4, False).array.copy())
    op("delta(4,2)", lambda w: g.base.KroneckerDelta(4, 2).array.copy())
    return O


_OPS = None


def OPS():
    global _OPS
    if _OPS is None:
        _OPS = _ops()
    return _OPS
