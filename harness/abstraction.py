"""The projection (abstraction function) from concrete geometer results to the exact domain of the
specification.  This is the only trusted numerical code of the harness; it is kept small.

Two tolerance classes only: exact (booleans, kinds, error classes, shapes) and TOL on projected
numeric values.  TOL = 1e-6 is far above the error geometer shows on lattice inputs (<= 1e-12,
4e-8 at double roots) and far below the gap between distinct lattice classes.
"""
from __future__ import annotations

from fractions import Fraction

import numpy as np

TOL = 1e-6
PL_IDX = [(0, 1), (0, 2), (0, 3), (1, 2), (1, 3), (2, 3)]


def pluecker_from_matrix(m: np.ndarray) -> np.ndarray:
    return np.stack([m[..., i, j] for i, j in PL_IDX], axis=-1)


def pluecker_dual(q: np.ndarray) -> np.ndarray:
    q = np.asarray(q)
    return np.stack([q[..., 5], -q[..., 4], q[..., 3], q[..., 2], -q[..., 1], q[..., 0]], axis=-1)


def matrix_from_pluecker(p) -> np.ndarray:
    p = np.asarray(p)
    m = np.zeros(p.shape[:-1] + (4, 4), dtype=p.dtype)
    for k, (i, j) in enumerate(PL_IDX):
        m[..., i, j] = p[..., k]
        m[..., j, i] = -p[..., k]
    return m


def line3_pluecker(line) -> np.ndarray:
    """Point-form Pluecker vector(s) of a geometer line of P^3, whichever tensor form it is in."""
    arr = np.asarray(line.array)
    if line.tensor_shape == (0, 2):      # contravariant form: the dual (plane) matrix
        return pluecker_dual(pluecker_from_matrix(arr))
    if line.tensor_shape == (2, 0):
        return pluecker_from_matrix(arr)
    raise ValueError(f"not a line of P^3: tensor_shape={line.tensor_shape}")


def kind_of(obj) -> str:
    """Abstract kind of a geometer object (single or collection)."""
    import geometer.point as gp

    if isinstance(obj, gp.PointTensor):
        return "point"
    if isinstance(obj, gp.LineTensor):
        return "line" if obj.dim == 2 else "line3"
    if isinstance(obj, gp.PlaneTensor):
        return "plane"
    return type(obj).__name__


def coords_of(obj) -> np.ndarray:
    """Abstract coordinate vector(s): homogeneous coordinates, Pluecker vector for lines of P^3."""
    k = kind_of(obj)
    if k == "line3":
        return line3_pluecker(obj)
    return np.asarray(obj.array)


def same_class(obs, exp, tol: float = TOL) -> bool:
    """obs (numeric, any scale) is a non-zero multiple of exp (exact, non-zero)."""
    obs = np.asarray(obs, dtype=complex).ravel()
    exp = np.asarray(exp, dtype=complex).ravel()
    if obs.shape != exp.shape or not np.all(np.isfinite(obs)):
        return False
    mo, me = np.max(np.abs(obs)), np.max(np.abs(exp))
    if mo == 0 or me == 0:
        return bool(mo == 0 and me == 0)
    i = int(np.argmax(np.abs(exp)))
    if abs(obs[i]) < tol * mo:
        return False
    scaled = obs * (exp[i] / obs[i])
    return bool(np.max(np.abs(scaled - exp)) <= tol * me)


def same_class_many(obs: np.ndarray, exp: np.ndarray, tol: float = TOL) -> np.ndarray:
    """Vectorised same_class along the last axis: returns a boolean array."""
    obs = np.asarray(obs, dtype=complex)
    exp = np.asarray(exp, dtype=complex)
    obs = obs.reshape(obs.shape[: exp.ndim - 1] + (-1,)) if obs.ndim != exp.ndim else obs
    ok = np.all(np.isfinite(obs), axis=-1)
    mo = np.max(np.abs(obs), axis=-1)
    me = np.max(np.abs(exp), axis=-1)
    i = np.argmax(np.abs(exp), axis=-1)[..., None]
    oi = np.take_along_axis(obs, i, -1)
    ei = np.take_along_axis(exp, i, -1)
    with np.errstate(all="ignore"):
        scaled = obs * (ei / np.where(oi == 0, 1, oi))
        good = (np.abs(oi[..., 0]) >= tol * mo) & (np.max(np.abs(scaled - exp), axis=-1) <= tol * me)
    return ok & good & (mo > 0) & (me > 0)


def to_fraction(x: float, max_den: int = 10**4, tol: float = TOL):
    """Reconstruct a rational from a float; None if x is not within tol of a small rational."""
    if not np.isfinite(x):
        return None
    f = Fraction(float(x)).limit_denominator(max_den)
    if abs(float(f) - float(x)) <= tol * max(1.0, abs(float(x))):
        return f
    return None


def primitive(ints):
    """Canonical integer representative: coprime, first non-zero entry positive."""
    from math import gcd

    g = 0
    for v in ints:
        g = gcd(g, abs(int(v)))
    if g == 0:
        return [0 for _ in ints]
    s = 1
    for v in ints:
        if v != 0:
            s = 1 if v > 0 else -1
            break
    return [s * int(v) // g for v in ints]


def project_class(vec, max_den: int = 10**4, tol: float = TOL):
    """Real projective class of a float vector as a primitive integer vector (trace direction).
    Returns None ("IRRATIONAL") if the class has no small rational representative."""
    v = np.asarray(vec)
    if np.iscomplexobj(v):
        j = int(np.argmax(np.abs(v)))
        if abs(v[j]) == 0:
            return [0] * v.size
        v = v / v[j]
        if np.max(np.abs(v.imag)) > tol:
            return None
        v = v.real
    v = np.asarray(v, dtype=float).ravel()
    if not np.all(np.isfinite(v)):
        return None
    m = np.max(np.abs(v))
    if m == 0:
        return [0] * v.size
    v = v / m
    fr = [to_fraction(x, max_den, tol) for x in v]
    if any(f is None for f in fr):
        return None
    from math import lcm

    den = 1
    for f in fr:
        den = lcm(den, f.denominator)
    ints = [int(f * den) for f in fr]
    if max(abs(i) for i in ints) >= 2**30:
        return None
    return primitive(ints)
