------------------------------ MODULE Trace_C01 ------------------------------
(***************************************************************************)
(* Trace validation for C01/C02: every event is one call of join/meet      *)
(* recorded from geometer ({f, a, e, k, v}: family, integer arguments,     *)
(* observed error class, observed kind and canonical integer class of the  *)
(* result).  Each event must be a Call step of C01_JoinMeet with exactly   *)
(* the logged outcome.  Verdicts are total: a step that the specification  *)
(* does not allow is recorded in `bad` with the failing clause and the     *)
(* trace is consumed to the end.                                           *)
(***************************************************************************)
EXTENDS C01_JoinMeet, IOUtils

VARIABLES l, bad
tvars == <<vars, l, bad>>

Trace == ndJsonDeserialize(IOEnv.TRACE_FILE)

TraceInit ==
  /\ l = 1 /\ bad = {}
  /\ pc = "chosen" /\ fam = "j2pp" /\ args = << <<0,0,0>>, <<0,0,0>> >>
  /\ branch = "" /\ raw = Obj("none", <<0>>) /\ err = "" /\ out = Obj("none", <<0>>)

IsEvent == l <= Len(Trace) /\ l' = l + 1

\* the logged outcome is the one the specification's Call yields
Why(e) ==
  IF e.e # err' THEN "error-class: spec " \o err' \o ", logged " \o e.e
  ELSE IF e.e = "none" /\ e.k # out'.k THEN "kind"
  ELSE IF e.e = "none" /\ e.v # out'.v THEN "result-class"
  ELSE "ok"

TrCall ==
  /\ IsEvent
  /\ LET e == Trace[l] IN
       /\ fam' = e.f /\ args' = e.a
       /\ CallWith(e.f, e.a)
       /\ bad' = IF Why(e) = "ok" THEN bad ELSE bad \cup {<<l, Why(e)>>}

TraceNext == TrCall
TraceSpec == TraceInit /\ [][TraceNext]_tvars

\* the invariants of the property hold at every step of the recorded execution
AtEnd == l = Len(Trace) + 1
Report == AtEnd => PrintT(ToJson([consumed |-> l - 1, bad |-> bad]))
TraceAccepted == TLCGet("stats").diameter = Len(Trace) + 1
=============================================================================
