SPECIFICATION Spec
CONSTANTS
  K2 = 2
  K3 = 1
  Families = {"j2pp", "m2ll", "j3pp", "m3ee", "j3pl", "j3lp", "m3el", "m3le", "j3ll", "m3ll"}
  DoDump = TRUE
INVARIANT ResultIncident
INVARIANT ResultUnique
INVARIANT ErrIffDependent
INVARIANT NotCoplanarIffSkew
INVARIANT OrderIndependent
INVARIANT LinesAreLines
CONSTRAINT Dump
CHECK_DEADLOCK FALSE
