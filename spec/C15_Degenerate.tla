---------------------------- MODULE C15_Degenerate ----------------------------
(***************************************************************************)
(* C15: degenerate quadrics split into their components; two conics meet   *)
(* in (at most) four common points.                                        *)
(* Line / plane pairs: every ordered pair of lattice lines and planes, all *)
(* sign patterns and non-primitive representatives included; the expected  *)
(* components are that pair as an unordered pair of classes.  Conic pairs  *)
(* are built from KNOWN base points (pencils through four lattice points,  *)
(* tangent pencils with a double base point, circles - whose common points *)
(* include I and J -, concentric circles, pencils with a conjugate         *)
(* Gaussian pair), so the exact intersection set is known by construction  *)
(* and certified: every base point lies on both conics, no other lattice   *)
(* point does.                                                             *)
(***************************************************************************)
EXTENDS Conics, Json, SequencesExt

CONSTANTS Tasks, Stride, Seed, DoDump
VARIABLES pc, task, first, res
vars == <<pc, task, first, res>>

VHash(v) == 100003 + DotFrom(v, [i \in 1..Len(v) |-> 7 * i * i + 3 * i + 1], 1)
Keep(v, s) == VHash(v) % s = Seed % s

Lines2 == NonZero(Lattice(3, 2))
Planes3 == NonZero(Lattice(4, 1))
BasePool == {<<0,0,1>>, <<2,0,1>>, <<0,2,1>>, <<2,2,1>>, <<1,0,1>>, <<-1,1,1>>, <<1,3,1>>, <<3,1,1>>, <<-2,-1,1>>, <<1,1,2>>, <<1,0,0>>, <<1,1,0>>}
GenPos(P) == \A i, j, k \in DOMAIN P : (i < j /\ j < k) => Det3(<<P[i], P[j], P[k]>>) # 0
GI == << <<0, -1>>, <<1, 0>>, <<0, 0>> >>          \* I = (-i, 1, 0)
GJ == << <<0, 1>>, <<1, 0>>, <<0, 0>> >>           \* J = ( i, 1, 0)
G(p) == [i \in DOMAIN p |-> <<p[i], 0>>]

\* hand-picked pairs with repeated / complex common points: <<C1, C2, set of Gaussian points>>
Special == {
  <<SphereM(<<1, 1>>, 2), SphereM(<<1, -1>>, 2), {G(<<0,0,1>>), G(<<2,0,1>>), GI, GJ}>>,                 \* two circles: 2 real points + I, J
  <<SphereM(<<0, 0>>, 1), SphereM(<<0, 0>>, 4), {GI, GJ}>>,                                             \* concentric circles: I, J doubly
  <<SphereM(<<0, 0>>, 5), << <<0,1,0>>, <<1,0,0>>, <<0,0,-4>> >>, {G(<<1,2,1>>), G(<<2,1,1>>), G(<<-1,-2,1>>), G(<<-2,-1,1>>)}>>,   \* circle, hyperbola xy = 2
  <<SphereM(<<0, 0>>, 1), << <<1,0,0>>, <<0,4,0>>, <<0,0,-4>> >>, {G(<<0,1,1>>), G(<<0,-1,1>>)}>>,       \* circle inside ellipse, touching twice
  << << <<1,0,0>>, <<0,-1,0>>, <<0,0,-1>> >>, << <<1,0,0>>, <<0,1,0>>, <<0,0,1>> >>, {<<<<0,0>>, <<0,1>>, <<1,0>>>>, <<<<0,0>>, <<0,-1>>, <<1,0>>>>}>>,   \* x^2-y^2=1 and x^2+y^2=-1: (0, +-i) doubly
  <<SphereM(<<0, 0>>, 1), SphereM(<<2, 0>>, 1), {G(<<1,0,1>>), GI, GJ}>>,                               \* tangent circles: (1,0) doubly + I, J
  <<SphereM(<<0, 0>>, 25), << <<0,0,-1>>, <<0,2,0>>, <<-1,0,0>> >>, {}>> }                              \* circle and parabola y^2 = x: irrational (facts only)

Init == pc = "start" /\ task \in Tasks /\ first = <<>> /\ res = [t |-> "none"]
Choose ==
  /\ pc = "start" /\ pc' = "chosen" /\ UNCHANGED <<task, res>>
  /\ \/ task = "lines" /\ \E g \in {x \in Lines2 : Keep(x, Stride)} : first' = g
     \/ task = "planes" /\ \E e \in {x \in Planes3 : Keep(x, Stride)} : first' = e
     \/ task = "pencil" /\ \E p \in BasePool : first' = p
     \/ task = "tangentpencil" /\ \E p \in {x \in BasePool : x[3] # 0} : first' = p
     \/ task = "special" /\ \E sp \in Special : first' = sp
     \/ task = "irreducible" /\ \E k \in 1..6 : first' = <<k>>

Compute ==
  /\ pc = "chosen" /\ pc' = "done" /\ UNCHANGED <<task, first>>
  /\ \/ /\ task = "lines"
        /\ \E h \in Lines2 : res' = [t |-> "lines", g |-> first, h |-> h, M |-> SymOuter(first, h), same |-> Proportional(first, h)]
     \/ /\ task = "planes"
        /\ \E f \in Planes3 : res' = [t |-> "planes", g |-> first, h |-> f, M |-> SymOuter(first, f), same |-> Proportional(first, f)]
     \/ /\ task = "pencil"
        /\ \E p2 \in BasePool, p3 \in BasePool, p4 \in BasePool, e1 \in BasePool, e2 \in BasePool :
             LET P == <<first, p2, p3, p4>> IN
             /\ VHash(first) < VHash(p2) /\ VHash(p2) < VHash(p3) /\ VHash(p3) < VHash(p4) /\ GenPos(P)
             /\ Keep(p2 \o p3 \o p4 \o e1 \o e2, 3 * Stride)
             /\ e1 \notin {first, p2, p3, p4} /\ e2 \notin {first, p2, p3, p4} /\ e1 # e2
             /\ LET C1 == ConicThrough5(first, p2, p3, p4, e1) C2 == ConicThrough5(first, p2, p3, p4, e2) IN
                /\ Det(C1) # 0 /\ ~QuadricClassEq(C1, C2) /\ ~IsZeroV(Flatten(C2))
                /\ res' = [t |-> "conics", c1 |-> MatPrimitive(C1), c2 |-> MatPrimitive(C2), pts |-> [i \in 1..4 |-> G(P[i])],
                           kind |-> IF Det(C2) = 0 THEN "pencil-second-degenerate" ELSE "pencil-simple"]
     \/ /\ task = "tangentpencil"     \* conics through p2, p3 touching the line t in p1: a l12 l13 + b t l23
        /\ \E p2 \in BasePool, p3 \in BasePool, q \in BasePool, ab \in {<<1, 1>>, <<1, 2>>, <<2, -1>>, <<1, -3>>, <<3, 1>>} , cd \in {<<1, -1>>, <<2, 1>>, <<1, 3>>} :
             LET p1 == first tl == Cross(p1, q) IN
             /\ VHash(p2) < VHash(p3) /\ GenPos(<<p1, p2, p3>>) /\ q # p1 /\ Dot(tl, p2) # 0 /\ Dot(tl, p3) # 0
             /\ Keep(p2 \o p3 \o q, 2 * Stride) /\ ab # cd
             /\ LET D1 == SymOuter(Cross(p1, p2), Cross(p1, p3)) D2 == SymOuter(tl, Cross(p2, p3))
                    C1 == MatAdd(MatScale(ab[1], D1), MatScale(ab[2], D2)) C2 == MatAdd(MatScale(cd[1], D1), MatScale(cd[2], D2)) IN
                /\ Det(C1) # 0 /\ Det(C2) # 0 /\ ~QuadricClassEq(C1, C2)
                /\ res' = [t |-> "conics", c1 |-> MatPrimitive(C1), c2 |-> MatPrimitive(C2), pts |-> <<G(p1), G(p2), G(p3)>>,
                           kind |-> "pencil-double-root"]
     \/ /\ task = "special"
        /\ res' = [t |-> "conics", c1 |-> first[1], c2 |-> first[2], pts |-> SetToSeq(first[3]),
                   kind |-> IF first[3] = {} THEN "irrational" ELSE "special"]
     \/ /\ task = "irreducible"
        /\ LET Qs == << << <<1,0,0,0>>, <<0,1,0,0>>, <<0,0,-1,0>>, <<0,0,0,0>> >>,         \* cone: rank 3, irreducible
                        << <<1,0,0,0>>, <<0,1,0,0>>, <<0,0,0,0>>, <<0,0,0,-1>> >>,         \* cylinder: rank 3
                        << <<1,0,0,0>>, <<0,1,0,0>>, <<0,0,1,0>>, <<0,0,0,-1>> >>,         \* sphere
                        << <<1,0,0,0>>, <<0,-1,0,0>>, <<0,0,1,0>>, <<0,0,0,-1>> >>,        \* hyperboloid
                        << <<0,0,0,1>>, <<0,2,0,0>>, <<0,0,2,0>>, <<1,0,0,0>> >>,          \* paraboloid  y^2 + z^2 + x w = 0
                        << <<1,1,0,0>>, <<1,2,0,1>>, <<0,0,-1,1>>, <<0,1,1,3>> >> >>
               Q == Qs[first[1]] IN
           res' = [t |-> "irreducible", Q |-> Q, deg |-> Det(Q) = 0]

Next == Choose \/ Compute
Spec == Init /\ [][Next]_vars

\* ---------------------------------------------------------------------------
Done == pc = "done"
\* the line/plane pair conic contains exactly the lattice points of the two components
PairLocus == (Done /\ res.t \in {"lines", "planes"}) =>
   \A p \in Classes(Len(res.g), 1) : OnQuadric(res.M, p) <=> (Dot(p, res.g) = 0 \/ Dot(p, res.h) = 0)
PairDegenerate == (Done /\ res.t \in {"lines", "planes"}) => Det(res.M) = 0
\* the base points lie on both conics and no other lattice point does
GQF(Q, x) == LET n == Len(x)
                 RECURSIVE S(_)
                 S(k) == IF k > n * n THEN CZero
                         ELSE CAdd(CMul(CRe(Q[((k - 1) \div n) + 1][((k - 1) % n) + 1]), CMul(x[((k - 1) \div n) + 1], x[((k - 1) % n) + 1])), S(k + 1))
             IN S(1)
BaseOnBoth == (Done /\ res.t = "conics") => \A p \in Range(res.pts) : GQF(res.c1, p) = CZero /\ GQF(res.c2, p) = CZero
NoOtherLattice == (Done /\ res.t = "conics" /\ res.kind # "irrational") =>
   \A q \in Classes(3, 3) : (OnQuadric(res.c1, q) /\ OnQuadric(res.c2, q)) => \E p \in Range(res.pts) : p = G(q) \/ p = G(VNeg(q))

Stratum == CASE res.t \in {"lines", "planes"} -> (IF res.same THEN "double" ELSE
                                                 IF \E i \in DOMAIN res.g : res.g[i] = 0 \/ res.h[i] = 0 THEN "pair/zero-coordinate" ELSE "pair")
             [] res.t = "conics" -> res.kind
             [] OTHER -> (IF res.deg THEN "irreducible-degenerate" ELSE "non-degenerate")
Dump == (Done /\ DoDump) => PrintT(ToJson([r |-> res, s |-> Stratum]))
=============================================================================
