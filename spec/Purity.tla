------------------------------- MODULE Purity -------------------------------
(***************************************************************************)
(* C12: queries are pure.  The state is a workspace of objects (each       *)
(* abstracted to a version number: 0 = the digest it was built with), the  *)
(* module constants and caches (likewise), and `base`, the answer every    *)
(* operation gives on a fresh workspace.  Every public operation is the    *)
(* action Call(op): it changes no object, no constant, no cache, and       *)
(* returns the answer it returns when asked first.                         *)
(*                                                                         *)
(* TLC generates the call histories (every ordered pair of operations -    *)
(* the full writer x reader interference matrix - and random long ones     *)
(* with -simulate); each is executed on a freshly built real workspace     *)
(* with the digest of EVERY object, constant and cache logged after every  *)
(* call, and the log is validated against this specification              *)
(* (Trace_C12.tla).                                                        *)
(***************************************************************************)
EXTENDS Integers, Sequences, FiniteSets, TLC, Json

CONSTANTS NOps,      \* number of operations of the table (harness/optable.py)
          NObjs,     \* number of workspace objects + constants + caches
          MaxLen, DoDump
VARIABLES pool, out, hist
vars == <<pool, out, hist>>

Ops == 1..NOps
Fresh == [i \in 1..NObjs |-> 0]

\* Init is also the state of a NEW INTERPRETER (module-level caches empty): the replay executes every history of length 1, and
\* all ordered pairs of the operations that read those caches, in a new interpreter each (harness/fresh.py), besides the
\* histories run on fresh workspaces of one long-lived process
Init == pool = Fresh /\ out = 0 /\ hist = <<>>

\* the answer is identified with 0 = "the answer on a fresh workspace" (see Trace_C12 for how it is logged)
Call(op) ==
  /\ Len(hist) < MaxLen
  /\ pool' = pool                      \* no operand, constant or cache changes
  /\ out' = 0                          \* same answer as when asked first
  /\ hist' = Append(hist, op)

Next == \E op \in Ops : Call(op)
Spec == Init /\ [][Next]_vars

Pure == pool = Fresh
Repeatable == out = 0
PureStep == [][pool' = pool]_vars

Dump == (DoDump /\ Len(hist) = MaxLen) => PrintT(ToJson([h |-> hist]))
=============================================================================
