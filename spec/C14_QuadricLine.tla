--------------------------- MODULE C14_QuadricLine ---------------------------
(***************************************************************************)
(* C14: quadric - line intersection, tangents, polars, duals.              *)
(* A line through the points A, B is parametrised as s A + t B; on it the  *)
(* quadric x^T Q x = 0 is the binary quadratic  a s^2 + b s t + c t^2 with  *)
(* a = A^T Q A, b = 2 A^T Q B, c = B^T Q B and discriminant b^2 - 4ac.     *)
(* Strata (assigned here, from the input): line-in-quadric (a=b=c=0),      *)
(* tangent (disc = 0), secant-rational (disc a square), complex-gaussian   *)
(* (-disc a square), secant-irrational, complex-irrational.  In the        *)
(* rational and Gaussian strata the exact points are emitted; in the       *)
(* irrational ones the harness checks the facts the property states.       *)
(***************************************************************************)
EXTENDS Conics, Json, SequencesExt

CONSTANTS Tasks, Stride, Seed, DoDump
VARIABLES pc, task, first, res
vars == <<pc, task, first, res>>

VHash(v) == 100003 + DotFrom(v, [i \in 1..Len(v) |-> 7 * i * i + 3 * i + 1], 1)
Keep(v, s) == VHash(v) % s = Seed % s

SymMat3(v) == << <<v[1], v[2], v[3]>>, <<v[2], v[4], v[5]>>, <<v[3], v[5], v[6]>> >>
Generic2 == {SymMat3(v) : v \in {x \in Lattice(6, 1) : Keep(x, Stride)}}
Named2 == { SphereM(<<0, 0>>, 25), SphereM(<<1, 2>>, 4), SphereM(<<0, 0>>, 2), << <<1,0,0>>, <<0,-1,0>>, <<0,0,-1>> >>,
            << <<0,0,-1>>, <<0,2,0>>, <<-1,0,0>> >>, << <<4,0,0>>, <<0,9,0>>, <<0,0,-36>> >>, << <<1,0,0>>, <<0,1,0>>, <<0,0,1>> >>,
            SymOuter(<<1,0,0>>, <<0,1,-1>>), SymOuter(<<1,1,0>>, <<1,-1,2>>), SymOuter(<<1,2,-1>>, <<1,2,-1>>) }
Named3 == { SphereM(<<1, 0, 2>>, 9), SphereM(<<0, 0, 0>>, 1),
            << <<1,0,0,0>>, <<0,1,0,0>>, <<0,0,-1,0>>, <<0,0,0,0>> >>, << <<1,0,0,0>>, <<0,1,0,0>>, <<0,0,0,0>>, <<0,0,0,-1>> >>,
            << <<1,0,0,0>>, <<0,-1,0,0>>, <<0,0,1,0>>, <<0,0,0,-1>> >>, << <<1,1,0,0>>, <<1,2,0,1>>, <<0,0,-1,1>>, <<0,1,1,3>> >>,
            SymOuter(<<1,0,0,-1>>, <<0,1,1,0>>) }
Pts2 == Classes(3, 2)
Pts3 == Classes(4, 1)

Quad(Q, A, B) == <<QForm(Q, A, A), 2 * QForm(Q, A, B), QForm(Q, B, B)>>
Disc(q) == q[2] * q[2] - 4 * q[1] * q[3]
\* Gaussian-integer points:  seq of <<re, im>>
GPt(A, B, s, t) == [i \in DOMAIN A |-> CAdd(CMul(s, CRe(A[i])), CMul(t, CRe(B[i])))]
RPt(A, B, s, t) == VAdd(VScale(s, A), VScale(t, B))

Intersect(Q, A, B) ==
  LET q == Quad(Q, A, B) a == q[1] b == q[2] c == q[3] D == Disc(q) IN
  IF a = 0 /\ b = 0 /\ c = 0 THEN [k |-> "line-in-quadric", pts |-> {}, gpts |-> {}]
  ELSE IF D = 0 THEN [k |-> "tangent", gpts |-> {},
                      pts |-> {Primitive(IF a # 0 \/ b # 0 THEN RPt(A, B, -b, 2 * a) ELSE RPt(A, B, 1, 0))}]
  ELSE IF IsSquare(D) THEN
       LET r == ISqrt(D) IN
       [k |-> "secant-rational", gpts |-> {},
        pts |-> IF a # 0 THEN {Primitive(RPt(A, B, -b + r, 2 * a)), Primitive(RPt(A, B, -b - r, 2 * a))}
                ELSE {Primitive(A), Primitive(RPt(A, B, c, -b))}]              \* a = 0: t (b s + c t) = 0
  ELSE IF IsSquare(-D) THEN
       LET r == ISqrt(-D) IN
       [k |-> "complex-gaussian", pts |-> {},
        gpts |-> {GPt(A, B, <<-b, r>>, <<2 * a, 0>>), GPt(A, B, <<-b, -r>>, <<2 * a, 0>>)}]
  ELSE [k |-> IF D > 0 THEN "secant-irrational" ELSE "complex-irrational", pts |-> {}, gpts |-> {}]

Init == pc = "start" /\ task \in Tasks /\ first = <<>> /\ res = [t |-> "none"]
Choose ==
  /\ pc = "start" /\ pc' = "chosen" /\ UNCHANGED <<task, res>>
  /\ \/ task \in {"gen2", "polar2"} /\ \E Q \in Generic2 : first' = Q
     \/ task \in {"named2", "tan2"} /\ \E Q \in Named2 : first' = Q
     \/ task = "named3" /\ \E Q \in Named3 : first' = Q

Compute ==
  /\ pc = "chosen" /\ pc' = "done" /\ UNCHANGED <<task, first>>
  /\ \/ /\ task \in {"gen2", "named2"}
        /\ \E A \in Pts2, B \in Pts2 :
             /\ VHash(A) < VHash(B) /\ ~SameClass(A, B)
             /\ Keep(A \o B, IF task = "gen2" THEN 40 ELSE Stride)
             /\ res' = [t |-> "int", d |-> 2, Q |-> first, A |-> A, B |-> B, l |-> Primitive(Cross(A, B)),
                        r |-> LET x == Intersect(first, A, B) IN [k |-> x.k, pts |-> SetToSeq(x.pts), gpts |-> SetToSeq(x.gpts)],
                        deg |-> Det(first) = 0]
     \/ /\ task = "named3"
        /\ \E A \in Pts3, B \in Pts3 :
             /\ VHash(A) < VHash(B) /\ ~SameClass(A, B) /\ Keep(A \o B, Stride)
             /\ res' = [t |-> "int", d |-> 3, Q |-> first, A |-> A, B |-> B, l |-> Primitive(PlueckerOfPoints(A, B)),
                        r |-> LET x == Intersect(first, A, B) IN [k |-> x.k, pts |-> SetToSeq(x.pts), gpts |-> SetToSeq(x.gpts)],
                        deg |-> Det(first) = 0]
     \/ /\ task = "polar2"          \* pole / polar / dual / is_tangent for non-degenerate conics
        /\ Det(first) # 0
        /\ \E p \in {x \in Pts2 : Keep(x, 3)}, h \in {x \in Pts2 : Keep(x, 4)} :
             res' = [t |-> "polar", Q |-> first, p |-> p, polar |-> Primitive(Polar(first, p)), on |-> OnQuadric(first, p),
                     h |-> h, tan |-> TangentTo(first, h), dual |-> MatPrimitive(Adj(first))]
     \/ /\ task = "tan2"            \* tangent(at) for points of the plane on / off named conics
        /\ Det(first) # 0
        /\ \E p \in {<<x, y, 1>> : x \in -6..6, y \in -6..6} :
             /\ (OnQuadric(first, p) \/ Keep(p, 5))
             /\ res' = [t |-> "tan", Q |-> first, p |-> p, on |-> OnQuadric(first, p), polar |-> Primitive(Polar(first, p))]

Next == Choose \/ Compute
Spec == Init /\ [][Next]_vars

\* ---------------------------------------------------------------------------
Done == pc = "done"
\* the emitted points are on the line and on the quadric
PointsOnBoth == (Done /\ res.t = "int") =>
   /\ \A p \in Range(res.r.pts) : IF res.d = 2 THEN Dot(p, res.l) = 0 ELSE PointOnLine3(p, res.l)
   /\ \A p \in Range(res.r.pts) : OnQuadric(res.Q, p)
   /\ res.r.k = "secant-rational" => Len(res.r.pts) = 2
   /\ res.r.k = "tangent" => Len(res.r.pts) = 1
\* Gaussian points: x^T Q x = 0 over the Gaussian integers
GQForm(Q, x) == LET n == Len(x)
                    term(i, j) == CMul(CRe(Q[i][j]), CMul(x[i], x[j]))
                    RECURSIVE S(_)
                    S(k) == IF k > n * n THEN CZero ELSE CAdd(term(((k - 1) \div n) + 1, ((k - 1) % n) + 1), S(k + 1))
                IN S(1)
GaussianOn == (Done /\ res.t = "int") => \A g \in Range(res.r.gpts) : GQForm(res.Q, g) = CZero
\* a secant through two lattice points of the quadric returns exactly those two
SecantThroughKnown == (Done /\ res.t = "int" /\ OnQuadric(res.Q, res.A) /\ OnQuadric(res.Q, res.B) /\ res.r.k # "line-in-quadric") =>
   Range(res.r.pts) = {Primitive(res.A), Primitive(res.B)}
\* pole and polar are reciprocal; the polar of a point of the conic is its tangent; dual of the dual is the conic
Reciprocal == (Done /\ res.t = "polar") =>
   /\ \A q \in {x \in Pts2 : Keep(x, 5)} : PointOnHyper(q, Polar(res.Q, res.p)) <=> PointOnHyper(res.p, Polar(res.Q, q))
   /\ res.on => TangentTo(res.Q, res.polar)
   /\ MatPrimitive(Adj(res.dual)) = MatPrimitive(res.Q)
   /\ res.tan <=> OnQuadric(res.dual, res.h)

Stratum == CASE res.t = "int" -> res.r.k
             [] res.t = "polar" -> (IF res.on THEN "point-on-conic" ELSE IF res.tan THEN "tangent-line" ELSE "general")
             [] res.t = "tan" -> (IF res.on THEN "point-on-conic" ELSE "outside-or-inside")
Dump == (Done /\ DoDump) => PrintT(ToJson([r |-> res, s |-> Stratum]))
=============================================================================
