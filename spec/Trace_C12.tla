------------------------------ MODULE Trace_C12 ------------------------------
(***************************************************************************)
(* Trace validation for C12.  Events: {tid, op, post, ans} where post is   *)
(* the vector of digest ids of every workspace object / constant / cache   *)
(* after the call (0 = unchanged since the workspace was built) and ans    *)
(* the id of the answer (0 = the answer the operation gives on a fresh     *)
(* workspace).  A new tid starts a fresh workspace.  Each event must be    *)
(* Purity!Call(op) with exactly the logged post state and answer.          *)
(***************************************************************************)
EXTENDS Purity, IOUtils

VARIABLES l, bad, tid, live
tvars == <<vars, l, bad, tid, live>>
Trace == ndJsonDeserialize(IOEnv.TRACE_FILE)

TraceInit == l = 1 /\ bad = {} /\ tid = -1 /\ live = TRUE /\ pool = Fresh /\ out = 0 /\ hist = <<>>

Changed(post) == {i \in 1..NObjs : post[i] # 0}

TrCall ==
  /\ l <= Len(Trace) /\ l' = l + 1
  /\ LET e == Trace[l] new == e.tid # tid IN
     /\ tid' = e.tid
     /\ IF ~new /\ ~live
        THEN UNCHANGED <<vars, bad, live>>                         \* rest of a rejected history: skipped
        ELSE /\ IF new THEN hist' = <<e.op>> /\ pool' = Fresh /\ out' = 0     \* fresh workspace, then the first call
                    ELSE Call(e.op)                                      \* Purity!Call: nothing changes, same answer
             /\ IF e.post # pool' THEN bad' = bad \cup {<<l, "purity", Changed(e.post)>>} /\ live' = FALSE
                ELSE IF e.ans # out' THEN bad' = bad \cup {<<l, "answer", {}>>} /\ live' = FALSE
                ELSE bad' = bad /\ live' = TRUE

TraceNext == TrCall
TraceSpec == TraceInit /\ [][TraceNext]_tvars
AtEnd == l = Len(Trace) + 1
Report == AtEnd => PrintT(ToJson([consumed |-> l - 1, bad |-> bad]))
TraceAccepted == TLCGet("stats").diameter = Len(Trace) + 1
=============================================================================
