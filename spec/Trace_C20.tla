------------------------------ MODULE Trace_C20 ------------------------------
(***************************************************************************)
(* Trace validation for C20: each event is one matrix taken out of a batch *)
(* that geometer's det/adjugate processed ({n, M, det, adj, err, path}).   *)
(* The event must be a Finish step of C20_Kernels whose result record      *)
(* carries exactly the logged determinant and adjugate.  The algorithm     *)
(* geometer selected (path) is logged but not constrained: the spec        *)
(* accepts any choice because all variants are proved equal.               *)
(***************************************************************************)
EXTENDS C20_Kernels, IOUtils

VARIABLES l, bad
tvars == <<vars, l, bad>>
Trace == ndJsonDeserialize(IOEnv.TRACE_FILE)

TraceInit == l = 1 /\ bad = {} /\ pc = "first" /\ task = "m2" /\ M = <<>> /\ res = [t |-> "none"]

Why(e) == IF e.err # "none" THEN "error: " \o e.err
          ELSE IF e.det # res'.det THEN "det"
          ELSE IF e.adj # res'.adj THEN "adjugate"
          ELSE "ok"

TrMat ==
  /\ l <= Len(Trace) /\ l' = l + 1
  /\ LET e == Trace[l] IN
       /\ res' = MatResult(e.M)          \* the Finish step of the specification on the logged matrix
       /\ pc' = "done" /\ M' = e.M /\ UNCHANGED task
       /\ bad' = IF Why(e) = "ok" THEN bad ELSE bad \cup {<<l, Why(e)>>}

TraceNext == TrMat
TraceSpec == TraceInit /\ [][TraceNext]_tvars
AtEnd == l = Len(Trace) + 1
Report == AtEnd => PrintT(ToJson([consumed |-> l - 1, bad |-> bad]))
TraceAccepted == TLCGet("stats").diameter = Len(Trace) + 1
=============================================================================
