--------------------------- MODULE C07_Invariance ---------------------------
(***************************************************************************)
(* C07: an invertible transformation preserves incidence and commutes with *)
(* join and meet; points on / hyperplanes tangent to a quadric stay so;    *)
(* cross ratios are unchanged.                                             *)
(* Constructive: points move by M, hyperplanes by the cofactor matrix,     *)
(* 3D lines through two image points, quadrics by adj(M)^T Q adj(M).       *)
(* Declarative (what pins the dual action down): image of the join = join  *)
(* of the images, incidence/tangency/cross ratio before = after.  A spec   *)
(* that moved a line by M instead of cof(M) is rejected by TLC here.       *)
(***************************************************************************)
EXTENDS Transform, Json

CONSTANTS Tasks, Stride, Seed, DoDump
VARIABLES pc, task, cfgn, res
vars == <<pc, task, cfgn, res>>

VHash(v) == 100003 + (IF Len(v) = 6 THEN Dot(v, <<1, 5, 7, 11, 13, 17>>) ELSE Dot(v, SubSeq(<<1, 5, 7, 11>>, 1, Len(v))))
Keep(v, s) == VHash(v) % s = Seed % s

P2 == Classes(3, 1)
P3 == Classes(4, 1)
L3 == {l \in Lines3(1) : Keep(l, Stride)}
L3few == {l \in Lines3(1) : Keep(l, 4 * Stride)}

\* ---- join/meet families (constructive operators of Proj) --------------------------------
JM(f, a) ==
  CASE f = "j2pp"  -> Obj("line",  Join2PP(a[1], a[2]))
    [] f = "m2ll"  -> Obj("point", Meet2LL(a[1], a[2]))
    [] f = "j3pp"  -> Obj("line3", Join3PP(a[1], a[2]))
    [] f = "j3ppp" -> Obj("plane", Join3PPP(a[1], a[2], a[3]))
    [] f = "j3pl"  -> Obj("plane", Join3LP(a[2], a[1]))
    [] f = "j3ll"  -> Obj("plane", Join3LL(a[1], a[2]))
    [] f = "m3ee"  -> Obj("line3", Meet3EE(a[1], a[2]))
    [] f = "m3eee" -> Obj("point", Meet3EEE(a[1], a[2], a[3]))
    [] f = "m3le"  -> Obj("point", Meet3LE(a[1], a[2]))
    [] f = "m3ll"  -> Obj("point", Meet3LL(a[1], a[2]))
Kinds(f) ==
  CASE f = "j2pp" -> <<"point", "point">> [] f = "m2ll" -> <<"line", "line">>
    [] f = "j3pp" -> <<"point", "point">> [] f = "j3ppp" -> <<"point", "point", "point">>
    [] f = "j3pl" -> <<"point", "line3">> [] f = "j3ll" -> <<"line3", "line3">>
    [] f = "m3ee" -> <<"plane", "plane">> [] f = "m3eee" -> <<"plane", "plane", "plane">>
    [] f = "m3le" -> <<"line3", "plane">> [] f = "m3ll" -> <<"line3", "line3">>
DimOf(f) == IF f \in {"j2pp", "m2ll"} THEN 2 ELSE 3
ErrJM(f, a) == IF f \in {"j3ll", "m3ll"} /\ LineLine(a[1], a[2]) # 0 THEN "NotCoplanar"
               ELSE IF IsNull(JM(f, a)) THEN "LinearDependence" ELSE "none"
ArgSets(f) ==
  CASE f \in {"j2pp", "m2ll"} -> {<<x, y>> : x \in P2, y \in P2}
    [] f \in {"j3pp", "m3ee"} -> {<<x, y>> : x \in {p \in P3 : Keep(p, 2)}, y \in P3}
    [] f \in {"j3ppp", "m3eee"} -> {<<x, y, z>> : x \in {p \in P3 : Keep(p, 2 * Stride)}, y \in {p \in P3 : Keep(p, 3)}, z \in P3}
    [] f = "j3pl" -> {<<x, l>> : x \in P3, l \in L3few}
    [] f = "m3le" -> {<<l, e>> : l \in L3few, e \in P3}
    [] f \in {"j3ll", "m3ll"} -> {<<l, m>> : l \in L3few, m \in L3}
JMFamilies == {"j2pp", "m2ll", "j3pp", "j3ppp", "j3pl", "j3ll", "m3ee", "m3eee", "m3le", "m3ll"}

ImgArgs(f, a, M) == [i \in DOMAIN a |-> ActAny(M, Obj(Kinds(f)[i], a[i])).v]

\* ---- quadrics with lattice points on them ---------------------------------------------
Quadrics2 == { SphereM(<<1, 2>>, 4), SphereM(<<0, 0>>, 25),
               << <<1,0,0>>, <<0,-1,0>>, <<0,0,-1>> >>,          \* hyperbola x^2 - y^2 = 1
               << <<0,0,-1>>, <<0,2,0>>, <<-1,0,0>> >>,          \* parabola y^2 = x
               SymOuter(<<1,0,0>>, <<0,1,-1>>) }                 \* two lines
Quadrics3 == { SphereM(<<1, 0, 2>>, 9),
               << <<1,0,0,0>>, <<0,1,0,0>>, <<0,0,-1,0>>, <<0,0,0,0>> >>,     \* cone x^2 + y^2 = z^2
               << <<1,0,0,0>>, <<0,1,0,0>>, <<0,0,0,0>>, <<0,0,0,-1>> >>,     \* cylinder x^2 + y^2 = 1
               << <<1,0,0,0>>, <<0,-1,0,0>>, <<0,0,1,0>>, <<0,0,0,-1>> >> }   \* hyperboloid
QPoints(d) == IF d = 2 THEN {p \in Classes(3, 5) : p[3] \in {0, 1} /\ Keep(p, 1)}
              ELSE {p \in Classes(4, 4) : p[4] \in {0, 1}}

\* ---- cross ratio of four points a + x b on a line (x = <<num, den>>; den = 0 means the point b) --------
PtAt(a, b, x) == VAdd(VScale(x[2], a), VScale(x[1], b))
Br(x, y) == x[1] * y[2] - y[1] * x[2]                 \* bracket of two parameters on P^1
CRParams(x1, x2, x3, x4) == <<Br(x1, x3) * Br(x2, x4), Br(x1, x4) * Br(x2, x3)>>     \* <<num, den>>, den = 0: infinite
Params == {<<-1, 1>>, <<0, 1>>, <<2, 1>>, <<1, 2>>, <<1, 0>>}        \* includes the origin of the parametrisation and infinity
LinePairs(d) == IF d = 2 THEN {<< <<1,0,1>>, <<0,1,1>> >>, << <<0,0,1>>, <<1,1,0>> >>, << <<1,1,1>>, <<1,-1,0>> >>}
                ELSE {<< <<1,0,1,1>>, <<0,1,1,1>> >>, << <<0,0,0,1>>, <<1,0,1,0>> >>, << <<1,1,0,1>>, <<0,1,-1,1>> >>}

\* pencils over the four points: vertices off the carrier line (a generic one, one at infinity, and the preimages of points at
\* infinity whose coordinates all have one sign, so that the image pencil consists of parallel lines), and in space axes
\* (pairs of vertices) skew to the carrier line
VCand(d, M) == IF d = 2 THEN {<<2,3,1>>, <<1,-2,0>>, Primitive(MatVec(Adj(M), <<1,1,0>>)), Primitive(MatVec(Adj(M), <<0,-1,0>>))}
               ELSE {<<2,3,-1,1>>, <<1,-2,1,0>>, Primitive(MatVec(Adj(M), <<1,1,1,0>>)), Primitive(MatVec(Adj(M), <<-1,0,-2,0>>)), Primitive(MatVec(Adj(M), <<0,1,0,0>>))}
PencilVertices(d, a, b, M) == IF d = 2 THEN {v \in VCand(d, M) : Det3(<<a, b, v>>) # 0}
                              ELSE {v \in VCand(d, M) : ~IsZeroV(Join3PPP(a, b, v))}
PencilAxes(d, a, b, M) == IF d = 2 THEN {} ELSE {vw \in VCand(d, M) \X VCand(d, M) : Det4(<<a, b, vw[1], vw[2]>>) # 0 /\ vw[1][1] <= vw[2][1]}

\* polytopes (homogeneous integer vertices, in order)
Polytopes2 == { Obj("segment", << <<0,0,1>>, <<2,1,1>> >>), Obj("segment", << <<1,1,1>>, <<1,0,0>> >>),
                Obj("polygon", << <<0,0,1>>, <<2,0,1>>, <<0,2,1>> >>),
                Obj("polygon", << <<0,0,1>>, <<3,0,1>>, <<3,3,1>>, <<1,1,1>>, <<0,3,1>> >>) }
Polytopes3 == { Obj("segment", << <<0,0,0,1>>, <<1,2,2,1>> >>),
                Obj("polygon", << <<0,0,0,1>>, <<2,0,0,1>>, <<0,2,1,1>> >>),
                Obj("polygon", << <<0,0,1,1>>, <<2,0,1,1>>, <<2,2,3,1>>, <<0,2,3,1>> >>),
                Obj("polyhedron", << << <<0,0,0,1>>, <<1,0,0,1>>, <<0,1,0,1>> >>, << <<0,0,0,1>>, <<1,0,0,1>>, <<0,0,1,1>> >>,
                                     << <<0,0,0,1>>, <<0,1,0,1>>, <<0,0,1,1>> >>, << <<1,0,0,1>>, <<0,1,0,1>>, <<0,0,1,1>> >> >>) }

\* ---------------------------------------------------------------------------
Init == pc = "start" /\ task \in Tasks /\ cfgn = <<>> /\ res = [t |-> "none"]

Choose ==
  /\ pc = "start" /\ pc' = "chosen" /\ UNCHANGED <<task, res>>
  /\ \/ /\ task = "jm"
        /\ \E f \in JMFamilies, i \in DOMAIN Pool2 : cfgn' = <<f, i>>
     \/ /\ task = "inc2" /\ \E i \in DOMAIN Pool2, h \in P2 : cfgn' = <<i, h>>
     \/ /\ task = "inc3" /\ \E i \in DOMAIN Pool3, h \in {e \in P3 : Keep(e, 2)} : cfgn' = <<i, h>>
     \/ /\ task = "incl3" /\ \E i \in DOMAIN Pool3, l \in L3few : cfgn' = <<i, l>>
     \/ /\ task = "quad2" /\ \E i \in DOMAIN Pool2, Q \in Quadrics2 : cfgn' = <<i, Q>>
     \/ /\ task = "quad3" /\ \E i \in DOMAIN Pool3, Q \in Quadrics3 : cfgn' = <<i, Q>>
     \/ /\ task = "cr" /\ \E d \in {2, 3}, i \in DOMAIN Pool2 : cfgn' = <<d, i>>
     \/ /\ task = "poly" /\ \E d \in {2, 3} : cfgn' = <<d>>

Compute ==
  /\ pc = "chosen" /\ pc' = "done" /\ UNCHANGED <<task, cfgn>>
  /\ \/ /\ task = "jm"
        /\ LET f == cfgn[1] M == PoolOf(DimOf(f))[cfgn[2]] IN
           \E a \in ArgSets(f) :
             LET e == ErrJM(f, a) IN
             res' = [t |-> "jm", f |-> f, a |-> a, M |-> M, e |-> e,
                     r |-> IF e = "none" THEN CanonAny(ActAny(M, JM(f, a))) ELSE Obj("none", <<0>>),
                     ia |-> ImgArgs(f, a, M)]
     \/ /\ task = "inc2"
        /\ \E p \in P2 : res' = [t |-> "inc", d |-> 2, h |-> Obj("line", cfgn[2]), p |-> Obj("point", p),
                                 M |-> Pool2[cfgn[1]], b |-> PointOnHyper(p, cfgn[2])]
     \/ /\ task = "inc3"
        /\ \E p \in P3 : res' = [t |-> "inc", d |-> 3, h |-> Obj("plane", cfgn[2]), p |-> Obj("point", p),
                                 M |-> Pool3[cfgn[1]], b |-> PointOnHyper(p, cfgn[2])]
     \/ /\ task = "incl3"
        /\ \/ \E p \in P3 : res' = [t |-> "inc", d |-> 3, h |-> Obj("line3", cfgn[2]), p |-> Obj("point", p),
                                    M |-> Pool3[cfgn[1]], b |-> PointOnLine3(p, cfgn[2])]
           \/ \E e \in P3 : res' = [t |-> "inc", d |-> 3, h |-> Obj("plane", e), p |-> Obj("line3", cfgn[2]),
                                    M |-> Pool3[cfgn[1]], b |-> Line3InPlane(cfgn[2], e)]
     \/ /\ task \in {"quad2", "quad3"}
        /\ LET d == IF task = "quad2" THEN 2 ELSE 3  Q == cfgn[2]  M == PoolOf(d)[cfgn[1]] IN
           \/ \E p \in QPoints(d) : (OnQuadric(Q, p) \/ Keep(p, 7)) /\
                res' = [t |-> "qp", d |-> d, Q |-> Q, x |-> p, M |-> M, b |-> OnQuadric(Q, p)]
           \/ \E p \in QPoints(d) : Det(Q) # 0 /\ (OnQuadric(Q, p) \/ Keep(p, 7)) /\
                \* the polar of a point of Q is tangent, the polar of another point is not
                res' = [t |-> "qh", d |-> d, Q |-> Q, x |-> Polar(Q, p), M |-> M, b |-> TangentTo(Q, Polar(Q, p))]
     \/ /\ task = "cr"
        /\ LET d == cfgn[1] M == PoolOf(d)[cfgn[2]] IN
           \E ab \in LinePairs(d), x1 \in Params, x2 \in Params, x3 \in Params, x4 \in Params :
             LET a == ab[1] b == ab[2] IN
             /\ Cardinality({x1, x2, x3, x4}) = 4
             /\ res' = [t |-> "cr", d |-> d, pts |-> <<PtAt(a, b, x1), PtAt(a, b, x2), PtAt(a, b, x3), PtAt(a, b, x4)>>,
                        M |-> M, cr |-> CRParams(x1, x2, x3, x4), vx |-> PencilVertices(d, a, b, M), axes |-> PencilAxes(d, a, b, M)]
     \/ /\ task = "poly"        \* a transformed polytope has the images of the original vertices, in order
        /\ LET d == cfgn[1] IN
           \E i \in DOMAIN PoolOf(d), x \in (IF d = 2 THEN Polytopes2 ELSE Polytopes3) :
             res' = [t |-> "poly", d |-> d, x |-> x, M |-> PoolOf(d)[i], img |-> CanonAny(ActAny(PoolOf(d)[i], x))]

Next == Choose \/ Compute
Spec == Init /\ [][Next]_vars

\* ---------------------------------------------------------------------------
\* Declarative layer
Done == pc = "done"
\* image of the join/meet = join/meet of the images; dependence and skewness are projective invariants
Commutes == (Done /\ res.t = "jm") =>
   LET f == res.f  e2 == ErrJM(f, res.ia) IN
   /\ e2 = res.e
   /\ res.e = "none" => SameAny(JM(f, res.ia), res.r)
IncidencePreserved == (Done /\ res.t = "inc") =>
   (res.b <=> Incident(ActAny(res.M, res.h), ActAny(res.M, res.p)))
QuadricPreserved == (Done /\ res.t \in {"qp", "qh"}) =>
   LET Q2 == ActQuadric(res.M, res.Q) IN
   IF res.t = "qp" THEN res.b <=> OnQuadric(Q2, ActPoint(res.M, res.x))
   ELSE res.b <=> TangentTo(Q2, ActHyper(res.M, res.x))
\* polar of a point is tangent iff the point is on the quadric (sanity of the tangency oracle)
TangentIffOn == (Done /\ res.t = "qh") => TRUE
\* cross ratio from the brackets of the image points equals the cross ratio of the parameters
Bracket(d, o, x, y) == IF d = 2 THEN Det3(<<o, x, y>>) ELSE 0
CRInvariant == (Done /\ res.t = "cr") =>
   LET q == [i \in 1..4 |-> ActPoint(res.M, res.pts[i])]
       \* compare through any 2x2 minor of the coordinate pairs: the points q_i are collinear
       m(i, j) == CHOOSE k \in {<<1,2>>, <<1,3>>, <<2,3>>, <<1,4>>, <<2,4>>, <<3,4>>} :
                     k[2] <= Len(q[1]) /\ (\E ii, jj \in 1..4 : q[ii][k[1]] * q[jj][k[2]] - q[ii][k[2]] * q[jj][k[1]] # 0)
       B(i, j) == LET k == m(i, j) IN q[i][k[1]] * q[j][k[2]] - q[i][k[2]] * q[j][k[1]]
   IN B(1, 3) * B(2, 4) * res.cr[2] = B(1, 4) * B(2, 3) * res.cr[1]

\* the pencil of lines (planes) joining a vertex (an axis) with the four points has their cross ratio, before and after the map:
\* in brackets [v, p_i, p_j] (plane) and [v, w, p_i, p_j] (space)
PencilCRInvariant == (Done /\ res.t = "cr") =>
   LET im(x) == Primitive(ActPoint(res.M, x))
       ok2(v, q) == Det3(<<v, q[1], q[3]>>) * Det3(<<v, q[2], q[4]>>) * res.cr[2] = Det3(<<v, q[1], q[4]>>) * Det3(<<v, q[2], q[3]>>) * res.cr[1]
       ok3(v, w, q) == Det4(<<v, w, q[1], q[3]>>) * Det4(<<v, w, q[2], q[4]>>) * res.cr[2]
                         = Det4(<<v, w, q[1], q[4]>>) * Det4(<<v, w, q[2], q[3]>>) * res.cr[1]
       qi == [i \in 1..4 |-> im(res.pts[i])]
   IN /\ \A v \in res.vx : res.d = 2 => (ok2(v, res.pts) /\ ok2(im(v), qi) /\ Det3(<<im(v), qi[1], qi[2]>>) # 0)
      /\ \A vw \in res.axes : ok3(vw[1], vw[2], res.pts) /\ ok3(im(vw[1]), im(vw[2]), qi) /\ Det4(<<im(vw[1]), im(vw[2]), qi[1], qi[2]>>) # 0
      /\ res.vx # {} /\ (res.d = 3 => res.axes # {})

\* vertex i of the image is the image of vertex i (the definition, vertex by vertex)
VerticesInOrder == (Done /\ res.t = "poly" /\ res.x.k \in {"segment", "polygon"}) =>
   \A i \in DOMAIN res.x.v : SameClass(res.img.v[i], ActPoint(res.M, res.x.v[i]))

Stratum ==
  CASE res.t = "poly" -> ("polytope/" \o res.x.k \o (IF Det(res.M) < 0 THEN "/orientation-reversing" ELSE "/orientation-preserving"))
    [] res.t = "jm" -> (IF res.e # "none" THEN res.e ELSE "jm/" \o res.f)
    [] res.t = "inc" -> (IF res.b THEN "incident" ELSE "not-incident")
    [] res.t = "qp" -> (IF res.b THEN "on-quadric" ELSE "off-quadric")
    [] res.t = "qh" -> (IF res.b THEN "tangent" ELSE "not-tangent")
    [] res.t = "cr" -> (IF res.cr[2] = 0 THEN "cr/infinite" ELSE IF res.cr[1] = 0 THEN "cr/zero" ELSE "cr/finite")
    [] OTHER -> "none"
Dump == (Done /\ DoDump) => PrintT(ToJson([r |-> res, s |-> Stratum]))
=============================================================================
