--------------------------- MODULE C11_CrossRatio ---------------------------
(***************************************************************************)
(* C11: cross ratio - closed form, symmetries, pencils, harmonic sets,     *)
(* error cases.  Points are a + x b with parameters x in P^1(Q) given as   *)
(* pairs <<n, d>> (<<1, 0>> = the point b itself, "infinity" of the        *)
(* parametrisation; <<0, 1>> = a).  The cross ratio of four parameters is  *)
(*        cr = [x1,x3][x2,x4] / ([x1,x4][x2,x3])      (brackets on P^1)    *)
(* Concurrent lines / coaxial planes through four such points have the     *)
(* same cross ratio, whatever the pencil vertex / axis (also vertices on a *)
(* coordinate axis, at the origin, at infinity).                           *)
(***************************************************************************)
EXTENDS Transform, Json, SequencesExt

CONSTANTS Tasks, Stride, Seed, DoDump
VARIABLES pc, task, first, res
vars == <<pc, task, first, res>>

VHash(v) == 100003 + DotFrom(v, [i \in 1..Len(v) |-> 7 * i * i + 3 * i + 1], 1)
Keep(v, s) == VHash(v) % s = Seed % s

Params == {<<-2, 1>>, <<-1, 1>>, <<0, 1>>, <<1, 1>>, <<2, 1>>, <<3, 1>>, <<1, 2>>, <<1, 0>>}
Br(x, y) == x[1] * y[2] - y[1] * x[2]
CR(x1, x2, x3, x4) == LET n == Br(x1, x3) * Br(x2, x4) d == Br(x1, x4) * Br(x2, x3) IN
   IF n = 0 /\ d = 0 THEN <<0, 0>> ELSE IF d = 0 THEN <<1, 0>> ELSE RNorm(n, d)
PtAt(a, b, x) == VAdd(VScale(x[2], a), VScale(x[1], b))
\* harmonic conjugate of x3 with respect to x1, x2
Harm(x1, x2, x3) == LET p == VSub(VScale(Br(x3, x2), x1), VScale(Br(x1, x3), x2)) IN Primitive(p)

\* at least three distinct parameters and c # d; a = b is allowed (the cross ratio is then 1)
Quads == {q \in [1..4 -> Params] : Cardinality({q[1], q[2], q[3], q[4]}) >= 3 /\ q[3] # q[4]}
\* carrier lines: <<a, b>> with a finite
Carriers2 == {<< <<0,0,1>>, <<1,0,0>> >>, << <<1,2,1>>, <<1,1,0>> >>, << <<0,1,1>>, <<2,-1,1>> >>, << <<-1,1,1>>, <<0,1,0>> >>,
              << <<2,0,1>>, <<-1,3,1>> >>, << <<1,1,2>>, <<3,-1,2>> >>}
\* every line of the lattice with coefficients in -1..1 (the coordinate axes, the diagonals, ...) as <<finite lattice point, direction>>
CarrierOf(l) == LET a == CHOOSE p \in {<<x, y, 1>> : x \in -2..2, y \in -2..2} : Dot(l, p) = 0 IN <<a, <<l[2], -l[1], 0>> >>
\* carriers whose points have dyadic (quarter, eighth) Cartesian coordinates close to the origin
Dyadic2 == {<< <<0,1,4>>, <<1,0,0>> >>, << <<1,1,8>>, <<-3,5,8>> >>, << <<0,2,8>>, <<3,0,8>> >>, << <<3,-1,4>>, <<1,2,0>> >>}
AllCarriers2 == Carriers2 \cup Dyadic2 \cup {CarrierOf(l) : l \in {h \in Classes(3, 1) : ~(h[1] = 0 /\ h[2] = 0)}}
Carriers3 == {<< <<0,0,0,1>>, <<1,0,0,0>> >>, << <<1,2,0,1>>, <<1,1,1,0>> >>, << <<0,1,1,1>>, <<2,-1,0,1>> >>, << <<1,0,2,1>>, <<0,1,-1,1>> >>}
Carriers1 == {<< <<0,1>>, <<1,0>> >>, << <<1,1>>, <<1,-1>> >>, << <<2,1>>, <<1,3>> >>}
Vertices3 == {<<0,0,0,1>>, <<1,2,3,1>>, <<0,0,2,1>>, <<3,0,0,1>>, <<-1,1,1,2>>, <<0,1,0,0>>, <<1,1,1,0>>}
Vertices2 == {<<0,0,1>>, <<0,3,1>>, <<2,0,1>>, <<-1,-2,1>>, <<3,1,1>>, <<1,-1,0>>, <<0,1,0>>, <<5,2,2>>}

Init == pc = "start" /\ task \in Tasks /\ first = <<>> /\ res = [t |-> "none"]
Choose ==
  /\ pc = "start" /\ pc' = "chosen" /\ UNCHANGED <<task, res>>
  /\ \/ task \in {"pts1", "pts2", "pts3", "harm"} /\ \E x \in Params : first' = x
     \/ task = "lines" /\ \E v \in Vertices2 : first' = v
     \/ task = "lines3" /\ \E v \in Vertices3 : first' = v
     \/ task = "planes" /\ \E c \in Carriers3 : first' = c
     \/ task = "frompt" /\ \E v \in Vertices2 : first' = v
     \/ task = "err" /\ \E d \in {2, 3} : first' = <<d>>

Compute ==
  /\ pc = "chosen" /\ pc' = "done" /\ UNCHANGED <<task, first>>
  /\ \/ /\ task \in {"pts1", "pts2", "pts3"}
        /\ \E q \in Quads, c \in (IF task = "pts1" THEN Carriers1 ELSE IF task = "pts2" THEN AllCarriers2 ELSE Carriers3) :
             /\ q[1] = first /\ Keep(q[2] \o q[3] \o q[4] \o c[1], IF task = "pts1" THEN 1 ELSE Stride)
             /\ res' = [t |-> "pts", d |-> Len(c[1]) - 1, q |-> q, pts |-> [i \in 1..4 |-> PtAt(c[1], c[2], q[i])],
                        cr |-> CR(q[1], q[2], q[3], q[4])]
     \/ /\ task = "lines"        \* four lines through the vertex and four points of a carrier not through it
        /\ \E q \in Quads, c \in Carriers2 :
             /\ Keep(q[1] \o q[2] \o q[3] \o q[4] \o c[1], 2 * Stride)
             /\ Det3(<<first, c[1], c[2]>>) # 0
             /\ res' = [t |-> "lines", v |-> first, q |-> q, ls |-> [i \in 1..4 |-> Cross(first, PtAt(c[1], c[2], q[i]))],
                        cr |-> CR(q[1], q[2], q[3], q[4])]
     \/ /\ task = "lines3"       \* four concurrent (hence coplanar) lines of space through the vertex and four points of a carrier
        /\ \E q \in Quads, c \in Carriers3 :
             /\ Keep(q[1] \o q[2] \o q[3] \o q[4] \o c[1], 2 * Stride)
             /\ (\E C \in kSubset(3, 1..4) : LET cs == SetToSortSeq(C, <) IN
                    Det3([i \in 1..3 |-> [j \in 1..3 |-> <<first, c[1], c[2]>>[i][cs[j]]]]) # 0)     \* the vertex is not on the carrier
             /\ res' = [t |-> "lines3", v |-> first, q |-> q, pts |-> [i \in 1..4 |-> PtAt(c[1], c[2], q[i])],
                        cr |-> CR(q[1], q[2], q[3], q[4])]
     \/ /\ task = "planes"       \* four planes through an axis (two lattice points) and four points of the carrier
        /\ \E q \in Quads, A \in {<<0,0,0,1>>, <<0,0,1,1>>, <<1,1,0,1>>, <<1,0,0,0>>}, B \in {<<0,0,1,0>>, <<0,1,0,1>>, <<2,1,1,1>>} :
             /\ Keep(q[1] \o q[2] \o q[3] \o q[4], 3 * Stride)
             /\ Det4(<<A, B, first[1], first[2]>>) # 0
             /\ res' = [t |-> "planes", A |-> A, B |-> B, q |-> q,
                        es |-> [i \in 1..4 |-> Join3PPP(A, B, PtAt(first[1], first[2], q[i]))],
                        cr |-> CR(q[1], q[2], q[3], q[4])]
     \/ /\ task = "frompt"
        /\ \E q \in Quads, c \in Carriers2 :
             /\ Keep(q[1] \o q[2] \o q[3] \o q[4] \o c[1], 2 * Stride)
             /\ Det3(<<first, c[1], c[2]>>) # 0 /\ first[3] # 0
             /\ res' = [t |-> "frompt", v |-> first, q |-> q, pts |-> [i \in 1..4 |-> PtAt(c[1], c[2], q[i])],
                        cr |-> CR(q[1], q[2], q[3], q[4])]
     \/ /\ task = "harm"
        /\ \E x2 \in Params, x3 \in Params, d \in {1, 2, 3} :
             /\ Cardinality({first, x2, x3}) = 3
             /\ \E c \in (IF d = 1 THEN Carriers1 ELSE IF d = 2 THEN AllCarriers2 ELSE Carriers3) :
                  LET x4 == Harm(first, x2, x3) IN
                  res' = [t |-> "harm", d |-> d, q |-> <<first, x2, x3>>, pts |-> [i \in 1..3 |-> PtAt(c[1], c[2], <<first, x2, x3>>[i])],
                          h |-> Primitive(PtAt(c[1], c[2], x4)), x4 |-> x4]
     \/ /\ task = "err"
        /\ LET n == first[1] + 1
               Extra == IF n = 3 THEN {<<1, 0, 1>>, <<0, 1, 1>>, <<1, 1, 0>>} ELSE {<<1, 0, 0, 1>>, <<0, 1, 1, 1>>, <<1, 1, 0, 0>>}
           IN \E a \in {x \in Classes(n, 1) : Keep(x, Stride)}, b \in Classes(n, 1) :
                /\ a # b
                /\ \E c \in {VAdd(a, b), VSub(a, b), VAdd(a, VScale(2, b))} \cup Extra,
                      d \in {VAdd(VScale(2, a), b), VSub(a, VScale(3, b))} \cup Extra :
                     /\ Cardinality({Primitive(a), Primitive(b), Primitive(c), Primitive(d)}) = 4
                     /\ ~IsZeroV(c) /\ ~IsZeroV(d)
                     /\ LET M == <<a, b, c, d>>
                            \* collinear iff the 4 x n matrix has rank 2: every 3 x 3 minor vanishes
                            coll == \A R \in kSubset(3, 1..4), C \in kSubset(3, 1..n) :
                                       LET rs == SetToSortSeq(R, <) cs == SetToSortSeq(C, <) IN
                                       Det3([i \in 1..3 |-> [j \in 1..3 |-> M[rs[i]][cs[j]]]]) = 0
                        IN res' = [t |-> "err", d |-> first[1], pts |-> M, coll |-> coll]

Next == Choose \/ Compute
Spec == Init /\ [][Next]_vars

\* ---------------------------------------------------------------------------
Done == pc = "done"
HasQ == Done /\ res.t \in {"pts", "lines", "planes", "frompt"}
RInv(r) == IF r = <<0, 0>> THEN r ELSE IF r[1] = 0 THEN <<1, 0>> ELSE IF r[2] = 0 THEN <<0, 1>> ELSE RNorm(r[2], r[1])
ROneMinus(r) == IF r = <<0, 0>> \/ r[2] = 0 THEN r ELSE RNorm(r[2] - r[1], r[2])
\* the five symmetries of the property
Symmetries == HasQ =>
   LET q == res.q c == res.cr IN
   /\ CR(q[2], q[1], q[4], q[3]) = c
   /\ CR(q[3], q[4], q[1], q[2]) = c
   /\ (c # <<0, 0>>) => CR(q[1], q[2], q[4], q[3]) = RInv(c)
   /\ (c # <<0, 0>> /\ c[2] # 0 /\ Cardinality({q[1], q[2], q[3], q[4]}) = 4) => CR(q[1], q[3], q[2], q[4]) = ROneMinus(c)
\* value from the actual coordinates: brackets of the points w.r.t. two coordinates in which the carrier is non-degenerate
CoordCR(P) ==
  LET n == Len(P[1])
      ks == {k \in (1..n) \X (1..n) : k[1] < k[2] /\ \E i, j \in 1..4 : P[i][k[1]] * P[j][k[2]] - P[i][k[2]] * P[j][k[1]] # 0}
      k == CHOOSE kk \in ks : TRUE
      B(i, j) == P[i][k[1]] * P[j][k[2]] - P[i][k[2]] * P[j][k[1]]
      nn == B(1, 3) * B(2, 4) dd == B(1, 4) * B(2, 3)
  IN IF nn = 0 /\ dd = 0 THEN <<0, 0>> ELSE IF dd = 0 THEN <<1, 0>> ELSE RNorm(nn, dd)
ClosedForm == (Done /\ res.t = "pts") => CoordCR(res.pts) = res.cr
\* the pencil of lines / planes has the cross ratio of the points (through the dual coordinates)
PencilCR == (Done /\ res.t \in {"lines", "planes"}) => CoordCR(IF res.t = "lines" THEN res.ls ELSE res.es) = res.cr
\* projective invariance on the point families
Invariant == (Done /\ res.t = "pts" /\ res.d \in {2, 3}) =>
   \A i \in {2, 5, 6} : CoordCR([j \in 1..4 |-> MatVec(PoolOf(res.d)[i], res.pts[j])]) = res.cr
HarmonicIsMinusOne == (Done /\ res.t = "harm") => CR(res.q[1], res.q[2], res.q[3], res.x4) = <<-1, 1>>

Stratum ==
  CASE res.t = "err" -> (IF res.coll THEN "collinear" ELSE "not-collinear")
    [] res.t = "harm" -> (IF \E i \in 1..3 : res.q[i] = <<1, 0>> THEN "param-infinity" ELSE IF \E i \in 1..3 : res.q[i] = <<0, 1>> THEN "param-origin" ELSE "general")
    [] res.t = "lines3" -> (IF res.v[4] = 0 THEN "vertex-at-infinity" ELSE IF res.v[1] = 0 /\ res.v[2] = 0 /\ res.v[3] = 0 THEN "vertex-origin"
                            ELSE IF Cardinality({res.q[i] : i \in 1..4}) < 4 THEN "repeated-line" ELSE "general")
    [] res.t = "lines" -> (IF res.v[3] = 0 THEN "vertex-at-infinity" ELSE IF res.v[1] = 0 /\ res.v[2] = 0 THEN "vertex-origin"
                           ELSE IF res.v[1] = 0 THEN "vertex-on-y-axis" ELSE IF res.v[2] = 0 THEN "vertex-on-x-axis" ELSE "general")
    [] OTHER -> (IF Cardinality({res.q[i] : i \in 1..4}) < 4 THEN "repeated-point"
                 ELSE IF \E i \in 1..4 : res.q[i] = <<1, 0>> THEN "param-infinity"
                 ELSE IF \E i \in 1..4 : res.q[i] = <<0, 1>> THEN "param-origin" ELSE "general")
Dump == (Done /\ DoDump) => PrintT(ToJson([r |-> res, s |-> Stratum]))
=============================================================================
