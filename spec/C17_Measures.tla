---------------------------- MODULE C17_Measures ----------------------------
(***************************************************************************)
(* C17: polytope measures equal their closed forms; polytope equality      *)
(* ignores where the vertex cycle starts and its direction.                *)
(* Exact oracles: shoelace area, area centroid, vector area for polygons   *)
(* of 3-space, determinant volume, circumcentre, midpoint; squared         *)
(* quantities where a square root is involved.  Declarative checks:        *)
(* invariance under rotation/reversal of the vertex list and under         *)
(* lattice translations; the centroid of a triangle fan decomposition;     *)
(* the circumcentre is equidistant; equality is an equivalence.            *)
(***************************************************************************)
EXTENDS Poly, Json, SequencesExt

CONSTANTS Tasks, G, Stride, Seed, DoDump
VARIABLES pc, task, first, res
vars == <<pc, task, first, res>>

VHash(v) == 100003 + DotFrom(v, [i \in 1..Len(v) |-> 7 * i * i + 3 * i + 1], 1)
Keep(v, s) == VHash(v) % s = Seed % s
Grid == {<<x, y>> : x \in 0..G, y \in 0..G}
Offsets == {<<0, 0>>, <<3, -2>>, <<-5, 1>>}
Shift(poly, o) == [i \in DOMAIN poly |-> VAdd(poly[i], o)]
Pentagons == { << <<0,0>>, <<3,0>>, <<3,3>>, <<1,1>>, <<0,3>> >>, << <<0,0>>, <<2,0>>, <<3,1>>, <<2,3>>, <<0,2>> >>,
               << <<0,0>>, <<4,0>>, <<4,1>>, <<1,1>>, <<1,3>>, <<0,3>> >> }

\* centroid of a simple polygon as a homogeneous point <<X, Y, W>> : C = (X/W, Y/W)
RECURSIVE CxFrom(_, _, _)
CxFrom(poly, i, k) == IF i > Len(poly) THEN 0
   ELSE LET a == poly[i] b == poly[NextIdx(poly, i)] IN (a[k] + b[k]) * (a[1] * b[2] - b[1] * a[2]) + CxFrom(poly, i + 1, k)
Centroid(poly) == <<CxFrom(poly, 1, 1), CxFrom(poly, 1, 2), 3 * Area2(poly)>>

\* embeddings into 3-space (as in C16) and the vector area  N = sum v_i x v_{i+1} ;  area^2 = N.N / 4
Embeds == << << <<1,0>>, <<0,1>>, <<0,0>>, <<0,0,1>> >>, << <<1,0>>, <<0,1>>, <<1,1>>, <<0,0,0>> >>,
             << <<1,0>>, <<0,0>>, <<0,1>>, <<0,2,0>> >>, << <<1,0>>, <<1,1>>, <<0,1>>, <<1,0,-1>> >>,
             << <<0,1>>, <<2,0>>, <<1,-1>>, <<5,0,0>> >> >>
Emb(e, v) == <<Dot(e[1], v) + e[4][1], Dot(e[2], v) + e[4][2], Dot(e[3], v) + e[4][3]>>
RECURSIVE VecAreaFrom(_, _)
VecAreaFrom(poly, i) == IF i > Len(poly) THEN <<0, 0, 0>> ELSE VAdd(Cross(poly[i], poly[NextIdx(poly, i)]), VecAreaFrom(poly, i + 1))
Area3Sq(poly) == RNorm(Norm2(VecAreaFrom(poly, 1)), 4)

\* circumcentre of a triangle of the plane, homogeneous
Circum(P) == LET a == P[1] b == P[2] c == P[3]
                 na == Norm2(a) nb == Norm2(b) nc == Norm2(c)
             IN << na * (b[2] - c[2]) + nb * (c[2] - a[2]) + nc * (a[2] - b[2]),
                   na * (c[1] - b[1]) + nb * (a[1] - c[1]) + nc * (b[1] - a[1]),
                   2 * (a[1] * (b[2] - c[2]) + b[1] * (c[2] - a[2]) + c[1] * (a[2] - b[2])) >>

Tetras == { << <<0,0,0>>, <<1,0,0>>, <<0,1,0>>, <<0,0,1>> >>, << <<1,2,3>>, <<3,2,1>>, <<0,1,4>>, <<2,0,0>> >>,
            << <<-1,0,2>>, <<2,2,2>>, <<0,3,1>>, <<1,1,-2>> >> }
\* orthogonal integer edge frames (each vector of length 3, resp. axis parallel) for cuboids at lattice positions
Frames == { << <<2,0,0>>, <<0,1,0>>, <<0,0,3>> >>, << <<1,2,2>>, <<2,1,-2>>, <<2,-2,1>> >>, << <<0,3,0>>, <<0,0,1>>, <<2,0,0>> >> }

\* axis vectors for regular polygons of 3-space: along a coordinate axis, in a coordinate plane, generic; unit and other lengths
RegularAxes == {<<0,0,1>>, <<0,0,5>>, <<0,-2,0>>, <<1,1,0>>, <<0,3,4>>, <<1,1,1>>, <<1,2,3>>, <<-2,1,2>>, <<2,-1,-2>>, <<3,-4,12>>}
Init == pc = "start" /\ task \in Tasks /\ first = <<>> /\ res = [t |-> "none"]
Choose ==
  /\ pc = "start" /\ pc' = "chosen" /\ UNCHANGED <<task, res>>
  /\ \/ task \in {"tri", "quad", "eq"} /\ \E a \in Grid : first' = a
     \/ task = "penta" /\ \E P \in Pentagons : first' = P
     \/ task = "tetra" /\ \E T \in Tetras : first' = T
     \/ task = "cuboid" /\ \E F \in Frames : first' = F
     \/ task = "regular" /\ \E n \in {3, 4, 5, 6, 8} : first' = <<n>>

PolyRec(poly, o, e) ==
  LET P == Shift(poly, o) IN
  [t |-> "poly", poly |-> P, e |-> e,
   area2 |-> Abs(Area2(P)),                                  \* twice the area
   centroid |-> Primitive(Centroid(P)),
   v3 |-> IF e = 0 THEN <<>> ELSE [i \in DOMAIN P |-> Emb(Embeds[e], P[i])],
   area3sq |-> IF e = 0 THEN <<0, 1>> ELSE Area3Sq([i \in DOMAIN P |-> Emb(Embeds[e], P[i])]),
   circum |-> IF Len(P) = 3 THEN Primitive(Circum(P)) ELSE <<>>]

Compute ==
  /\ pc = "chosen" /\ pc' = "done" /\ UNCHANGED <<task, first>>
  /\ \/ /\ task = "tri"
        /\ \E b \in Grid, c \in Grid, o \in Offsets, e \in 0..Len(Embeds) :
             /\ Area2(<<first, b, c>>) # 0 /\ Keep(first \o b \o c \o o, Stride)
             /\ res' = PolyRec(<<first, b, c>>, o, e)
     \/ /\ task = "quad"
        /\ \E b \in Grid, c \in Grid, d \in Grid, o \in Offsets, e \in 0..Len(Embeds) :
             /\ IsSimple(<<first, b, c, d>>) /\ Area2(<<first, b, c>>) # 0 /\ Keep(b \o c \o d, 4 * Stride) /\ Keep(first \o o \o <<e>>, 2)
             /\ res' = PolyRec(<<first, b, c, d>>, o, e)
     \/ /\ task = "penta"
        /\ \E k \in 0..(Len(first) - 1), rev \in BOOLEAN, o \in Offsets, e \in 0..Len(Embeds) :
             LET P == IF rev THEN Rotate(RevSeq(first), k) ELSE Rotate(first, k) IN
             /\ Area2(<<P[1], P[2], P[3]>>) # 0
             /\ res' = PolyRec(P, o, e)
     \/ /\ task = "eq"           \* all orderings of the vertex set of a simple quadrilateral against the original
        /\ \E b \in Grid, c \in Grid, d \in Grid, p \in PermsOf(4) :
             LET P == <<first, b, c, d>> Q == [i \in 1..4 |-> P[p[i]]] IN
             /\ IsSimple(P) /\ Keep(first \o b \o c, 3 * Stride) /\ Keep(d, 2)
             /\ res' = [t |-> "eq", p |-> P, q |-> Q, eq |-> SameCycle(P, Q)]
     \/ /\ task = "tetra"
        /\ \E p \in PermsOf(4), o \in {<<0,0,0>>, <<2,-3,1>>} :
             LET T == [i \in 1..4 |-> VAdd(first[p[i]], o)] IN
             res' = [t |-> "tetra", v |-> T,
                     vol6 |-> Abs(Det3(<<VSub(T[2], T[1]), VSub(T[3], T[1]), VSub(T[4], T[1])>>))]      \* six times the volume
     \/ /\ task = "cuboid"
        /\ \E a \in {<<0,0,0>>, <<1,-2,3>>}, p \in PermsOf(3) :
             LET x == first[p[1]] y == first[p[2]] z == first[p[3]] IN
             res' = [t |-> "cuboid", a |-> a, b |-> VAdd(a, x), c |-> VAdd(a, y), d |-> VAdd(a, z),
                     \* surface area 2(|x||y| + |y||z| + |x||z|) with integer edge lengths
                     area |-> 2 * (ISqrt(Norm2(x)) * ISqrt(Norm2(y)) + ISqrt(Norm2(y)) * ISqrt(Norm2(z)) + ISqrt(Norm2(x)) * ISqrt(Norm2(z))),
                     perm |-> p]
     \/ /\ task = "regular"
        /\ \E c \in {<<0, 0>>, <<2, 1>>, <<-3, 4>>}, r \in {1, 2, 5} :
             LET n == first[1] IN
             \* in 3-space the polygon lies in the plane through the centre perpendicular to a given axis vector (any length,
             \* any direction); ax = <<>>: the polygon of the plane
             \E ax \in {<<>>} \cup RegularAxes :
             res' = [t |-> "regular", n |-> n, c |-> (IF ax = <<>> THEN c ELSE c \o <<c[1] - c[2]>>), r |-> r, ax |-> ax,
                     \* inradius^2 = r^2 cos^2(pi/n), rational for n = 3, 4, 6
                     inr2 |-> IF n = 3 THEN RNorm(r * r, 4) ELSE IF n = 4 THEN RNorm(r * r, 2) ELSE IF n = 6 THEN RNorm(3 * r * r, 4) ELSE <<0, 0>>]

Next == Choose \/ Compute
Spec == Init /\ [][Next]_vars

\* ---------------------------------------------------------------------------
Done == pc = "done"
IsPoly == Done /\ res.t = "poly"
\* measures do not depend on the start or direction of the vertex cycle, nor on a lattice translation (up to the shift)
CycleInvariantMeasures == IsPoly =>
   \A k \in 0..(Len(res.poly) - 1) : \A rev \in BOOLEAN :
      LET P == IF rev THEN Rotate(RevSeq(res.poly), k) ELSE Rotate(res.poly, k) IN
      /\ Abs(Area2(P)) = res.area2 /\ Primitive(Centroid(P)) = res.centroid
TranslationCovariant == IsPoly =>
   LET o == <<2, 5>> P == Shift(res.poly, o) c == res.centroid c2 == Primitive(Centroid(P)) IN
   /\ Abs(Area2(P)) = res.area2
   /\ SameClass(c2, <<c[1] + o[1] * c[3], c[2] + o[2] * c[3], c[3]>>)
\* the area is the sum of the signed triangle areas of the fan from the first vertex; the embedded area agrees with the
\* planar one scaled by the embedding's area factor |A1 x A2|
FanArea == IsPoly =>
   LET P == res.poly n == Len(P)
       fan == [i \in 2..(n - 1) |-> Area2(<<P[1], P[i], P[i + 1]>>)]
       RECURSIVE S(_)
       S(i) == IF i > n - 1 THEN 0 ELSE fan[i] + S(i + 1)
   IN Abs(S(2)) = res.area2
EmbeddedArea == (IsPoly /\ res.e # 0) =>
   LET E == Embeds[res.e] f == Cross(<<E[1][1], E[2][1], E[3][1]>>, <<E[1][2], E[2][2], E[3][2]>>)
   IN res.area3sq = RNorm(res.area2 * res.area2 * Norm2(f), 4)
\* the circumcentre is equidistant from the three vertices
CircumEquidistant == (IsPoly /\ Len(res.poly) = 3) =>
   LET c == res.circum P == res.poly IN
   /\ Dist2PP(c, P[1] \o <<1>>) = Dist2PP(c, P[2] \o <<1>>) /\ Dist2PP(c, P[2] \o <<1>>) = Dist2PP(c, P[3] \o <<1>>)
\* polytope equality is symmetric and true exactly for the 8 rotations/reflections of a quadrilateral's vertex list
EqLaws == (Done /\ res.t = "eq") => (res.eq = SameCycle(res.q, res.p))

AxisKind(a) == LET nz == Cardinality({i \in 1..3 : a[i] # 0}) IN
               IF nz = 1 THEN "axis-parallel" ELSE IF nz = 2 THEN "axis-in-coordinate-plane" ELSE "axis-generic"
Stratum ==
  CASE res.t = "regular" -> (IF res.ax = <<>> THEN "regular" ELSE "regular3/" \o AxisKind(res.ax))
    [] res.t = "poly" -> (IF res.e = 0 THEN "planar" ELSE "embedded") \o (IF res.poly[1] = <<0, 0>> THEN "/at-origin" ELSE "/elsewhere")
    [] res.t = "eq" -> (IF res.eq THEN "same-cycle" ELSE "different-cycle")
    [] OTHER -> res.t
Dump == (Done /\ DoDump) => PrintT(ToJson([r |-> res, s |-> Stratum]))
=============================================================================
