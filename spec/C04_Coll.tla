------------------------------- MODULE C04_Coll -------------------------------
(***************************************************************************)
(* C04: collections compute element by element what single objects         *)
(* compute.  A collection is a function from an index box Shape to single  *)
(* objects; the arguments of an operation broadcast against each other     *)
(* (shapes aligned from the right, axes of length 1 stretched, a single    *)
(* object = shape <<>>), and                                               *)
(*     CollOp(A, B)[i] = Op(A[Proj(i, sa)], B[Proj(i, sb)])                *)
(* for every position i of the broadcast box.  The property is relational  *)
(* (the single objects ARE the oracle, they are decided by the other       *)
(* properties); what this module contributes is the index semantics: TLC   *)
(* enumerates operation x shape tuple x contents and emits, for every      *)
(* result position, which element of every argument it must be computed    *)
(* from.  The replay stacks real single objects accordingly and compares   *)
(* every position; indexing / iteration contracts are checked per class.   *)
(***************************************************************************)
EXTENDS Integers, Sequences, FiniteSets, TLC, Json, SequencesExt, FiniteSetsExt

CONSTANTS Arities,     \* function: operation name -> number of collection arguments (given by the cfg as two sequences)
          OpNames, NSeeds, PoolSize, DoDump
VARIABLES pc, op, shapes, res
vars == <<pc, op, shapes, res>>

ShapeTable == {<<>>, <<1>>, <<2>>, <<3>>, <<2, 3>>, <<1, 3>>, <<2, 1>>}
Prod(s) == IF s = <<>> THEN 1 ELSE FoldLeft(LAMBDA a, b : a * b, 1, s)
Pad(s, n) == [k \in 1..n |-> IF k <= n - Len(s) THEN 1 ELSE s[k - (n - Len(s))]]        \* right alignment
Compatible2(a, b) == LET n == Max({Len(a), Len(b)}) pa == Pad(a, n) pb == Pad(b, n) IN
                     \A k \in 1..n : pa[k] = pb[k] \/ pa[k] = 1 \/ pb[k] = 1
Broadcast2(a, b) == LET n == Max({Len(a), Len(b)}) pa == Pad(a, n) pb == Pad(b, n) IN
                    [k \in 1..n |-> IF pa[k] = 1 THEN pb[k] ELSE pa[k]]
RECURSIVE BroadcastAll(_, _)
BroadcastAll(ss, k) == IF k > Len(ss) THEN <<>> ELSE IF k = Len(ss) THEN ss[k] ELSE Broadcast2(ss[k], BroadcastAll(ss, k + 1))
CompatibleAll(ss) == \A i, j \in DOMAIN ss : Compatible2(ss[i], ss[j])
\* all index tuples of a box in row-major order
Box(s) == SetToSortSeq({x \in [1..Len(s) -> 1..3] : \A k \in 1..Len(s) : x[k] <= s[k]},
                       LAMBDA x, y : \E j \in 1..Len(s) : (\A m \in 1..(j - 1) : x[m] = y[m]) /\ x[j] < y[j])
\* position of a result index inside an operand of shape s (row-major flat position, 1-based)
Proj(i, s) == LET n == Len(i) ps == Pad(s, n)
                  loc == [k \in 1..n |-> IF ps[k] = 1 THEN 1 ELSE i[k]]
                  RECURSIVE Flat(_, _)
                  Flat(k, acc) == IF k > n THEN acc ELSE Flat(k + 1, acc * ps[k] + (loc[k] - 1))
              IN Flat(1, 0) + 1

Init == pc = "start" /\ op \in OpNames /\ shapes = <<>> /\ res = [t |-> "none"]
Choose ==
  /\ pc = "start" /\ pc' = "shapes" /\ UNCHANGED <<op, res>>
  /\ \E s \in ShapeTable \ {<<>>}, single \in SUBSET (1..Arities[op]) :
       \* the property's quantifier: every collection shape x every mix of single and collection arguments; all collection
       \* arguments share the shape s, the arguments in `single` are single objects that broadcast against them
       /\ single # 1..Arities[op]
       /\ shapes' = [k \in 1..Arities[op] |-> IF k \in single THEN <<>> ELSE s]
Compute ==
  /\ pc = "shapes" /\ pc' = "done" /\ UNCHANGED <<op, shapes>>
  /\ \E seed \in 1..NSeeds :
       LET out == BroadcastAll(shapes, 1)
           box == IF out = <<>> THEN << <<>> >> ELSE Box(out)
       IN res' = [t |-> "coll", op |-> op, shapes |-> shapes, seed |-> seed, out |-> out,
                  \* contents: pool index of every element of every argument (row-major)
                  contents |-> [a \in DOMAIN shapes |-> [k \in 1..Prod(shapes[a]) |-> ((seed * 7 + a * 13 + k * 5) % PoolSize) + 1]],
                  \* for every result position: the flat position in every argument
                  map |-> [p \in DOMAIN box |-> [a \in DOMAIN shapes |-> Proj(box[p], shapes[a])]]]
Next == Choose \/ Compute
Spec == Init /\ [][Next]_vars

\* ---------------------------------------------------------------------------
Done == pc = "done"
\* broadcasting laws: commutative, associative, single objects are neutral, the result box has one entry per position
BroadcastLaws == \A a, b \in ShapeTable : Compatible2(a, b) =>
   /\ Broadcast2(a, b) = Broadcast2(b, a)
   /\ Broadcast2(a, <<>>) = a
   /\ \A c \in ShapeTable : (Compatible2(b, c) /\ Compatible2(a, c)) =>
        Broadcast2(Broadcast2(a, b), c) = Broadcast2(a, Broadcast2(b, c))
ASSUME BroadcastLaws
MapInRange == Done => \A p \in DOMAIN res.map : \A a \in DOMAIN res.shapes : res.map[p][a] \in 1..Prod(res.shapes[a])
\* every element of every argument is used by some position; an argument with the full shape is used exactly once per position
MapCovers == Done => \A a \in DOMAIN res.shapes : {res.map[p][a] : p \in DOMAIN res.map} = 1..Prod(res.shapes[a])
MapBijectiveOnFull == Done => \A a \in DOMAIN res.shapes : (res.shapes[a] = res.out) =>
    \A p, q \in DOMAIN res.map : p # q => res.map[p][a] # res.map[q][a]

Stratum == IF \E a \in DOMAIN res.shapes : res.shapes[a] = <<>> THEN "single-with-collection"
           ELSE IF \E a \in DOMAIN res.shapes : \E k \in DOMAIN res.shapes[a] : res.shapes[a][k] = 1 THEN "length-1-axis"
           ELSE IF \E a \in DOMAIN res.shapes : Len(res.shapes[a]) = 2 THEN "two-collection-axes" ELSE "one-collection-axis"
Dump == (Done /\ DoDump) => PrintT(ToJson([r |-> res, s |-> Stratum]))
=============================================================================
