---------------------------- MODULE C01_Complex ----------------------------
(***************************************************************************)
(* C01 / C02 on complex coordinate vectors ("every coordinate vector, real *)
(* or complex").  A complex vector is a pair <<re, im>> of integer vectors *)
(* (Gaussian integers).  join and meet are multilinear contractions WITHOUT*)
(* conjugation, so the expected complex result is obtained exactly from    *)
(* the integer operators of Proj.tla by expanding (a1 + i a2) in every     *)
(* argument:                                                               *)
(*   B(a, b)    = B(a1,b1) - B(a2,b2)  +  i (B(a1,b2) + B(a2,b1))           *)
(*   T(a, b, c) = T(111) - T(122) - T(212) - T(221)                        *)
(*                + i (T(211) + T(121) + T(112) - T(222))                  *)
(* Declarative layer: the complex result is incident (bilinear pairing,    *)
(* no conjugation) with every argument; it vanishes exactly when the       *)
(* arguments are linearly dependent over C.                                *)
(***************************************************************************)
EXTENDS Proj, Json

CONSTANTS Tasks, DoDump
VARIABLES pc, task, first, res
vars == <<pc, task, first, res>>

Re(z) == z[1]
Im(z) == z[2]
BiRe(B(_, _), a, b) == VSub(B(Re(a), Re(b)), B(Im(a), Im(b)))
BiIm(B(_, _), a, b) == VAdd(B(Re(a), Im(b)), B(Im(a), Re(b)))
TriRe(T(_, _, _), a, b, c) ==
  VSub(VSub(VSub(T(Re(a), Re(b), Re(c)), T(Re(a), Im(b), Im(c))), T(Im(a), Re(b), Im(c))), T(Im(a), Im(b), Re(c)))
TriIm(T(_, _, _), a, b, c) ==
  VSub(VAdd(VAdd(T(Im(a), Re(b), Re(c)), T(Re(a), Im(b), Re(c))), T(Re(a), Re(b), Im(c))), T(Im(a), Im(b), Im(c)))
\* bilinear pairing <u, v> = 0 over C
GIncident(u, v) == /\ Dot(Re(u), Re(v)) - Dot(Im(u), Im(v)) = 0
                   /\ Dot(Re(u), Im(v)) + Dot(Im(u), Re(v)) = 0
GZero(z) == IsZeroV(Re(z)) /\ IsZeroV(Im(z))
Genuine(z) == ~Proportional(Re(z), Im(z))        \* not a complex multiple of a real vector

R3 == {<<1, 0, 1>>, <<0, 1, 1>>, <<1, 2, 0>>, <<2, -1, 1>>}
I3 == {<<0, 0, 0>>, <<0, 1, 0>>, <<1, 1, 1>>, <<1, 0, -1>>}
G3 == {<<r, i>> : r \in R3, i \in I3} \cup {<<r, r>> : r \in R3} \cup {<<r, VScale(-2, r)>> : r \in R3}
R4 == {<<1, 0, 0, 1>>, <<0, 1, 0, 1>>, <<0, 0, 1, 1>>, <<1, 1, 1, 0>>, <<2, -1, 1, 1>>}
I4 == {<<0, 0, 0, 0>>, <<0, 1, 0, 0>>, <<1, 0, 1, 1>>, <<1, -1, 0, 2>>}
G4 == {<<r, i>> : r \in R4, i \in I4} \cup {<<r, r>> : r \in R4}

Init == pc = "start" /\ task \in Tasks /\ first = <<>> /\ res = [t |-> "none"]
Choose ==
  /\ pc = "start" /\ pc' = "chosen" /\ UNCHANGED <<task, res>>
  /\ \/ task \in {"j2", "m2"} /\ \E a \in G3 : first' = a
     \/ task \in {"j3", "m3"} /\ \E a \in G4 : first' = a
Compute ==
  /\ pc = "chosen" /\ pc' = "done" /\ UNCHANGED <<task, first>>
  /\ \/ /\ task \in {"j2", "m2"}      \* two points -> line, two lines -> point: the same bilinear cross product
        /\ \E b \in G3 : res' = [t |-> task, args |-> <<first, b>>, out |-> <<BiRe(Cross, first, b), BiIm(Cross, first, b)>>]
     \/ /\ task \in {"j3", "m3"}      \* three points -> plane (also as line + point), three planes -> point (also as line + plane)
        /\ \E b \in G4, c \in G4 :
             res' = [t |-> task, args |-> <<first, b, c>>, out |-> <<TriRe(Join3PPP, first, b, c), TriIm(Join3PPP, first, b, c)>>]
Next == Choose \/ Compute
Spec == Init /\ [][Next]_vars

Done == pc = "done"
\* the result is incident with every argument
ResultIncident == Done => \A i \in DOMAIN res.args : GIncident(res.out, res.args[i])
\* real arguments: the complex formula is the integer operator
RealAgrees == (Done /\ \A i \in DOMAIN res.args : IsZeroV(Im(res.args[i]))) =>
   /\ IsZeroV(Im(res.out))
   /\ Re(res.out) = IF Len(res.args) = 2 THEN Cross(Re(res.args[1]), Re(res.args[2]))
                    ELSE Join3PPP(Re(res.args[1]), Re(res.args[2]), Re(res.args[3]))
\* a repeated argument is dependent
RepeatedIsZero == (Done /\ \E i, j \in DOMAIN res.args : i # j /\ res.args[i] = res.args[j]) => GZero(res.out)

Stratum == IF GZero(res.out) THEN "dependent"
           ELSE IF \A i \in DOMAIN res.args : IsZeroV(Im(res.args[i])) THEN "real"
           ELSE IF \E i \in DOMAIN res.args : Genuine(res.args[i]) THEN "genuinely-complex"
           ELSE "complex-multiple-of-real"
Dump == (Done /\ DoDump) => PrintT(ToJson([r |-> res, s |-> Stratum]))
=============================================================================
