---------------------------- MODULE C01_JoinMeet ----------------------------
(***************************************************************************)
(* C01 / C02: join and meet of points, lines and planes of P^2 and P^3.    *)
(*                                                                         *)
(* Constructive layer: the dispatcher of geometer's _join_meet_duality     *)
(* (one disjunct per branch), the zero test of check_dependence, the       *)
(* classification of the result tensor into the returned class.            *)
(* Declarative layer: the words of the property -- the result is incident  *)
(* with every argument, it is the only lattice object that is, the error   *)
(* is raised exactly on dependent / skew arguments, argument order is      *)
(* irrelevant, meet and join round-trip.                                   *)
(*                                                                         *)
(* TLC enumerates EVERY configuration of the lattice for every family, so  *)
(* all degenerate strata that exist at this size are visited.              *)
(***************************************************************************)
EXTENDS Proj, Json

CONSTANTS K2,        \* lattice half-width for P^2 (all non-zero vectors, not only class representatives)
          K3,        \* lattice half-width for P^3 (class representatives)
          Families,  \* which families this run enumerates
          DoDump,    \* print one JSON line per finished case
          Stride3,   \* three-argument families: keep every Stride3-th first argument (1 = all)
          StrideLL,  \* line-line families: keep every StrideLL-th first line (1 = all)
          Seed       \* which residue class the strides keep

VARIABLES pc, fam, args, branch, raw, err, out

vars == <<pc, fam, args, branch, raw, err, out>>

\* ---- the families of the property's quantifier: <<name, op, dim, kinds of arguments>>
FamilyTable ==
  [ j2pp  |-> [op |-> "join", dim |-> 2, kinds |-> <<"point", "point">>],
    m2ll  |-> [op |-> "meet", dim |-> 2, kinds |-> <<"line", "line">>],
    j3pp  |-> [op |-> "join", dim |-> 3, kinds |-> <<"point", "point">>],
    j3ppp |-> [op |-> "join", dim |-> 3, kinds |-> <<"point", "point", "point">>],
    j3pl  |-> [op |-> "join", dim |-> 3, kinds |-> <<"point", "line3">>],
    j3lp  |-> [op |-> "join", dim |-> 3, kinds |-> <<"line3", "point">>],
    j3ll  |-> [op |-> "join", dim |-> 3, kinds |-> <<"line3", "line3">>],
    m3ee  |-> [op |-> "meet", dim |-> 3, kinds |-> <<"plane", "plane">>],
    m3eee |-> [op |-> "meet", dim |-> 3, kinds |-> <<"plane", "plane", "plane">>],
    m3el  |-> [op |-> "meet", dim |-> 3, kinds |-> <<"plane", "line3">>],
    m3le  |-> [op |-> "meet", dim |-> 3, kinds |-> <<"line3", "plane">>],
    m3ll  |-> [op |-> "meet", dim |-> 3, kinds |-> <<"line3", "line3">>],
    \* round trips: meet(join(p,q), join(p,r)) = p ; join(meet(l,m), meet(l,n)) = l
    rt2mj |-> [op |-> "rt", dim |-> 2, kinds |-> <<"point", "point", "point">>],
    rt2jm |-> [op |-> "rt", dim |-> 2, kinds |-> <<"line", "line", "line">>],
    rt3mj |-> [op |-> "rt", dim |-> 3, kinds |-> <<"point", "point", "point">>],
    rt3jm |-> [op |-> "rt", dim |-> 3, kinds |-> <<"line3", "plane", "plane">>] ]

VHash(v) == 100003 + (IF Len(v) = 6 THEN Dot(v, <<1, 5, 7, 11, 13, 17>>) ELSE Dot(v, SubSeq(<<1, 5, 7, 11>>, 1, Len(v))))
Keep(v, stride) == VHash(v) % stride = Seed % stride

IsRT(f) == f \in {"rt2mj", "rt2jm", "rt3mj", "rt3jm"}

P2 == NonZero(Lattice(3, K2))            \* every representative, incl. non-primitive and negative ones
P3 == Classes(4, K3)
L3 == Lines3(K3)

\* the zero vector represents nothing; as an argument it is a dependent input (C02 names it), so it is part of every pool of
\* points, lines of the plane and planes (never of the round trips, whose pools are class representatives)
ZeroArg(dim) == [i \in 1..(dim + 1) |-> 0]
Pool(kind, dim) == IF kind = "line3" THEN L3 ELSE (IF dim = 2 THEN P2 ELSE P3) \cup {ZeroArg(dim)}
\* first-argument pool of a family (strided for the big families; class representatives for round trips)
Pool1(f) == LET t == FamilyTable[f] IN
  IF IsRT(f) THEN (IF t.kinds[1] = "line3" THEN {x \in L3 : Keep(x, StrideLL)}
                   ELSE IF t.dim = 3 THEN {x \in Classes(4, 1) : Keep(x, Stride3)} ELSE Classes(3, 1))
  ELSE IF Len(t.kinds) = 3 THEN {x \in Pool(t.kinds[1], t.dim) : Keep(x, Stride3)}
  ELSE IF f \in {"j3ll", "m3ll"} THEN {x \in L3 : Keep(x, StrideLL)}
  ELSE Pool(t.kinds[1], t.dim)
PoolRest(f, i) == LET t == FamilyTable[f] IN
  IF IsRT(f) THEN Classes(t.dim + 1, 1) ELSE Pool(t.kinds[i], t.dim)

\* ---------------------------------------------------------------------------
\* Constructive layer
\* branch "one-tensors": all arguments are 1-tensors of the same type -> epsilon contraction
\* branch "line-plane", "subspace-point", "line-line" as in the code
BranchOf(ks) ==
  IF \A i \in DOMAIN ks : ks[i] \in {"point"} THEN "one-tensors"
  ELSE IF \A i \in DOMAIN ks : ks[i] \in {"line", "plane"} THEN "one-tensors"
  ELSE IF Len(ks) = 2 /\ Range(ks) = {"line3", "plane"} THEN "line-plane"
  ELSE IF Len(ks) = 2 /\ Range(ks) = {"line3", "point"} THEN "subspace-point"
  ELSE IF Len(ks) = 2 /\ ks[1] = "line3" /\ ks[2] = "line3" THEN "line-line"
  ELSE "unsupported"

\* the raw contraction: [k |-> result kind, v |-> vector]   (zero vector = dependent)
RawResult(f, a) ==
  LET t == FamilyTable[f] IN
  CASE f = "j2pp"  -> Obj("line",  Join2PP(a[1], a[2]))
    [] f = "m2ll"  -> Obj("point", Meet2LL(a[1], a[2]))
    [] f = "j3pp"  -> Obj("line3", Join3PP(a[1], a[2]))
    [] f = "j3ppp" -> Obj("plane", Join3PPP(a[1], a[2], a[3]))
    [] f = "j3pl"  -> Obj("plane", Join3LP(a[2], a[1]))
    [] f = "j3lp"  -> Obj("plane", Join3LP(a[1], a[2]))
    [] f = "j3ll"  -> Obj("plane", Join3LL(a[1], a[2]))
    [] f = "m3ee"  -> Obj("line3", Meet3EE(a[1], a[2]))
    [] f = "m3eee" -> Obj("point", Meet3EEE(a[1], a[2], a[3]))
    [] f = "m3el"  -> Obj("point", Meet3LE(a[2], a[1]))
    [] f = "m3le"  -> Obj("point", Meet3LE(a[1], a[2]))
    [] f = "m3ll"  -> Obj("point", Meet3LL(a[1], a[2]))

\* outcome of the call as the code decides it: line-line first tests coplanarity, then every
\* branch tests the un-normalised result for zero
ErrOf(f, a, r) ==
  IF BranchOf(FamilyTable[f].kinds) = "line-line" /\ LineLine(a[1], a[2]) # 0 THEN "NotCoplanar"
  ELSE IF IsNull(r) THEN "LinearDependence"
  ELSE "none"

ArgObjs(f, a) == [i \in DOMAIN a |-> Obj(FamilyTable[f].kinds[i], a[i])]

\* round trips, composed from the constructive operators
RTResult(f, a) ==
  CASE f = "rt2mj" -> Obj("point", Meet2LL(Join2PP(a[1], a[2]), Join2PP(a[1], a[3])))
    [] f = "rt2jm" -> Obj("line",  Join2PP(Meet2LL(a[1], a[2]), Meet2LL(a[1], a[3])))
    [] f = "rt3mj" -> Obj("point", Meet3LL(Join3PP(a[1], a[2]), Join3PP(a[1], a[3])))
    [] f = "rt3jm" -> Obj("line3", Join3PP(Meet3LE(a[1], a[2]), Meet3LE(a[1], a[3])))
\* general position for a round trip, stated by incidence: no step of it is degenerate
RTGeneral(f, a) ==
  CASE f \in {"rt2mj", "rt2jm"} -> Det3(<<a[1], a[2], a[3]>>) # 0
    [] f = "rt3mj" -> ~IsZeroV(Join3PPP(a[1], a[2], a[3]))
    [] f = "rt3jm" -> /\ ~Line3InPlane(a[1], a[2]) /\ ~Line3InPlane(a[1], a[3])
                      /\ ~Proportional(Meet3LE(a[1], a[2]), Meet3LE(a[1], a[3]))

\* ---------------------------------------------------------------------------
\* State machine: choose family and first argument (initial states), choose the rest and call
Init ==
  /\ pc = "chosen1"
  /\ fam \in Families
  /\ \E x \in Pool1(fam) : args = <<x>>
  /\ branch = "" /\ raw = Obj("none", <<0>>) /\ err = "" /\ out = Obj("none", <<0>>)

ChooseRest ==
  /\ pc = "chosen1"
  /\ LET t == FamilyTable[fam] IN
     \/ /\ Len(t.kinds) = 2
        /\ \E y \in PoolRest(fam, 2) : args' = <<args[1], y>>
     \/ /\ Len(t.kinds) = 3
        /\ \E y \in PoolRest(fam, 2), z \in PoolRest(fam, 3) :
              /\ args' = <<args[1], y, z>>
              /\ IsRT(fam) => RTGeneral(fam, args')
  /\ pc' = "chosen"
  /\ UNCHANGED <<fam, branch, raw, err, out>>

\* the call itself, parameterised so that the trace specification can bind logged arguments to it
CallWith(f, a) ==
  /\ branch' = BranchOf(FamilyTable[f].kinds)
  /\ raw' = IF IsRT(f) THEN RTResult(f, a) ELSE RawResult(f, a)
  /\ err' = IF IsRT(f) THEN "none" ELSE ErrOf(f, a, raw')
  /\ out' = IF err' = "none" THEN Canon(raw') ELSE Obj("none", <<0>>)
  /\ pc' = "done"

Call ==
  /\ pc = "chosen"
  /\ CallWith(fam, args)
  /\ UNCHANGED <<fam, args>>

Next == ChooseRest \/ Call
Spec == Init /\ [][Next]_vars

\* ---------------------------------------------------------------------------
\* Declarative layer
Done == pc = "done"
AO == ArgObjs(fam, args)
ResKind == raw.k
NotRT == ~IsRT(fam)
\* C01 round trips: the composition returns its first argument (declarative: the argument itself)
RoundTrip == (Done /\ IsRT(fam)) => SameObj(out, Obj(FamilyTable[fam].kinds[1], args[1]))

\* all lattice objects of a kind (class representatives)
AllOfKind(k) == IF k = "line3" THEN {Obj("line3", v) : v \in L3}
                ELSE IF k = "line" \/ (k = "point" /\ FamilyTable[fam].dim = 2)
                     THEN {Obj(k, v) : v \in Classes(3, K2)}
                     ELSE {Obj(k, v) : v \in Classes(4, K3)}

IncidentWithAll(x) == \A i \in DOMAIN AO : Incident(x, AO[i])

\* C01: the result is a non-zero object incident with every argument ...
ResultIncident == (Done /\ NotRT /\ err = "none") => (~IsNull(out) /\ IncidentWithAll(out))
\* ... and the only one (every lattice object incident with all arguments is the same class)
ResultUnique == (Done /\ NotRT /\ err = "none") =>
    \A x \in AllOfKind(ResKind) : IncidentWithAll(x) => SameObj(x, out)

\* C02: the geometric meaning of dependence, stated by incidence only
Dependent(f, a) ==
  LET o == ArgObjs(f, a) IN
  \/ \E i \in DOMAIN a : IsZeroV(a[i])
  \/ CASE f \in {"j2pp", "m2ll", "j3pp", "m3ee"} -> Proportional(a[1], a[2])
       [] f = "j3ppp" -> \/ Proportional(a[1], a[2])
                         \/ Incident(o[3], Obj("line3", Join3PP(a[1], a[2])))
       [] f = "m3eee" -> \/ Proportional(a[1], a[2])
                         \/ Incident(Obj("line3", Meet3EE(a[1], a[2])), o[3])
       [] f \in {"j3pl", "j3lp", "m3el", "m3le"} -> Incident(o[1], o[2])
       [] f \in {"j3ll", "m3ll"} -> SameClass(a[1], a[2])
Skew(f, a) == f \in {"j3ll", "m3ll"} /\ ~\E p \in Classes(4, K3) :
                  PointOnLine3(p, a[1]) /\ PointOnLine3(p, a[2])

ErrIffDependent == (Done /\ NotRT) => ((err = "LinearDependence") <=> (Dependent(fam, args) /\ ~(err = "NotCoplanar")))
\* two lines spanned by lattice points meet in a lattice-rational point; on the K3 lattice that point
\* need not be a lattice point, so skewness is stated through the Klein form and cross-checked one way
NotCoplanarIffSkew == (Done /\ NotRT) =>
     ( /\ ((err = "NotCoplanar") <=> (fam \in {"j3ll", "m3ll"} /\ LineLine(args[1], args[2]) # 0))
       /\ ((err = "NotCoplanar") => Skew(fam, args)) )

\* order independence: every permutation of the arguments gives the same outcome and class
PermFam(f, p) ==  \* family obtained by permuting kinds
  CASE f = "j3pl" /\ p = <<2,1>> -> "j3lp" [] f = "j3lp" /\ p = <<2,1>> -> "j3pl"
    [] f = "m3el" /\ p = <<2,1>> -> "m3le" [] f = "m3le" /\ p = <<2,1>> -> "m3el"
    [] OTHER -> f
OrderIndependent == (Done /\ NotRT) =>
  \A p \in PermsOf(Len(args)) :
     LET a2 == [i \in DOMAIN args |-> args[p[i]]]
         f2 == PermFam(fam, p)
         r2 == RawResult(f2, a2)
         e2 == ErrOf(f2, a2, r2)
     IN e2 = err /\ (err = "none" => SameObj(r2, out))

\* line vectors produced by the model are lines (Klein quadric) -- sanity of the Pluecker algebra
LinesAreLines == (Done /\ err = "none" /\ out.k = "line3") => Klein(out.v) = 0

\* ---------------------------------------------------------------------------
\* stratum label (assigned by the specification from the input, never from the observed failure)
Stratum ==
  IF IsRT(fam) THEN "roundtrip" ELSE
  IF \E i \in DOMAIN args : IsZeroV(args[i]) THEN "zero-vector"
  ELSE IF err = "NotCoplanar" THEN "skew"
  ELSE IF err = "LinearDependence" THEN
      CASE fam \in {"j2pp", "j3pp"} -> "coincident"
        [] fam \in {"m2ll", "m3ee"} -> "equal-hyperplanes"
        [] fam = "j3ppp" -> "three-collinear"
        [] fam = "m3eee" -> "three-coaxial"
        [] fam \in {"j3pl", "j3lp"} -> "point-on-line"
        [] fam \in {"m3el", "m3le"} -> "line-in-plane"
        [] OTHER -> "equal-lines"
  ELSE IF fam \in {"j3ll", "m3ll"} THEN "coplanar-lines"
  ELSE IF out.k = "point" /\ out.v[Len(out.v)] = 0 THEN "at-infinity"
  ELSE IF out.k \in {"line", "plane"} /\ IsZeroV(SubSeq(out.v, 1, Len(out.v) - 1)) THEN "at-infinity"
  ELSE "general"

DumpRec == [f |-> fam, a |-> args, e |-> err, k |-> out.k, v |-> out.v, s |-> Stratum]
Dump == (Done /\ DoDump) => PrintT(ToJson(DumpRec))
=============================================================================
