------------------------------ MODULE C09_Metric ------------------------------
(***************************************************************************)
(* C09: dist and angle equal the Cartesian distance and angle.             *)
(* Distances are exact through their squares (rationals <<n, d>>, d = 0    *)
(* for infinity); planar angles modulo pi through the projective class     *)
(* <<cos, sin>> = <<u.v, v x u>> (counter-clockwise from the second leg to *)
(* the first, the convention pinned by the repository's tests), 3D angles  *)
(* through cos^2.  The lattice contains every degenerate stratum: equal    *)
(* points, incident pairs, a point at infinity, and subspace/point pairs   *)
(* whose homogeneous vectors happen to be proportional.                    *)
(***************************************************************************)
EXTENDS Poly, Json

CONSTANTS Tasks, Stride, Seed, DoDump
VARIABLES pc, task, first, res
vars == <<pc, task, first, res>>

VHash(v) == 100003 + Dot(v, SubSeq(<<1, 5, 7, 11, 13, 17>>, 1, Len(v)))
Keep(v, s) == VHash(v) % s = Seed % s

Fin2 == {Homog(x, w) : x \in Lattice(2, 2), w \in {1, 2}}
Inf2 == {p \in Classes(3, 1) : p[3] = 0}
Pts2 == Fin2 \cup Inf2
Fin3 == {Homog(x, w) : x \in Lattice(3, 1), w \in {1, 2}}
Inf3 == {p \in Classes(4, 1) : p[4] = 0 /\ Keep(p, 2)}
Pts3 == Fin3 \cup Inf3
Lines2 == {h \in NonZero(Lattice(3, 2)) : ~IsZeroV(NormalOf(h))}
Planes3 == {h \in NonZero(Lattice(4, 1)) : ~IsZeroV(NormalOf(h))}
Fin(d) == IF d = 2 THEN Fin2 ELSE Fin3

Inf == <<1, 0>>
\* squared distance between two points, one of which may be at infinity
D2PP(p, q) == IF SameClass(p, q) THEN <<0, 1>>
              ELSE IF W(p) = 0 /\ W(q) = 0 THEN <<-1, 0>>            \* both at infinity: not defined by the property
              ELSE IF W(p) = 0 \/ W(q) = 0 THEN Inf ELSE Dist2PP(p, q)
\* point - segment with clamping
D2PSeg(p, a, b) ==
  LET u == VSub(VScale(W(a), AffPart(b)), VScale(W(b), AffPart(a)))      \* direction (scaled by wa wb)
      f == FootPL(p, a, u)
      \* parameter of the foot: t = ((p-a).u)/(u.u) with everything scaled; compare 0 <= t <= 1 by cross-multiplication
      num == Dot(VSub(VScale(W(a), AffPart(p)), VScale(W(p), AffPart(a))), u) * W(a) * W(b)     \* t * den
      den == Norm2(u) * W(p) * W(a)
      t0 == IF den > 0 THEN num ELSE -num
      dd == Abs(den)
  IN IF t0 <= 0 THEN Dist2PP(p, a) ELSE IF t0 >= dd THEN Dist2PP(p, b) ELSE Dist2PP(p, f)

RMin(a, b) == IF RLe(a, b) THEN a ELSE b

\* point - polygon (closed region): 0 inside, otherwise the nearest edge; polygons of 3-space: the foot of the
\* perpendicular if it falls into the closed polygon, otherwise the nearest edge
HV(v) == v \o <<1>>
RECURSIVE MinEdge(_, _, _)
MinEdge(poly, p, i) == LET d == D2PSeg(p, HV(poly[i]), HV(poly[NextIdx(poly, i)])) IN
                       IF i = Len(poly) THEN d ELSE RMin(d, MinEdge(poly, p, i + 1))
D2PPoly2(poly, p) == IF InClosed2(poly, p) THEN <<0, 1>> ELSE MinEdge(poly, p, 1)
D2PPoly3(poly, p) == LET h == PlaneOf3(poly) f == FootPH(p, h) IN
                     IF InClosed3(poly, f) THEN Dist2PH(p, h) ELSE MinEdge(poly, p, 1)
RECURSIVE MinFace(_, _, _)
MinFace(faces, p, i) == LET d == D2PPoly3(faces[i], p) IN IF i = Len(faces) THEN d ELSE RMin(d, MinFace(faces, p, i + 1))

Polys2 == { << <<0,0>>, <<2,0>>, <<2,2>>, <<0,2>> >>, << <<0,0>>, <<4,0>>, <<0,3>> >>,
            << <<0,0>>, <<3,0>>, <<3,3>>, <<1,1>>, <<0,3>> >>, << <<1,1>>, <<1,3>>, <<4,3>>, <<4,1>> >> }
Polys3 == { << <<5,-1,-1>>, <<5,1,-1>>, <<5,1,1>>, <<5,-1,1>> >>, << <<0,0,1>>, <<2,0,1>>, <<2,2,3>>, <<0,2,3>> >>,
            << <<1,0,0>>, <<0,1,0>>, <<0,0,1>> >>, << <<4,0,-1>>, <<6,0,1>>, <<6,2,1>>, <<4,2,-1>> >>,
            << <<0,0,0>>, <<3,0,0>>, <<3,3,0>>, <<1,1,0>>, <<0,3,0>> >> }
Box(a, b) ==   \* faces of the axis-parallel cuboid with opposite corners a < b (as geometer's Cuboid orders them is irrelevant here)
  << << <<a[1],a[2],a[3]>>, <<a[1],a[2],b[3]>>, <<a[1],b[2],b[3]>>, <<a[1],b[2],a[3]>> >>,
     << <<a[1],a[2],a[3]>>, <<b[1],a[2],a[3]>>, <<b[1],a[2],b[3]>>, <<a[1],a[2],b[3]>> >>,
     << <<a[1],a[2],a[3]>>, <<b[1],a[2],a[3]>>, <<b[1],b[2],a[3]>>, <<a[1],b[2],a[3]>> >>,
     << <<b[1],a[2],a[3]>>, <<b[1],a[2],b[3]>>, <<b[1],b[2],b[3]>>, <<b[1],b[2],a[3]>> >>,
     << <<a[1],b[2],a[3]>>, <<b[1],b[2],a[3]>>, <<b[1],b[2],b[3]>>, <<a[1],b[2],b[3]>> >>,
     << <<a[1],a[2],b[3]>>, <<b[1],a[2],b[3]>>, <<b[1],b[2],b[3]>>, <<a[1],b[2],b[3]>> >> >>
Query2 == {<<x, y, w>> : x \in -2..9, y \in -2..7, w \in {1, 2}}
Query3 == {<<x, y, z, w>> : x \in {-1, 1, 3, 5, 7, 10, 14}, y \in {-1, 0, 1, 3}, z \in {-1, 0, 1, 2}, w \in {1, 2}}

\* angle classes
Dir(p, q) == VSub(VScale(W(p), AffPart(q)), VScale(W(q), AffPart(p)))     \* direction from p to q (positive multiple if w > 0)
Cross2(u, v) == u[1] * v[2] - u[2] * v[1]
\* angle(a, b, c) in the plane: counter-clockwise angle from ac to ab, modulo pi -> class <<cos, sin>>
AngleClass2(u, v) == Primitive(<<Dot(u, v), Cross2(v, u)>>)              \* u = leg to b, v = leg to c
\* unoriented: cos^2 as a rational
Cos2(u, v) == RNorm(Dot(u, v) * Dot(u, v), Norm2(u) * Norm2(v))

Init == pc = "start" /\ task \in Tasks /\ first = <<>> /\ res = [t |-> "none"]

Choose ==
  /\ pc = "start" /\ pc' = "chosen" /\ UNCHANGED <<task, res>>
  /\ \/ task = "pp2" /\ \E p \in Pts2 : first' = p
     \/ task = "pp3" /\ \E p \in {x \in Pts3 : Keep(x, Stride)} : first' = p
     \/ task = "ph2" /\ \E h \in Lines2 : first' = h
     \/ task = "ph3" /\ \E h \in Planes3 : first' = h
     \/ task = "pl3" /\ \E a \in {x \in Fin3 : Keep(x, 2 * Stride)} : first' = a
     \/ task = "pseg2" /\ \E a \in {x \in Fin2 : Keep(x, Stride)} : first' = a
     \/ task = "pseg3" /\ \E a \in {x \in Fin3 : Keep(x, 4 * Stride)} : first' = a
     \/ task = "par3" /\ \E h \in {x \in Planes3 : Keep(x, Stride)} : first' = h
     \/ task = "ppoly2" /\ \E P \in Polys2 : first' = P
     \/ task = "ppoly3" /\ \E P \in Polys3 : first' = P
     \/ task = "ppolyh" /\ \E b \in {<<2, 1, 3>>, <<1, 1, 1>>} : first' = b
     \/ task = "ang2" /\ \E a \in {x \in Fin2 : Keep(x, Stride)} : first' = a
     \/ task = "angl2" /\ \E h \in {x \in Lines2 : Keep(x, Stride)} : first' = h
     \/ task = "angld2" /\ \E h \in {x \in Lines2 : Keep(x, Stride)} : first' = h
     \/ task = "ang3" /\ \E a \in {x \in Fin3 : Keep(x, 4 * Stride)} : first' = a
     \/ task = "angp3" /\ \E h \in {x \in Planes3 : Keep(x, Stride)} : first' = h

Compute ==
  /\ pc = "chosen" /\ pc' = "done" /\ UNCHANGED <<task, first>>
  /\ \/ /\ task \in {"pp2", "pp3"}
        /\ \E q \in (IF task = "pp2" THEN Pts2 ELSE Pts3) :
             ~(W(first) = 0 /\ W(q) = 0) /\         \* two points at infinity: not defined by the property
             res' = [t |-> "pp", a |-> first, b |-> q, d2 |-> D2PP(first, q)]
     \/ /\ task \in {"ph2", "ph3"}
        /\ \E p \in (IF task = "ph2" THEN Fin2 ELSE {x \in Fin3 : Keep(x, Stride)}) :
             res' = [t |-> "ph", h |-> first, p |-> p, d2 |-> Dist2PH(p, first)]
     \/ /\ task = "pl3"
        /\ \E b \in {x \in Fin3 : Keep(x, 3)}, p \in {x \in Fin3 : Keep(x, 2)} :
             /\ ~SameClass(first, b)
             /\ LET u == Dir(first, b) IN
                res' = [t |-> "pl3", a |-> first, b |-> b, p |-> p, d2 |-> Dist2PP(p, FootPL(p, first, u))]
     \/ /\ task \in {"pseg2", "pseg3"}
        /\ \E b \in {x \in Fin(IF task = "pseg2" THEN 2 ELSE 3) : Keep(x, 3)}, p \in {x \in Fin(IF task = "pseg2" THEN 2 ELSE 3) : Keep(x, 2)} :
             /\ ~SameClass(first, b)
             /\ res' = [t |-> "pseg", a |-> first, b |-> b, p |-> p, d2 |-> D2PSeg(p, first, b), len2 |-> Dist2PP(first, b)]
     \/ /\ task = "par3"        \* plane and a parallel plane / a parallel line
        /\ \/ \E k \in {-3, -1, 0, 2, 5} :
                LET g == [first EXCEPT ![4] = k] IN
                \* distance between the planes n.x + d = 0 and n.x + k = 0 : (d - k)^2 / n.n
                res' = [t |-> "parplane", h |-> first, g |-> g,
                        d2 |-> RNorm((first[4] - k) * (first[4] - k), Norm2(NormalOf(first)))]
           \/ \E a \in {x \in Fin3 : Keep(x, 3)}, v \in {x \in Lattice(3, 1) : ~IsZeroV(x)} :
                /\ Dot(NormalOf(first), v) = 0                          \* direction parallel to the plane
                /\ res' = [t |-> "parline", h |-> first, a |-> a, b |-> Homog(VAdd(AffPart(a), VScale(W(a), v)), W(a)),
                           d2 |-> Dist2PH(a, first)]
     \/ /\ task = "ppoly2"
        /\ \E p \in Query2 : res' = [t |-> "ppoly", d |-> 2, poly |-> first, p |-> p, d2 |-> D2PPoly2(first, p),
                                    inside |-> InClosed2(first, p)]
     \/ /\ task = "ppoly3"
        /\ \E p \in Query3 : res' = [t |-> "ppoly", d |-> 3, poly |-> first, p |-> p, d2 |-> D2PPoly3(first, p),
                                    inside |-> InClosed3(first, FootPH(p, PlaneOf3(first)))]
     \/ /\ task = "ppolyh"
        /\ \E p \in {q \in Query3 : q[1] <= 4 * q[4]} :
             \* points strictly inside the solid are left out: the property does not say whether a polyhedron is solid
             /\ ~(\A i \in 1..3 : 0 < p[i] /\ p[i] < first[i] * p[4])
             /\ res' = [t |-> "ppolyh", corner |-> first, p |-> p, d2 |-> MinFace(Box(<<0, 0, 0>>, first), p, 1)]
     \/ /\ task = "ang2"
        /\ \E b \in Fin2, c \in {x \in Fin2 : Keep(x, 2)} :
             /\ ~SameClass(first, b) /\ ~SameClass(first, c)
             /\ res' = [t |-> "ang2", a |-> first, b |-> b, c |-> c,
                        cs |-> AngleClass2(VScale(W(first) * W(b), Dir(first, b)), VScale(W(first) * W(c), Dir(first, c)))]
     \/ /\ task = "angl2"
        /\ \E m \in Lines2 :
             /\ ~SameClass(first, m)
             \* direction of the line (a,b,c) is (b, -a); angle(l, m): from m's direction to l's direction
             /\ res' = [t |-> "angl2", l |-> first, m |-> m,
                        cs |-> AngleClass2(<<first[2], -first[1]>>, <<m[2], -m[1]>>)]
     \/ /\ task = "angld2"       \* a line and a direction: a point stands for the direction from the origin to it (itself, at infinity)
        /\ \E d \in {x \in Pts2 : ~(x[1] = 0 /\ x[2] = 0) /\ Keep(x, 2)} :
             res' = [t |-> "angld2", l |-> first, d |-> d, cs |-> AngleClass2(<<first[2], -first[1]>>, <<d[1], d[2]>>)]
     \/ /\ task = "ang3"
        /\ \E b \in {x \in Fin3 : Keep(x, 3)}, c \in {x \in Fin3 : Keep(x, 2)} :
             /\ ~SameClass(first, b) /\ ~SameClass(first, c)
             /\ ~Proportional(Dir(first, b), Dir(first, c))
             /\ res' = [t |-> "ang3", a |-> first, b |-> b, c |-> c, cos2 |-> Cos2(Dir(first, b), Dir(first, c))]
     \/ /\ task = "angp3"
        /\ \E g \in Planes3 :
             /\ ~Proportional(NormalOf(first), NormalOf(g))
             /\ res' = [t |-> "angp3", h |-> first, g |-> g, cos2 |-> Cos2(NormalOf(first), NormalOf(g))]

Next == Choose \/ Compute
Spec == Init /\ [][Next]_vars

\* ---------------------------------------------------------------------------
\* Declarative layer
Done == pc = "done"
\* symmetric; zero exactly for equal points; infinite exactly when one point is at infinity
DistLaws == (Done /\ res.t = "pp") =>
   /\ D2PP(res.b, res.a) = res.d2
   /\ (res.d2 = <<0, 1>>) <=> SameClass(res.a, res.b)
   /\ (res.d2 = Inf) <=> ((W(res.a) = 0) # (W(res.b) = 0))
\* the foot realises the distance: it lies on the hyperplane and p - foot is normal to it; zero iff incident
PointHyperLaws == (Done /\ res.t = "ph") =>
   LET f == FootPH(res.p, res.h) IN
   /\ PointOnHyper(f, res.h)
   /\ Proportional(Dir(res.p, f), NormalOf(res.h))
   /\ res.d2 = Dist2PP(res.p, f)
   /\ (res.d2[1] = 0) <=> PointOnHyper(res.p, res.h)
\* clamped distance is the minimum over the three candidates restricted to the segment
SegLaws == (Done /\ res.t = "pseg") =>
   /\ RLe(res.d2, Dist2PP(res.p, res.a)) /\ RLe(res.d2, Dist2PP(res.p, res.b))
   /\ \A k \in 0..4 : LET m == Homog(VAdd(VScale((4 - k) * W(res.b), AffPart(res.a)), VScale(k * W(res.a), AffPart(res.b))), 4 * W(res.a) * W(res.b))
                      IN RLe(res.d2, Dist2PP(res.p, m))
\* antisymmetry of the planar angle in its last two arguments; invariance under the exact isometries
AngleLaws == (Done /\ res.t = "ang2") =>
   LET u == Dir(res.a, res.b) v == Dir(res.a, res.c) s == W(res.a) * W(res.b) t == W(res.a) * W(res.c) IN
   /\ AngleClass2(VScale(t, v), VScale(s, u)) = Primitive(<<res.cs[1], -res.cs[2]>>)
   /\ \A M \in {Rot2(<<3, 4, 5>>), TranslationM(<<2, -1>>), Rot2(<<0, 1, 1>>)} :
        LET a2 == MatVec(M, res.a) b2 == MatVec(M, res.b) c2 == MatVec(M, res.c) IN
        AngleClass2(VScale(W(a2) * W(b2), Dir(a2, b2)), VScale(W(a2) * W(c2), Dir(a2, c2))) = res.cs
\* a direction d stands for the line joining it with the origin; swapping the two arguments negates the angle
AngleDirectionLaws == (Done /\ res.t = "angld2") =>
   LET u == <<res.l[2], -res.l[1]>> v == <<res.d[1], res.d[2]>> od == Cross(<<0, 0, 1>>, res.d) IN
   /\ AngleClass2(v, u) = Primitive(<<res.cs[1], -res.cs[2]>>)
   /\ AngleClass2(u, <<od[2], -od[1]>>) = res.cs
DistInvariant == (Done /\ res.t = "pp" /\ Len(res.a) = 3 /\ res.d2[2] > 0) =>
   \A M \in {Rot2(<<3, 4, 5>>), TranslationM(<<2, -1>>), MatPrimitive(ReflectionM(<<1, 2, -1>>))} :
        D2PP(MatVec(M, res.a), MatVec(M, res.b)) = res.d2

Stratum ==
  CASE res.t = "pp" -> (IF res.d2 = <<0, 1>> THEN "coincident" ELSE IF res.d2 = Inf THEN "one-at-infinity" ELSE "general")
    [] res.t = "ph" -> (IF Proportional(res.h, res.p) THEN "proportional-vectors"
                        ELSE IF res.d2[1] = 0 THEN "incident" ELSE "general")
    [] res.t = "pl3" -> (IF res.d2[1] = 0 THEN "incident" ELSE "general")
    [] res.t = "pseg" -> (IF res.d2[1] = 0 THEN "incident"
                          ELSE IF res.d2 = Dist2PP(res.p, res.a) \/ res.d2 = Dist2PP(res.p, res.b) THEN "clamped" ELSE "foot-inside")
    [] res.t = "ppoly" -> (IF res.d2[1] = 0 THEN "incident" ELSE IF res.inside THEN "foot-inside" ELSE "nearest-edge")
    [] res.t = "ppolyh" -> (IF res.d2[1] = 0 THEN "incident" ELSE "general")
    [] res.t \in {"parplane", "parline"} -> (IF res.d2[1] = 0 THEN "incident" ELSE "parallel")
    [] res.t \in {"ang2", "angl2", "angld2"} -> (IF res.cs[2] = 0 THEN "zero-angle" ELSE IF res.cs[1] = 0 THEN "right-angle" ELSE "general")
    [] OTHER -> (IF res.cos2[1] = 0 THEN "right-angle" ELSE "general")
Dump == (Done /\ DoDump) => PrintT(ToJson([r |-> res, s |-> Stratum]))
=============================================================================
