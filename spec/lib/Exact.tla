------------------------------- MODULE Exact -------------------------------
(***************************************************************************)
(* Exact arithmetic used by every specification module: integers,          *)
(* rationals as normalised pairs <<n, d>> (d > 0, gcd = 1), Gaussian       *)
(* integers as pairs <<re, im>>, perfect squares.                          *)
(* TLC integers are 32 bit and overflow is a hard error, never a wrap, so  *)
(* a mis-sized lattice is a machinery failure, not a wrong verdict.        *)
(***************************************************************************)
EXTENDS Integers, Sequences, FiniteSets, TLC

Abs(x)  == IF x < 0 THEN -x ELSE x
Sign(x) == IF x > 0 THEN 1 ELSE IF x < 0 THEN -1 ELSE 0
Max2(a, b) == IF a >= b THEN a ELSE b
Min2(a, b) == IF a <= b THEN a ELSE b

RECURSIVE GcdP(_, _)
GcdP(a, b) == IF b = 0 THEN a ELSE GcdP(b, a % b)      \* a, b >= 0
Gcd(a, b)  == GcdP(Abs(a), Abs(b))

\* exact division (the caller guarantees divisibility); TLC's \div floors
Quot(a, b) == IF b > 0 THEN (IF a >= 0 THEN a \div b ELSE -((-a) \div b))
                       ELSE (IF a >= 0 THEN -(a \div (-b)) ELSE (-a) \div (-b))

---------------------------------------------------------------------------
\* Rationals
RNorm(n, d) == LET g == Gcd(n, d) s == Sign(d) IN <<Quot(s * n, g), Quot(s * d, g)>>
RInt(n)     == <<n, 1>>
RAdd(a, b)  == RNorm(a[1] * b[2] + b[1] * a[2], a[2] * b[2])
RSub(a, b)  == RNorm(a[1] * b[2] - b[1] * a[2], a[2] * b[2])
RMul(a, b)  == RNorm(a[1] * b[1], a[2] * b[2])
RDiv(a, b)  == RNorm(a[1] * b[2], a[2] * b[1])          \* b # 0
RNeg(a)     == <<-a[1], a[2]>>
RLe(a, b)   == a[1] * b[2] <= b[1] * a[2]
RLt(a, b)   == a[1] * b[2] <  b[1] * a[2]
REq(a, b)   == a[1] * b[2] =  b[1] * a[2]
RIsZero(a)  == a[1] = 0

---------------------------------------------------------------------------
\* Gaussian integers <<re, im>>
CZero == <<0, 0>>
COne  == <<1, 0>>
CI    == <<0, 1>>
CRe(x) == <<x, 0>>
CAdd(a, b) == <<a[1] + b[1], a[2] + b[2]>>
CSub(a, b) == <<a[1] - b[1], a[2] - b[2]>>
CMul(a, b) == <<a[1] * b[1] - a[2] * b[2], a[1] * b[2] + a[2] * b[1]>>
CNeg(a)    == <<-a[1], -a[2]>>
CConj(a)   == <<a[1], -a[2]>>
CNorm2(a)  == a[1] * a[1] + a[2] * a[2]
CIsZero(a) == a[1] = 0 /\ a[2] = 0

---------------------------------------------------------------------------
\* Perfect squares
RECURSIVE ISqrtFrom(_, _)
ISqrtFrom(n, r) == IF (r + 1) * (r + 1) > n THEN r ELSE ISqrtFrom(n, r + 1)
ISqrt(n)    == ISqrtFrom(n, 0)                          \* floor(sqrt(n)), n >= 0, small n
IsSquare(n) == n >= 0 /\ LET r == ISqrt(n) IN r * r = n

\* helper used by the dumps
BoolStr(b) == IF b THEN "T" ELSE "F"
=============================================================================
