------------------------------- MODULE LinAlg -------------------------------
(***************************************************************************)
(* Exact linear algebra on tuples of integers.  Vectors are sequences,     *)
(* matrices are sequences of rows.  Sizes 2..5 are written out (fast in    *)
(* TLC); the definitions by permutations (Leibniz, Levi-Civita) are kept   *)
(* separately so the written-out formulas can be model-checked against     *)
(* them.                                                                   *)
(***************************************************************************)
EXTENDS Exact, FiniteSetsExt


Zero(n)   == [i \in 1..n |-> 0]
IsZeroV(v) == \A i \in DOMAIN v : v[i] = 0
Unit(n, k) == [i \in 1..n |-> IF i = k THEN 1 ELSE 0]

VAdd(u, v)  == TLCEval([i \in DOMAIN u |-> u[i] + v[i]])
VSub(u, v)  == TLCEval([i \in DOMAIN u |-> u[i] - v[i]])
VScale(k, v) == TLCEval([i \in DOMAIN v |-> k * v[i]])
VNeg(v)     == TLCEval([i \in DOMAIN v |-> -v[i]])

RECURSIVE DotFrom(_, _, _)
DotFrom(u, v, i) == IF i > Len(u) THEN 0 ELSE u[i] * v[i] + DotFrom(u, v, i + 1)
Dot(u, v) ==
  CASE Len(u) = 1 -> u[1]*v[1]
    [] Len(u) = 2 -> u[1]*v[1] + u[2]*v[2]
    [] Len(u) = 3 -> u[1]*v[1] + u[2]*v[2] + u[3]*v[3]
    [] Len(u) = 4 -> u[1]*v[1] + u[2]*v[2] + u[3]*v[3] + u[4]*v[4]
    [] Len(u) = 5 -> u[1]*v[1] + u[2]*v[2] + u[3]*v[3] + u[4]*v[4] + u[5]*v[5]
    [] Len(u) = 6 -> u[1]*v[1] + u[2]*v[2] + u[3]*v[3] + u[4]*v[4] + u[5]*v[5] + u[6]*v[6]
    [] OTHER -> DotFrom(u, v, 1)

Norm2(v) == Dot(v, v)

Cross(u, v) == << u[2]*v[3] - u[3]*v[2], u[3]*v[1] - u[1]*v[3], u[1]*v[2] - u[2]*v[1] >>

\* gcd of the entries (0 for the zero vector)
RECURSIVE VGcdFrom(_, _, _)
VGcdFrom(v, i, g) == IF i > Len(v) THEN g ELSE VGcdFrom(v, i + 1, Gcd(g, v[i]))
VGcd(v) == VGcdFrom(v, 1, 0)

RECURSIVE FirstNZFrom(_, _)
FirstNZFrom(v, i) == IF i > Len(v) THEN 0 ELSE IF v[i] # 0 THEN i ELSE FirstNZFrom(v, i + 1)
FirstNZ(v) == FirstNZFrom(v, 1)                     \* index of first non-zero entry, 0 if none

\* canonical representative of the projective class of v: entries coprime, first non-zero positive
Primitive(v) ==
  LET g == VGcd(v) IN
  IF g = 0 THEN v
  ELSE LET s == Sign(v[FirstNZ(v)]) IN TLCEval([i \in DOMAIN v |-> Quot(s * v[i], g)])

\* u and v are scalar multiples of each other (both non-zero is NOT required: zero ~ anything)
Proportional(u, v) == \A i, j \in DOMAIN u : u[i] * v[j] = u[j] * v[i]
SameClass(u, v) == ~IsZeroV(u) /\ ~IsZeroV(v) /\ Proportional(u, v)

\* The lattice: all vectors of length n with entries in -K..K
Lattice(n, K) == [1..n -> (-K)..K]
NonZero(S) == {v \in S : ~IsZeroV(v)}
\* one representative per projective class
Classes(n, K) == {v \in NonZero(Lattice(n, K)) : v = Primitive(v)}

---------------------------------------------------------------------------
\* Matrices
Row(M, i) == M[i]
Col(M, j) == TLCEval([i \in DOMAIN M |-> M[i][j]])
Transpose(M) == TLCEval([j \in 1..Len(M[1]) |-> [i \in 1..Len(M) |-> M[i][j]]])
MatVec(M, v) == TLCEval([i \in DOMAIN M |-> Dot(M[i], v)])
VecMat(v, M) == TLCEval([j \in 1..Len(M[1]) |-> Dot(v, Col(M, j))])
MatMul(A, B) == LET Bt == Transpose(B) IN TLCEval([i \in DOMAIN A |-> [j \in DOMAIN Bt |-> Dot(A[i], Bt[j])]])
MatScale(k, M) == TLCEval([i \in DOMAIN M |-> [j \in DOMAIN M[i] |-> k * M[i][j]]])
MatAdd(A, B) == TLCEval([i \in DOMAIN A |-> [j \in DOMAIN A[i] |-> A[i][j] + B[i][j]]])
Ident(n) == [i \in 1..n |-> [j \in 1..n |-> IF i = j THEN 1 ELSE 0]]
Diag(d)  == [i \in DOMAIN d |-> [j \in DOMAIN d |-> IF i = j THEN d[i] ELSE 0]]
Outer(u, v) == TLCEval([i \in DOMAIN u |-> [j \in DOMAIN v |-> u[i] * v[j]]])
Flatten(M) == TLCEval([k \in 1..(Len(M) * Len(M[1])) |-> M[((k - 1) \div Len(M[1])) + 1][((k - 1) % Len(M[1])) + 1]])
IsSymmetric(M) == \A i, j \in DOMAIN M : M[i][j] = M[j][i]

\* delete row i and column j
Minor(M, i, j) ==
  LET n == Len(M) IN
  TLCEval([r \in 1..(n - 1) |-> [c \in 1..(n - 1) |->
      M[IF r < i THEN r ELSE r + 1][IF c < j THEN c ELSE c + 1]]])

Det2(M) == M[1][1]*M[2][2] - M[1][2]*M[2][1]
Det3(M) == M[1][1]*(M[2][2]*M[3][3] - M[2][3]*M[3][2])
         - M[1][2]*(M[2][1]*M[3][3] - M[2][3]*M[3][1])
         + M[1][3]*(M[2][1]*M[3][2] - M[2][2]*M[3][1])
Det4(M) == M[1][1]*Det3(Minor(M,1,1)) - M[1][2]*Det3(Minor(M,1,2))
         + M[1][3]*Det3(Minor(M,1,3)) - M[1][4]*Det3(Minor(M,1,4))
Det5(M) == M[1][1]*Det4(Minor(M,1,1)) - M[1][2]*Det4(Minor(M,1,2))
         + M[1][3]*Det4(Minor(M,1,3)) - M[1][4]*Det4(Minor(M,1,4))
         + M[1][5]*Det4(Minor(M,1,5))
Det(M) == CASE Len(M) = 1 -> M[1][1]
            [] Len(M) = 2 -> Det2(M)
            [] Len(M) = 3 -> Det3(M)
            [] Len(M) = 4 -> Det4(M)
            [] Len(M) = 5 -> Det5(M)

\* primitive representative of a matrix class (keeps the integers small along histories)
MatPrimitive(M) == LET n == Len(M) f == Primitive(Flatten(M)) IN TLCEval([i \in 1..n |-> [j \in 1..n |-> f[(i - 1) * n + j]]])

\* classical adjoint: Adj[i][j] = (-1)^(i+j) * det(minor(j, i))
Adj(M) == LET n == Len(M) IN
  TLCEval([i \in 1..n |-> [j \in 1..n |->
      (IF (i + j) % 2 = 0 THEN 1 ELSE -1) * Det(Minor(M, j, i))]])
\* cofactor matrix = Adj^T : the action of M on hyperplanes
Cof(M) == Transpose(Adj(M))

---------------------------------------------------------------------------
\* Permutations, sign, Levi-Civita and Leibniz determinant (definitions)
PermsOf(n) == {p \in [1..n -> 1..n] : \A i, j \in 1..n : i # j => p[i] # p[j]}
Inversions(p) == Cardinality({ij \in (DOMAIN p) \X (DOMAIN p) : ij[1] < ij[2] /\ p[ij[1]] > p[ij[2]]})
PermSign(p) == IF Inversions(p) % 2 = 0 THEN 1 ELSE -1
IsPerm(idx) == \A i, j \in DOMAIN idx : i # j => idx[i] # idx[j]
\* Levi-Civita symbol at the multi-index idx (entries in 1..n, Len(idx) = n)
Eps(idx) == IF IsPerm(idx) THEN PermSign(idx) ELSE 0

RECURSIVE ProdFrom(_, _, _)
ProdFrom(M, p, i) == IF i > Len(M) THEN 1 ELSE M[i][p[i]] * ProdFrom(M, p, i + 1)
DetLeibniz(M) == FoldSet(LAMBDA p, acc : acc + PermSign(p) * ProdFrom(M, p, 1), 0, PermsOf(Len(M)))

---------------------------------------------------------------------------
\* rank of a small matrix (rows) via minors: 0..3 for what the specs need
RowsProportional(M) == \A i, j \in DOMAIN M : Proportional(M[i], M[j])
RankLe1(M) == RowsProportional(M)
=============================================================================
