-------------------------------- MODULE Poly --------------------------------
(***************************************************************************)
(* Exact planar polygon geometry.  Vertices are integer Cartesian pairs    *)
(* <<x, y>>; query points are homogeneous <<x, y, w>> with w > 0 (finite)  *)
(* so that rational points (feet, intersections) can be asked about.       *)
(* Closed-region membership is declarative: on the boundary, or winding    *)
(* number non-zero.                                                        *)
(***************************************************************************)
EXTENDS Euclid

\* sign of (b - a) x (p - a) for integer a, b and homogeneous p with w > 0
Orient(a, b, p) == Sign((b[1] - a[1]) * (p[2] - a[2] * p[3]) - (b[2] - a[2]) * (p[1] - a[1] * p[3]))
Between(lo, hi, x, w) == Min2(lo, hi) * w <= x /\ x <= Max2(lo, hi) * w
OnSeg2(a, b, p) == Orient(a, b, p) = 0 /\ Between(a[1], b[1], p[1], p[3]) /\ Between(a[2], b[2], p[2], p[3])

\* closed segment with Cartesian integer endpoints a, b (any dimension); p homogeneous with w > 0
OnSegN(a, b, p) == LET w == W(p) u == VSub(b, a) v == VSub(AffPart(p), VScale(w, a)) IN
   /\ w > 0
   /\ Proportional(u, v) /\ (IsZeroV(v) \/ (0 <= Dot(u, v) /\ Dot(u, v) <= w * Norm2(u)))
OnSegN3(a, b, p) == OnSegN(a, b, p)

NextIdx(poly, i) == IF i = Len(poly) THEN 1 ELSE i + 1
OnBoundary2(poly, p) == \E i \in DOMAIN poly : OnSeg2(poly[i], poly[NextIdx(poly, i)], p)
\* winding number: upward crossings to the left of p minus downward crossings
EdgeWind(a, b, p) ==
  IF a[2] * p[3] <= p[2] /\ p[2] < b[2] * p[3] /\ Orient(a, b, p) > 0 THEN 1
  ELSE IF b[2] * p[3] <= p[2] /\ p[2] < a[2] * p[3] /\ Orient(a, b, p) < 0 THEN -1
  ELSE 0
RECURSIVE WindFrom(_, _, _)
WindFrom(poly, p, i) == IF i > Len(poly) THEN 0 ELSE EdgeWind(poly[i], poly[NextIdx(poly, i)], p) + WindFrom(poly, p, i + 1)
Winding(poly, p) == WindFrom(poly, p, 1)
\* crossing parity of the horizontal ray to the right (the textbook algorithm), for cross-checking
EdgeCross(a, b, p) ==
  IF (a[2] * p[3] > p[2]) # (b[2] * p[3] > p[2])
  THEN \* x-coordinate of the crossing is to the right of p  <=>  orientation sign agrees with the edge direction
       (IF b[2] > a[2] THEN Orient(a, b, p) > 0 ELSE Orient(a, b, p) < 0)
  ELSE FALSE
CrossParity(poly, p) == Cardinality({i \in DOMAIN poly : EdgeCross(poly[i], poly[NextIdx(poly, i)], p)}) % 2 = 1
InClosed2(poly, p) == OnBoundary2(poly, p) \/ Winding(poly, p) # 0

\* proper or improper intersection of two closed segments (integer endpoints)
H(a) == <<a[1], a[2], 1>>
SegsMeet(a, b, c, d) ==
  LET o1 == Orient(a, b, H(c)) o2 == Orient(a, b, H(d)) o3 == Orient(c, d, H(a)) o4 == Orient(c, d, H(b)) IN
  \/ (o1 * o2 < 0 /\ o3 * o4 < 0)
  \/ OnSeg2(a, b, H(c)) \/ OnSeg2(a, b, H(d)) \/ OnSeg2(c, d, H(a)) \/ OnSeg2(c, d, H(b))
\* simple: non-adjacent edges do not meet, adjacent edges meet only in their common vertex, no repeated vertex
IsSimple(poly) ==
  LET n == Len(poly) IN
  /\ \A i, j \in 1..n : i # j => poly[i] # poly[j]
  /\ \A i, j \in 1..n : (i < j /\ NextIdx(poly, i) # j /\ NextIdx(poly, j) # i) =>
        ~SegsMeet(poly[i], poly[NextIdx(poly, i)], poly[j], poly[NextIdx(poly, j)])
  /\ \A i \in 1..n : LET j == NextIdx(poly, i) k == NextIdx(poly, j) IN
        ~(OnSeg2(poly[i], poly[j], H(poly[k])) \/ OnSeg2(poly[j], poly[k], H(poly[i])))

\* twice the signed area (shoelace)
RECURSIVE ShoeFrom(_, _)
ShoeFrom(poly, i) == IF i > Len(poly) THEN 0
                     ELSE LET a == poly[i] b == poly[NextIdx(poly, i)] IN a[1] * b[2] - a[2] * b[1] + ShoeFrom(poly, i + 1)
Area2(poly) == ShoeFrom(poly, 1)

\* cyclic rotations and reversal of a vertex list
Rotate(poly, k) == [i \in 1..Len(poly) |-> poly[((i - 1 + k) % Len(poly)) + 1]]
RevSeq(poly) == [i \in 1..Len(poly) |-> poly[Len(poly) + 1 - i]]
SameCycle(p, q) == Len(p) = Len(q) /\ \E k \in 0..(Len(p) - 1) : Rotate(q, k) = p \/ Rotate(RevSeq(q), k) = p

\* a planar polygon of 3-space given by integer Cartesian vertices: drop the coordinate in which the normal is non-zero
Normal3(poly) == Cross(VSub(poly[2], poly[1]), VSub(poly[3], poly[1]))
DropIdx(n) == IF n[3] # 0 THEN 3 ELSE IF n[2] # 0 THEN 2 ELSE 1
Drop(v, k) == IF k = 1 THEN <<v[2], v[3]>> ELSE IF k = 2 THEN <<v[1], v[3]>> ELSE <<v[1], v[2]>>
DropH(p, k) == IF k = 1 THEN <<p[2], p[3], p[4]>> ELSE IF k = 2 THEN <<p[1], p[3], p[4]>> ELSE <<p[1], p[2], p[4]>>
PlaneOf3(poly) == LET n == Normal3(poly) IN n \o <<-Dot(n, poly[1])>>
\* p (homogeneous, w > 0) lies in the closed polygon of 3-space
InClosed3(poly, p) == LET n == Normal3(poly) k == DropIdx(n) IN
   /\ PointOnHyper(p, PlaneOf3(poly))
   /\ InClosed2([i \in DOMAIN poly |-> Drop(poly[i], k)], DropH(p, k))
=============================================================================
