------------------------------ MODULE Transform ------------------------------
(***************************************************************************)
(* Projective transformations as invertible integer matrices (up to scale) *)
(* and their action on every transformable kind of object:                 *)
(*   point, line (P^2), plane, line3, quadric, dualquadric,                *)
(*   segment / polygon (sequence of points, in order),                     *)
(*   polyhedron (sequence of faces).                                       *)
(* The inverse is represented by the adjugate (same class).                *)
(***************************************************************************)
EXTENDS Conics

ActAny(M, o) ==
  CASE o.k = "point" -> Obj("point", ActPoint(M, o.v))
    [] o.k \in {"line", "plane"} -> Obj(o.k, ActHyper(M, o.v))
    [] o.k = "line3" -> Obj("line3", ActLine3(M, o.v))
    [] o.k = "quadric" -> Obj("quadric", ActQuadric(M, o.v))
    [] o.k = "dualquadric" -> Obj("dualquadric", ActDualQuadric(M, o.v))
    [] o.k \in {"segment", "polygon"} -> Obj(o.k, [i \in DOMAIN o.v |-> ActPoint(M, o.v[i])])
    [] o.k = "polyhedron" -> Obj("polyhedron", [f \in DOMAIN o.v |-> [i \in DOMAIN o.v[f] |-> ActPoint(M, o.v[f][i])]])

\* equality of abstract objects: classes, vertex by vertex in order for polytopes
SameAny(a, b) ==
  /\ a.k = b.k
  /\ CASE a.k \in {"point", "line", "plane", "line3"} -> SameClass(a.v, b.v)
       [] a.k \in {"quadric", "dualquadric"} -> QuadricClassEq(a.v, b.v)
       [] a.k \in {"segment", "polygon"} -> Len(a.v) = Len(b.v) /\ \A i \in DOMAIN a.v : SameClass(a.v[i], b.v[i])
       [] a.k = "polyhedron" -> Len(a.v) = Len(b.v) /\ \A f \in DOMAIN a.v :
                                   Len(a.v[f]) = Len(b.v[f]) /\ \A i \in DOMAIN a.v[f] : SameClass(a.v[f][i], b.v[f][i])

CanonAny(o) ==
  CASE o.k \in {"point", "line", "plane", "line3"} -> Obj(o.k, Primitive(o.v))
    [] o.k \in {"quadric", "dualquadric"} ->
         LET n == Len(o.v) f == Primitive(Flatten(o.v)) IN Obj(o.k, [i \in 1..n |-> [j \in 1..n |-> f[(i - 1) * n + j]]])
    [] o.k \in {"segment", "polygon"} -> Obj(o.k, [i \in DOMAIN o.v |-> Primitive(o.v[i])])
    [] o.k = "polyhedron" -> Obj(o.k, [f \in DOMAIN o.v |-> [i \in DOMAIN o.v[f] |-> Primitive(o.v[f][i])]])

\* ---- pools of generating matrices (non-isometries dominate) ----------------------------
Pool2 == <<
  << <<1,0,1>>, <<0,1,2>>, <<0,0,1>> >>,        \* translation
  << <<1,1,0>>, <<0,1,0>>, <<0,0,1>> >>,        \* shear
  << <<2,0,0>>, <<0,-1,0>>, <<0,0,1>> >>,       \* scaling with a reflection (negative determinant)
  << <<0,-1,0>>, <<1,0,0>>, <<0,0,1>> >>,       \* rotation by 90 degrees
  << <<1,0,0>>, <<0,1,0>>, <<1,1,1>> >>,        \* genuinely projective (last row)
  << <<1,2,0>>, <<0,1,1>>, <<1,0,2>> >>,        \* generic, det 4
  << <<0,1,0>>, <<0,0,1>>, <<1,0,0>> >>,        \* coordinate permutation (moves the line at infinity)
  << <<-2,0,0>>, <<0,-2,0>>, <<0,0,-2>> >> >>   \* a multiple of the identity (same transformation)
Pool3 == <<
  << <<1,0,0,1>>, <<0,1,0,-1>>, <<0,0,1,2>>, <<0,0,0,1>> >>,
  << <<1,1,0,0>>, <<0,1,1,0>>, <<0,0,1,0>>, <<0,0,0,1>> >>,
  << <<2,0,0,0>>, <<0,-1,0,0>>, <<0,0,-2,0>>, <<0,0,0,1>> >>,
  << <<0,-1,0,0>>, <<1,0,0,0>>, <<0,0,1,0>>, <<0,0,0,1>> >>,
  << <<1,0,0,0>>, <<0,1,0,0>>, <<0,0,1,0>>, <<1,0,1,1>> >>,
  << <<1,2,0,0>>, <<0,1,1,0>>, <<1,0,2,1>>, <<0,1,0,1>> >>,
  << <<0,1,0,0>>, <<0,0,1,0>>, <<0,0,0,1>>, <<1,0,0,0>> >>,
  << <<3,0,0,0>>, <<0,3,0,0>>, <<0,0,3,0>>, <<0,0,0,3>> >> >>
\* transformations of the projective line (2 x 2)
Pool1 == <<
  << <<1,1>>, <<0,1>> >>,          \* translation
  << <<2,0>>, <<0,1>> >>,          \* scaling
  << <<0,1>>, <<1,0>> >>,          \* x -> 1/x (moves the point at infinity)
  << <<1,2>>, <<3,4>> >>,          \* generic, det -2
  << <<2,-1>>, <<1,1>> >>,         \* generic, det 3
  << <<-1,0>>, <<0,-1>> >>,        \* a multiple of the identity
  << <<1,0>>, <<1,1>> >>,          \* fixes 0, moves infinity
  << <<3,-2>>, <<-1,1>> >> >>      \* det 1
PoolOf(dim) == IF dim = 1 THEN Pool1 ELSE IF dim = 2 THEN Pool2 ELSE Pool3

RECURSIVE MatPow(_, _)
MatPow(M, k) == IF k = 0 THEN Ident(Len(M)) ELSE LET P == MatPow(M, k - 1) IN MatMul(M, P)     \* k >= 0
\* t ** k as a class: inverse (adjugate) for negative k
PowClass(M, k) == IF k >= 0 THEN MatPrimitive(MatPow(MatPrimitive(M), k)) ELSE MatPrimitive(MatPow(MatPrimitive(Adj(M)), -k))
=============================================================================
