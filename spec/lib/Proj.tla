-------------------------------- MODULE Proj --------------------------------
(***************************************************************************)
(* Projective geometry of P^2 and P^3 over the integers.                   *)
(*                                                                         *)
(* Objects are records [k |-> kind, v |-> integer vector]:                 *)
(*   "point"  : n+1 homogeneous coordinates                                *)
(*   "line"   : a line of P^2, 3 coordinates (a hyperplane)                *)
(*   "plane"  : a plane of P^3, 4 coordinates (a hyperplane)               *)
(*   "line3"  : a line of P^3, Pluecker vector (p01,p02,p03,p12,p13,p23)   *)
(*              of the POINT form  p_ij = a_i b_j - a_j b_i                *)
(* The value of an object is its projective class; Canon() picks the       *)
(* primitive representative.                                               *)
(***************************************************************************)
EXTENDS LinAlg

Obj(k, v) == [k |-> k, v |-> v]
Canon(o)  == [k |-> o.k, v |-> Primitive(o.v)]
IsNull(o) == IsZeroV(o.v)
SameObj(a, b) == a.k = b.k /\ SameClass(a.v, b.v)

---------------------------------------------------------------------------
\* Pluecker coordinates
PlueckerOfPoints(a, b) ==
  << a[1]*b[2] - a[2]*b[1], a[1]*b[3] - a[3]*b[1], a[1]*b[4] - a[4]*b[1],
     a[2]*b[3] - a[3]*b[2], a[2]*b[4] - a[4]*b[2], a[3]*b[4] - a[4]*b[3] >>
\* Hodge dual on Pluecker vectors: plane-form (q01..q23) <-> point-form
PlueckerDual(q) == << q[6], -q[5], q[4], q[3], -q[2], q[1] >>
PlueckerOfPlanes(e, f) == PlueckerDual(PlueckerOfPoints(e, f))
\* Klein quadric: the vector is a line iff this vanishes
Klein(p) == p[1]*p[6] - p[2]*p[5] + p[3]*p[4]
\* antisymmetric 4x4 matrix with entries p_ij  (point form: spanned by the line's points)
PMat(p) == << <<    0,  p[1],  p[2],  p[3] >>,
              << -p[1],    0,  p[4],  p[5] >>,
              << -p[2], -p[4],    0,  p[6] >>,
              << -p[3], -p[5], -p[6],    0 >> >>
\* dual matrix: its rows are planes through the line
PMatDual(p) == PMat(PlueckerDual(p))
\* the two lines are coplanar (meet) iff this vanishes
LineLine(p, q) == p[1]*q[6] - p[2]*q[5] + p[3]*q[4] + p[4]*q[3] - p[5]*q[2] + p[6]*q[1]

---------------------------------------------------------------------------
\* Incidence (symmetric in kind order)
PointOnHyper(p, h)  == Dot(p, h) = 0
PointOnLine3(p, l)  == IsZeroV(MatVec(PMatDual(l), p))
Line3InPlane(l, e)  == IsZeroV(MatVec(PMat(l), e))

Incident(a, b) ==
  CASE a.k = "point" /\ b.k \in {"line", "plane"} -> PointOnHyper(a.v, b.v)
    [] b.k = "point" /\ a.k \in {"line", "plane"} -> PointOnHyper(b.v, a.v)
    [] a.k = "point" /\ b.k = "line3" -> PointOnLine3(a.v, b.v)
    [] b.k = "point" /\ a.k = "line3" -> PointOnLine3(b.v, a.v)
    [] a.k = "line3" /\ b.k = "plane" -> Line3InPlane(a.v, b.v)
    [] b.k = "line3" /\ a.k = "plane" -> Line3InPlane(b.v, a.v)
    [] a.k = "point" /\ b.k = "point" -> SameClass(a.v, b.v)
    [] a.k = b.k -> SameClass(a.v, b.v)
    [] OTHER -> FALSE

---------------------------------------------------------------------------
\* Constructive join and meet (raw, un-normalised; the zero vector signals dependence)
\* P^2
Join2PP(p, q) == Cross(p, q)
Meet2LL(l, m) == Cross(l, m)
\* P^3
Join3PP(p, q) == PlueckerOfPoints(p, q)
Meet3EE(e, f) == PlueckerOfPlanes(e, f)
\* plane through three points: e_i = eps_ijkl a_j b_k c_l
Join3PPP(a, b, c) ==
  << Det3(<< <<a[2],a[3],a[4]>>, <<b[2],b[3],b[4]>>, <<c[2],c[3],c[4]>> >>),
    -Det3(<< <<a[1],a[3],a[4]>>, <<b[1],b[3],b[4]>>, <<c[1],c[3],c[4]>> >>),
     Det3(<< <<a[1],a[2],a[4]>>, <<b[1],b[2],b[4]>>, <<c[1],c[2],c[4]>> >>),
    -Det3(<< <<a[1],a[2],a[3]>>, <<b[1],b[2],b[3]>>, <<c[1],c[2],c[3]>> >>) >>
Meet3EEE(e, f, g) == Join3PPP(e, f, g)
\* plane through a line and a point; point of a line and a plane
Join3LP(l, p) == MatVec(PMatDual(l), p)
Meet3LE(l, e) == MatVec(PMat(l), e)

\* first non-zero vector of a sequence of vectors (zero vector if none)
RECURSIVE FirstNonZeroVec(_, _)
FirstNonZeroVec(vs, i) == IF i > Len(vs) THEN vs[1]
                          ELSE IF ~IsZeroV(vs[i]) THEN vs[i] ELSE FirstNonZeroVec(vs, i + 1)
\* two coplanar lines: common point = (point matrix of l) applied to any plane through m not through l;
\* common plane = (dual matrix of l) applied to any point of m not on l      (Blinn, "Lines in space")
Meet3LL(l, m) == FirstNonZeroVec([i \in 1..4 |-> MatVec(PMat(l), PMatDual(m)[i])], 1)
Join3LL(l, m) == FirstNonZeroVec([i \in 1..4 |-> MatVec(PMatDual(l), PMat(m)[i])], 1)

---------------------------------------------------------------------------
\* lines of P^3 through two lattice points, canonical Pluecker vectors
Lines3(K) == {Primitive(PlueckerOfPoints(a, b)) : a \in Classes(4, K), b \in Classes(4, K)} \ {Zero(6)}

---------------------------------------------------------------------------
\* Action of a matrix M (n+1 x n+1, invertible, integer) on each kind.
\* Points move by M, hyperplanes by the cofactor matrix (M^-T up to scale).
ActPoint(M, p) == MatVec(M, p)
ActHyper(M, h) == MatVec(MatPrimitive(Cof(M)), h)
ActLine3(M, l) == LET a == PMat(l) IN     \* rows of PMat span the line's points: map two independent ones
  LET rows == [i \in 1..4 |-> MatVec(M, a[i])]
      c == [ij \in {<<1,2>>,<<1,3>>,<<1,4>>,<<2,3>>,<<2,4>>,<<3,4>>} |-> PlueckerOfPoints(rows[ij[1]], rows[ij[2]])]
  IN FirstNonZeroVec(<<c[<<1,2>>], c[<<1,3>>], c[<<1,4>>], c[<<2,3>>], c[<<2,4>>], c[<<3,4>>]>>, 1)
\* quadric  x^T Q x = 0  ->  y^T (M^-T Q M^-1) y = 0 ; with adjugates to stay in the integers
ActQuadric(M, Q) == LET A == MatPrimitive(Adj(M)) B == MatMul(Transpose(A), Q) IN MatMul(B, A)
ActDualQuadric(M, Q) == LET B == MatMul(M, Q) IN MatMul(B, Transpose(M))

Act(M, o) ==
  CASE o.k = "point" -> Obj("point", ActPoint(M, o.v))
    [] o.k \in {"line", "plane"} -> Obj(o.k, ActHyper(M, o.v))
    [] o.k = "line3" -> Obj("line3", ActLine3(M, o.v))
=============================================================================
