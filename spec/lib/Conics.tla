------------------------------- MODULE Conics -------------------------------
(***************************************************************************)
(* Quadrics of P^2 / P^3 as symmetric integer matrices (up to scale).       *)
(***************************************************************************)
EXTENDS Proj

QForm(Q, x, y) == Dot(x, MatVec(Q, y))               \* x^T Q y
OnQuadric(Q, p) == QForm(Q, p, p) = 0
Polar(Q, p) == MatVec(Q, p)                           \* hyperplane
DualOf(Q) == Adj(Q)                                   \* tangent hyperplanes h: h^T Adj(Q) h = 0  (Q non-degenerate)
TangentTo(Q, h) == QForm(Adj(Q), h, h) = 0            \* for det(Q) # 0
SymOuter(g, h) == MatAdd(Outer(g, h), Outer(h, g))    \* degenerate quadric consisting of the hyperplanes g, h
IsDegenerate(Q) == Det(Q) = 0
QuadricClassEq(A, B) == SameClass(Flatten(A), Flatten(B))

\* conic through five points (bracket formula), symmetrised
ConicThrough5(a, b, c, d, e) ==
  LET ace == Det3(<<a, c, e>>) bde == Det3(<<b, d, e>>) ade == Det3(<<a, d, e>>) bce == Det3(<<b, c, e>>)
      M == MatAdd(MatScale(ace * bde, Outer(Cross(a, d), Cross(b, c))), MatScale(-(ade * bce), Outer(Cross(a, c), Cross(b, d))))
  IN MatAdd(M, Transpose(M))

\* circle / sphere with integer centre c (affine coordinates, length n) and squared radius r2 :  |x - c|^2 = r2
SphereM(c, r2) ==
  LET n == Len(c) IN
  [i \in 1..(n + 1) |-> [j \in 1..(n + 1) |->
      IF i <= n /\ j <= n THEN (IF i = j THEN 1 ELSE 0)
      ELSE IF i = n + 1 /\ j = n + 1 THEN Dot(c, c) - r2
      ELSE IF i = n + 1 THEN -c[j] ELSE -c[i]]]
=============================================================================
