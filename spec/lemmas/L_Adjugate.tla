------------------------------ MODULE L_Adjugate ------------------------------
(***************************************************************************)
(* A adj(A) = det(A) I for every integer 3 x 3 matrix (C20: adjugate/inv;  *)
(* LinAlg.tla: Adj, Det3), and the Pluecker three-term relation            *)
(* [ac][bd] = [ab][cd] + [ad][bc] behind cr(a,b,c,d) = 1 - cr(a,c,b,d)     *)
(* (C11_CrossRatio.tla: CR, Br).                                           *)
(***************************************************************************)
EXTENDS Integers
VARIABLES
  \* @type: Int;
  a,
  \* @type: Int;
  b,
  \* @type: Int;
  c,
  \* @type: Int;
  d,
  \* @type: Int;
  e,
  \* @type: Int;
  f,
  \* @type: Int;
  g,
  \* @type: Int;
  h,
  \* @type: Int;
  i
Init == a \in Int /\ b \in Int /\ c \in Int /\ d \in Int /\ e \in Int /\ f \in Int /\ g \in Int /\ h \in Int /\ i \in Int
Next == UNCHANGED <<a, b, c, d, e, f, g, h, i>>
Det == a * (e * i - f * h) - b * (d * i - f * g) + c * (d * h - e * g)
\* adjugate = transposed cofactors
J11 == e * i - f * h
J12 == c * h - b * i
J13 == b * f - c * e
J21 == f * g - d * i
J22 == a * i - c * g
J23 == c * d - a * f
J31 == d * h - e * g
J32 == b * g - a * h
J33 == a * e - b * d
AdjugateLaw ==
  /\ a * J11 + b * J21 + c * J31 = Det /\ a * J12 + b * J22 + c * J32 = 0 /\ a * J13 + b * J23 + c * J33 = 0
  /\ d * J11 + e * J21 + f * J31 = 0 /\ d * J12 + e * J22 + f * J32 = Det /\ d * J13 + e * J23 + f * J33 = 0
  /\ g * J11 + h * J21 + i * J31 = 0 /\ g * J12 + h * J22 + i * J32 = 0 /\ g * J13 + h * J23 + i * J33 = Det
\* four points of the projective line (a,b), (c,d), (e,f), (g,h); Br(x, y) = x1 y2 - y1 x2
Br(x1, x2, y1, y2) == x1 * y2 - y1 * x2
ThreeTerm == Br(a, b, e, f) * Br(c, d, g, h) = Br(a, b, c, d) * Br(e, f, g, h) + Br(a, b, g, h) * Br(c, d, e, f)
Falsified == a * J11 + b * J21 + c * J31 = 0
=============================================================================
