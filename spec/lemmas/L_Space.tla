------------------------------- MODULE L_Space -------------------------------
(***************************************************************************)
(* Lifted to all integers: the plane spanned by three points of P^3        *)
(* (Proj.tla: Join3PPP, signed 3 x 3 minors) is incident with each of      *)
(* them - dually, the meet of three planes lies in each - and the Pluecker *)
(* coordinates of the join of two points satisfy the Klein relation        *)
(* p12 p34 - p13 p24 + p14 p23 = 0 (PlueckerOfPoints yields a line).       *)
(***************************************************************************)
EXTENDS Integers
VARIABLES
  \* @type: Int;
  a1,
  \* @type: Int;
  a2,
  \* @type: Int;
  a3,
  \* @type: Int;
  a4,
  \* @type: Int;
  b1,
  \* @type: Int;
  b2,
  \* @type: Int;
  b3,
  \* @type: Int;
  b4,
  \* @type: Int;
  c1,
  \* @type: Int;
  c2,
  \* @type: Int;
  c3,
  \* @type: Int;
  c4
Init == a1 \in Int /\ a2 \in Int /\ a3 \in Int /\ a4 \in Int /\ b1 \in Int /\ b2 \in Int /\ b3 \in Int /\ b4 \in Int /\ c1 \in Int /\ c2 \in Int /\ c3 \in Int /\ c4 \in Int
Next == UNCHANGED <<a1, a2, a3, a4, b1, b2, b3, b4, c1, c2, c3, c4>>
E1 == (a2 * (b3 * c4 - b4 * c3) - a3 * (b2 * c4 - b4 * c2) + a4 * (b2 * c3 - b3 * c2))
E2 == (0 - (a1 * (b3 * c4 - b4 * c3) - a3 * (b1 * c4 - b4 * c1) + a4 * (b1 * c3 - b3 * c1)))
E3 == (a1 * (b2 * c4 - b4 * c2) - a2 * (b1 * c4 - b4 * c1) + a4 * (b1 * c2 - b2 * c1))
E4 == (0 - (a1 * (b2 * c3 - b3 * c2) - a2 * (b1 * c3 - b3 * c1) + a3 * (b1 * c2 - b2 * c1)))
PlaneIncident == /\ E1 * a1 + E2 * a2 + E3 * a3 + E4 * a4 = 0
                 /\ E1 * b1 + E2 * b2 + E3 * b3 + E4 * b4 = 0
                 /\ E1 * c1 + E2 * c2 + E3 * c3 + E4 * c4 = 0
P12 == a1 * b2 - a2 * b1
P13 == a1 * b3 - a3 * b1
P14 == a1 * b4 - a4 * b1
P23 == a2 * b3 - a3 * b2
P24 == a2 * b4 - a4 * b2
P34 == a3 * b4 - a4 * b3
Klein == P12 * P34 - P13 * P24 + P14 * P23 = 0
\* the point a + b lies on the line ab (the incidence relation PointOnLine3 of Proj.tla: all four 3 x 3 minors vanish)
OnLine == LET s1 == a1 + b1 s2 == a2 + b2 s3 == a3 + b3 s4 == a4 + b4 IN
          /\ P12 * s3 - P13 * s2 + P23 * s1 = 0 /\ P12 * s4 - P14 * s2 + P24 * s1 = 0
          /\ P13 * s4 - P14 * s3 + P34 * s1 = 0 /\ P23 * s4 - P24 * s3 + P34 * s2 = 0
Falsified == E1 * a1 + E2 * a2 + E3 * a3 - E4 * a4 = 0
=============================================================================
