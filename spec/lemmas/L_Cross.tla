------------------------------- MODULE L_Cross -------------------------------
(***************************************************************************)
(* Lemma lifted from the lattice to ALL integers with Apalache (length 0,  *)
(* the variables range over Int): the cross product of two 3-vectors is    *)
(* orthogonal to both, i.e. join(p, q) is incident with p and q and        *)
(* meet(l, m) lies on l and m (Proj.tla: Join2PP, Meet2LL; LinAlg: Cross). *)
(* A matrix commutes with join when lines move by the cofactor matrix:     *)
(* (Mp) x (Mq) = Cof(M) (p x q)   (C07: images of joins).                  *)
(***************************************************************************)
EXTENDS Integers
VARIABLES
  \* @type: Int;
  p1,
  \* @type: Int;
  p2,
  \* @type: Int;
  p3,
  \* @type: Int;
  q1,
  \* @type: Int;
  q2,
  \* @type: Int;
  q3,
  \* @type: Int;
  a, 
  \* @type: Int;
  b,
  \* @type: Int;
  c,
  \* @type: Int;
  d,
  \* @type: Int;
  e,
  \* @type: Int;
  f,
  \* @type: Int;
  g,
  \* @type: Int;
  h,
  \* @type: Int;
  i
Init == /\ p1 \in Int /\ p2 \in Int /\ p3 \in Int /\ q1 \in Int /\ q2 \in Int /\ q3 \in Int
        /\ a \in Int /\ b \in Int /\ c \in Int /\ d \in Int /\ e \in Int /\ f \in Int /\ g \in Int /\ h \in Int /\ i \in Int
Next == UNCHANGED <<p1, p2, p3, q1, q2, q3, a, b, c, d, e, f, g, h, i>>
C1 == p2 * q3 - p3 * q2
C2 == p3 * q1 - p1 * q3
C3 == p1 * q2 - p2 * q1
Incident == C1 * p1 + C2 * p2 + C3 * p3 = 0 /\ C1 * q1 + C2 * q2 + C3 * q3 = 0
\* M = [[a,b,c],[d,e,f],[g,h,i]]
Mp1 == a * p1 + b * p2 + c * p3
Mp2 == d * p1 + e * p2 + f * p3
Mp3 == g * p1 + h * p2 + i * p3
Mq1 == a * q1 + b * q2 + c * q3
Mq2 == d * q1 + e * q2 + f * q3
Mq3 == g * q1 + h * q2 + i * q3
\* cofactor matrix of M
K11 == e * i - f * h
K12 == f * g - d * i
K13 == d * h - e * g
K21 == c * h - b * i
K22 == a * i - c * g
K23 == b * g - a * h
K31 == b * f - c * e
K32 == c * d - a * f
K33 == a * e - b * d
Cofactor == /\ Mp2 * Mq3 - Mp3 * Mq2 = K11 * C1 + K12 * C2 + K13 * C3
            /\ Mp3 * Mq1 - Mp1 * Mq3 = K21 * C1 + K22 * C2 + K23 * C3
            /\ Mp1 * Mq2 - Mp2 * Mq1 = K31 * C1 + K32 * C2 + K33 * C3
\* a deliberately false variant: must be refuted (shows that the lifting is not vacuous)
Falsified == C1 * p1 + C2 * p2 - C3 * p3 = 0
=============================================================================
