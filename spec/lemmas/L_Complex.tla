------------------------------ MODULE L_Complex ------------------------------
(***************************************************************************)
(* Lifted to all Gaussian integers: the complex cross product computed by  *)
(* C01_Complex.tla from the integer operator (BiRe, BiIm) pairs to zero    *)
(* with both arguments under the bilinear (not conjugated) pairing.        *)
(***************************************************************************)
EXTENDS Integers
VARIABLES
  \* @type: Int;
  ar1,
  \* @type: Int;
  ar2,
  \* @type: Int;
  ar3,
  \* @type: Int;
  ai1,
  \* @type: Int;
  ai2,
  \* @type: Int;
  ai3,
  \* @type: Int;
  br1,
  \* @type: Int;
  br2,
  \* @type: Int;
  br3,
  \* @type: Int;
  bi1,
  \* @type: Int;
  bi2,
  \* @type: Int;
  bi3
Init == ar1 \in Int /\ ar2 \in Int /\ ar3 \in Int /\ ai1 \in Int /\ ai2 \in Int /\ ai3 \in Int /\ br1 \in Int /\ br2 \in Int /\ br3 \in Int /\ bi1 \in Int /\ bi2 \in Int /\ bi3 \in Int
Next == UNCHANGED <<ar1, ar2, ar3, ai1, ai2, ai3, br1, br2, br3, bi1, bi2, bi3>>
\* <R + iI, ar + i ai> = (R.ar - I.ai) + i (R.ai + I.ar)
Incident == /\ (((ar2 * br3 - ar3 * br2) - (ai2 * bi3 - ai3 * bi2)) * ar1 + ((ar3 * br1 - ar1 * br3) - (ai3 * bi1 - ai1 * bi3)) * ar2 + ((ar1 * br2 - ar2 * br1) - (ai1 * bi2 - ai2 * bi1)) * ar3) - (((ar2 * bi3 - ar3 * bi2) + (ai2 * br3 - ai3 * br2)) * ai1 + ((ar3 * bi1 - ar1 * bi3) + (ai3 * br1 - ai1 * br3)) * ai2 + ((ar1 * bi2 - ar2 * bi1) + (ai1 * br2 - ai2 * br1)) * ai3) = 0
            /\ (((ar2 * br3 - ar3 * br2) - (ai2 * bi3 - ai3 * bi2)) * ai1 + ((ar3 * br1 - ar1 * br3) - (ai3 * bi1 - ai1 * bi3)) * ai2 + ((ar1 * br2 - ar2 * br1) - (ai1 * bi2 - ai2 * bi1)) * ai3) + (((ar2 * bi3 - ar3 * bi2) + (ai2 * br3 - ai3 * br2)) * ar1 + ((ar3 * bi1 - ar1 * bi3) + (ai3 * br1 - ai1 * br3)) * ar2 + ((ar1 * bi2 - ar2 * bi1) + (ai1 * br2 - ai2 * br1)) * ar3) = 0
            /\ (((ar2 * br3 - ar3 * br2) - (ai2 * bi3 - ai3 * bi2)) * br1 + ((ar3 * br1 - ar1 * br3) - (ai3 * bi1 - ai1 * bi3)) * br2 + ((ar1 * br2 - ar2 * br1) - (ai1 * bi2 - ai2 * bi1)) * br3) - (((ar2 * bi3 - ar3 * bi2) + (ai2 * br3 - ai3 * br2)) * bi1 + ((ar3 * bi1 - ar1 * bi3) + (ai3 * br1 - ai1 * br3)) * bi2 + ((ar1 * bi2 - ar2 * bi1) + (ai1 * br2 - ai2 * br1)) * bi3) = 0
            /\ (((ar2 * br3 - ar3 * br2) - (ai2 * bi3 - ai3 * bi2)) * bi1 + ((ar3 * br1 - ar1 * br3) - (ai3 * bi1 - ai1 * bi3)) * bi2 + ((ar1 * br2 - ar2 * br1) - (ai1 * bi2 - ai2 * bi1)) * bi3) + (((ar2 * bi3 - ar3 * bi2) + (ai2 * br3 - ai3 * br2)) * br1 + ((ar3 * bi1 - ar1 * bi3) + (ai3 * br1 - ai1 * br3)) * br2 + ((ar1 * bi2 - ar2 * bi1) + (ai1 * br2 - ai2 * br1)) * br3) = 0
\* with a conjugated pairing it is false: must be refuted
Falsified == (((ar2 * br3 - ar3 * br2) - (ai2 * bi3 - ai3 * bi2)) * ar1 + ((ar3 * br1 - ar1 * br3) - (ai3 * bi1 - ai1 * bi3)) * ar2 + ((ar1 * br2 - ar2 * br1) - (ai1 * bi2 - ai2 * bi1)) * ar3) + (((ar2 * bi3 - ar3 * bi2) + (ai2 * br3 - ai3 * br2)) * ai1 + ((ar3 * bi1 - ar1 * bi3) + (ai3 * br1 - ai1 * br3)) * ai2 + ((ar1 * bi2 - ar2 * bi1) + (ai1 * br2 - ai2 * br1)) * ai3) = 0
=============================================================================
