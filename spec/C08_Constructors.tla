--------------------------- MODULE C08_Constructors ---------------------------
(***************************************************************************)
(* C08: translation / rotation / scaling / reflection / affine_transform / *)
(* from_points / from_points_and_conics realise their definition.          *)
(* Constructive: exact integer matrices (up to scale).  Declarative: the   *)
(* Euclidean / projective definition evaluated on lattice points:          *)
(*   translation adds; rotations are isometries with positive determinant  *)
(*   that fix the axis, have trace 1 + 2 cos and compose additively;       *)
(*   a reflection fixes its mirror pointwise, is an involution and maps    *)
(*   every point to its mirror image; from_points maps each source point   *)
(*   to its target.                                                        *)
(* The handedness of rotation(a, axis) is not fixed by the property: both  *)
(* candidates are emitted and the harness requires ONE consistent choice.  *)
(***************************************************************************)
EXTENDS Euclid, Json, SequencesExt

CONSTANTS Tasks, Stride, Seed, DoDump
VARIABLES pc, task, arg, res
vars == <<pc, task, arg, res>>

VHash(v) == 100003 + Dot(v, SubSeq(<<1, 5, 7, 11, 13, 17, 19, 23>>, 1, Len(v)))
Keep(v, s) == VHash(v) % s = Seed % s

Offsets2 == Lattice(2, 2)
Offsets3 == {v \in Lattice(3, 2) : Keep(v, 3)}
TestPts(d) == {Homog(x, w) : x \in Lattice(d, 1), w \in {1, 2}}
Hyper2 == {h \in NonZero(Lattice(3, 2)) : ~IsZeroV(NormalOf(h))}
Hyper3 == {h \in NonZero(Lattice(4, 1)) : ~IsZeroV(NormalOf(h))} \cup {<<1, 2, -2, 3>>, <<0, 2, 1, -2>>, <<2, -1, 0, 2>>}
ScaleVecs(d) == [1..d -> {-2, -1, 2, 3}]
\* frames: 4 points of P^2 no three collinear (from class representatives K = 1)
GenPos2(a) == \A i, j, k \in 1..4 : (i < j /\ j < k) => Det3(<<a[i], a[j], a[k]>>) # 0
Frames2 == {a \in [1..4 -> Classes(3, 1)] : GenPos2(a) /\ Keep(a[2], Stride) /\ Keep(a[3], 2)}
GenPos3(a) == \A i \in 1..5 : Det4(SelectSeq(a, LAMBDA x : x # a[i])) # 0
Frame3Pool == {<<1,0,0,1>>, <<0,1,0,1>>, <<0,0,1,1>>, <<0,0,0,1>>, <<1,1,1,1>>, <<1,1,0,0>>, <<1,-1,1,1>>, <<0,1,1,0>>, <<-1,0,1,1>>}
Frames3 == {a \in [1..5 -> Frame3Pool] : (\A i, j \in 1..5 : i # j => a[i] # a[j]) /\ GenPos3(a) /\ Keep(a[2], Stride) /\ Keep(a[4], 3)}

Init == pc = "start" /\ task \in Tasks /\ arg = <<>> /\ res = [t |-> "none"]

Choose ==
  /\ pc = "start" /\ pc' = "chosen" /\ UNCHANGED <<task, res>>
  /\ \/ task = "translation" /\ \E d \in {2, 3} : arg' = <<d>>
     \/ task = "rotation2" /\ \E a \in PythAngles : arg' = a
     \/ task = "rotation3" /\ \E a \in PythAngles : arg' = a
     \/ task = "scaling" /\ \E d \in {2, 3} : arg' = <<d>>
     \/ task = "reflection" /\ \E d \in {2, 3} : arg' = <<d>>
     \/ task = "from_points2" /\ \E i \in DOMAIN Pool2 : arg' = <<i>>
     \/ task = "from_points3" /\ \E i \in DOMAIN Pool3 : arg' = <<i>>
     \/ task = "conics" /\ \E i \in DOMAIN Pool2 : arg' = <<i>>

Images(M, d) == LET ps == SetToSeq(TestPts(d)) IN [i \in 1..Len(ps) |-> <<ps[i], Primitive(MatVec(M, ps[i]))>>]
ImagesOf(M, ps) == [i \in 1..Len(ps) |-> <<ps[i], Primitive(MatVec(M, ps[i]))>>]

Hyp == << <<0,1,0>>, <<1,0,0>>, <<0,0,-2>> >>        \* x y = w^2
Par == << <<2,0,0>>, <<0,0,-1>>, <<0,-1,0>> >>       \* x^2 = y w
\* conics with three lattice points on them (for from_points_and_conics)
ConicPts == { <<SphereM(<<0, 0>>, 25), << <<3,4,1>>, <<-4,3,1>>, <<5,0,1>> >> >>,
              <<SphereM(<<1, 2>>, 4),  << <<3,2,1>>, <<1,4,1>>, <<-1,2,1>> >> >>,
              << << <<0,0,-1>>, <<0,2,0>>, <<-1,0,0>> >>, << <<0,0,1>>, <<1,1,1>>, <<4,-2,1>> >> >>,
              \* the hyperbola x y = 1 and the parabola y = x^2 with one of the three points at infinity, in every position
              << Hyp, << <<1,1,1>>, <<4,1,2>>, <<1,0,0>> >> >>, << Hyp, << <<1,0,0>>, <<1,1,1>>, <<-1,-1,1>> >> >>,
              << Hyp, << <<1,4,2>>, <<0,1,0>>, <<-1,-4,2>> >> >>, << Hyp, << <<1,0,0>>, <<0,1,0>>, <<1,1,1>> >> >>,
              << Par, << <<0,0,1>>, <<1,1,1>>, <<0,1,0>> >> >>, << Par, << <<0,1,0>>, <<2,4,1>>, <<-1,1,1>> >> >>,
              << Par, << <<1,1,1>>, <<0,1,0>>, <<-2,4,1>> >> >> }
ASSUME \A cp \in ConicPts : \A i \in 1..3 : OnQuadric(cp[1], cp[2][i])

Compute ==
  /\ pc = "chosen" /\ pc' = "done" /\ UNCHANGED <<task, arg>>
  /\ \/ /\ task = "translation"
        /\ \E v \in (IF arg[1] = 2 THEN Offsets2 ELSE Offsets3) :
             res' = [t |-> "translation", d |-> arg[1], v |-> v, M |-> TranslationM(v), img |-> Images(TranslationM(v), arg[1])]
     \/ /\ task = "rotation2"
        /\ \E k \in {-1, 0, 1} :
             res' = [t |-> "rotation2", a |-> arg, k |-> k, M |-> Rot2(arg), img |-> Images(Rot2(arg), 2)]
     \/ /\ task = "rotation3"
        /\ \E ax \in Axes :
             res' = [t |-> "rotation3", a |-> arg, u |-> ax[1], m |-> ax[2],
                     Mp |-> MatPrimitive(Rot3(ax[1], ax[2], arg, 1)), Mm |-> MatPrimitive(Rot3(ax[1], ax[2], arg, -1))]
     \/ /\ task = "scaling"
        /\ \E f \in ScaleVecs(arg[1]) : res' = [t |-> "scaling", d |-> arg[1], f |-> f, M |-> ScalingM(f)]
     \/ /\ task = "reflection"
        /\ \E h \in (IF arg[1] = 2 THEN Hyper2 ELSE Hyper3) :
             res' = [t |-> "reflection", d |-> arg[1], h |-> h, M |-> MatPrimitive(ReflectionM(h)),
                     img |-> LET ps == SetToSeq({p \in TestPts(arg[1]) : Keep(p, 2)}) IN
                             [i \in 1..Len(ps) |-> <<ps[i], Primitive(MirrorPH(ps[i], h))>>]]
     \/ /\ task = "from_points2"
        /\ \E a \in Frames2 :
             LET T == Pool2[arg[1]] b == [i \in 1..4 |-> MatVec(T, a[i])] IN
             res' = [t |-> "from_points", d |-> 2, a |-> a, b |-> b, M |-> FromPointsM(a, b), T |-> MatPrimitive(T)]
     \/ /\ task = "from_points3"
        /\ \E a \in Frames3 :
             LET T == Pool3[arg[1]] b == [i \in 1..5 |-> MatVec(T, a[i])] IN
             res' = [t |-> "from_points", d |-> 3, a |-> a, b |-> b, M |-> FromPointsM(a, b), T |-> MatPrimitive(T)]
     \/ /\ task = "conics"
        /\ \E cp \in ConicPts :
             LET T == Pool2[arg[1]] IN
             res' = [t |-> "conics", c1 |-> cp[1], p1 |-> cp[2], c2 |-> CanonAny(Obj("quadric", ActQuadric(T, cp[1]))).v,
                     p2 |-> [i \in 1..3 |-> MatVec(T, cp[2][i])], M |-> MatPrimitive(T)]

Next == Choose \/ Compute
Spec == Init /\ [][Next]_vars

\* ---------------------------------------------------------------------------
\* Declarative layer
Done == pc = "done"
TranslationAdds == (Done /\ res.t = "translation") =>
   \A i \in DOMAIN res.img : LET p == res.img[i][1] q == res.img[i][2] IN
       SameClass(q, Homog(VAdd(AffPart(p), VScale(W(p), res.v)), W(p)))
Rotation2Def == (Done /\ res.t = "rotation2") =>
   /\ IsIsometryM(res.M) /\ Det(res.M) > 0
   /\ MatVec(res.M, <<0, 0, 1>>) = <<0, 0, res.a[3]>>                                  \* fixes the origin
   /\ MatVec(res.M, <<1, 0, 1>>) = <<res.a[1], res.a[2], res.a[3]>>                    \* (1,0) -> (cos, sin): counter-clockwise
   /\ \A b \in PythAngles : MatMul(Rot2(res.a), Rot2(b)) = Rot2(AngleAdd(res.a, b))    \* rotation(a) rotation(b) = rotation(a+b)
Rotation3Def == (Done /\ res.t = "rotation3") =>
   \A R \in {res.Mp, res.Mm} :
     /\ IsIsometryM(R) /\ Sign(Det3([i \in 1..3 |-> [j \in 1..3 |-> R[i][j]]])) = Sign(R[4][4])
     /\ SameClass(MatVec(R, Homog(res.u, 1)), Homog(res.u, 1))                          \* fixes the axis
     /\ (R[1][1] + R[2][2] + R[3][3]) * res.a[3] = R[4][4] * (res.a[3] + 2 * res.a[1])  \* trace = 1 + 2 cos
Rotation3Additive == (Done /\ res.t = "rotation3") =>
   \A b \in {<<3, 4, 5>>, <<0, 1, 1>>} : \A hand \in {1, -1} :
      MatPrimitive(MatMul(Rot3(res.u, res.m, res.a, hand), Rot3(res.u, res.m, b, hand)))
        = MatPrimitive(Rot3(res.u, res.m, AngleAdd(res.a, b), hand))
ReflectionDef == (Done /\ res.t = "reflection") =>
   /\ IsIsometryM(res.M)
   /\ MatPrimitive(MatMul(res.M, res.M)) = Ident(res.d + 1)                              \* involution
   /\ \A p \in TestPts(res.d) : PointOnHyper(p, res.h) => SameClass(MatVec(res.M, p), p) \* fixes the mirror pointwise
   /\ \A i \in DOMAIN res.img : SameClass(MatVec(res.M, res.img[i][1]), res.img[i][2])   \* agrees with the mirror image
   /\ \A i \in DOMAIN res.img : LET p == res.img[i][1] q == res.img[i][2] IN               \* mirror: midpoint on h, p-q normal to h
        /\ PointOnHyper(MidPoint(p, q), res.h)
        /\ Proportional(VSub(VScale(W(q), AffPart(p)), VScale(W(p), AffPart(q))), NormalOf(res.h))
FromPointsDef == (Done /\ res.t = "from_points") =>
   /\ \A i \in DOMAIN res.a : SameClass(MatVec(res.M, res.a[i]), res.b[i])
   /\ res.M = res.T \/ res.M = MatScale(-1, res.T)                                       \* and it is the only such class
ConicsDef == (Done /\ res.t = "conics") =>
   /\ \A i \in 1..3 : OnQuadric(res.c1, res.p1[i]) /\ OnQuadric(res.c2, res.p2[i])
   /\ QuadricClassEq(ActQuadric(res.M, res.c1), res.c2)

Stratum ==
  CASE res.t = "translation" -> (IF IsZeroV(res.v) THEN "zero-offset" ELSE "translation")
    [] res.t = "rotation2" -> (IF res.a[3] = 1 THEN "right-angle-multiple" ELSE "pythagorean")
    [] res.t = "rotation3" -> (IF Cardinality({i \in 1..3 : res.u[i] = 0}) = 2 THEN "coordinate-axis" ELSE "oblique-axis")
    [] res.t = "scaling" -> "scaling"
    [] res.t = "reflection" -> (IF res.h[res.d + 1] = 0 THEN "mirror-through-origin" ELSE "mirror-off-origin")
    [] res.t = "from_points" -> "frame"
    [] res.t = "conics" -> "conic-frame"
    [] OTHER -> "none"
Dump == (Done /\ DoDump) => PrintT(ToJson([r |-> res, s |-> Stratum]))
=============================================================================
