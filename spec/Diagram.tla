------------------------------- MODULE Diagram -------------------------------
(***************************************************************************)
(* C05: tensor diagrams.  A real state machine, transcribed from           *)
(* geometer.base.TensorDiagram:                                            *)
(*    nodes   ~ _nodes            (tensor OBJECTS, found by identity)      *)
(*    unused  ~ _unused_indices   (per node: <<unused cov axes, con axes>>)*)
(*    edges   ~ _contraction_list (<<source pos, target pos, i, j>>)       *)
(* Actions: AddEdge(s, t) with the code's order of effects (both nodes are *)
(* appended BEFORE the emptiness test, indices are popped BEFORE the size  *)
(* test), Calculate.                                                       *)
(*                                                                         *)
(* Declarative layer (the property text): the k-th edge whose source is s  *)
(* uses the k-th covariant axis of s, the k-th edge whose target is t uses *)
(* the k-th contravariant axis of t; an edge with no axis left or with     *)
(* mismatching sizes is an error; the result axes are: collection axes,    *)
(* then the uncontracted covariant axes in node order, then the            *)
(* uncontracted contravariant ones; the value is the Einstein sum.         *)
(***************************************************************************)
EXTENDS LinAlg, Json, SequencesExt

CONSTANTS Patterns,     \* sequence of index-type patterns a node object may have
          MaxEdges,
          NIds,         \* number of distinct tensor objects available (ids 1..NIds)
          WithDim3,     \* may the last object have axis size 3 (size mismatch cases)
          DoDump

\* pattern tables selectable from the configs (Patterns <- PatQuick)
PatQuick == << <<"cov">>, <<"con">>, <<"cov", "con">>, <<"con", "cov">>, <<"cov", "cov">>, <<"con", "con">>,
               <<"free", "cov">>, <<"free", "con", "cov">> >>
PatSmall == << <<"cov">>, <<"con">>, <<"cov", "con">>, <<"con", "con">>, <<"free", "con", "cov">> >>      \* for histories of three edges
PatFull  == PatQuick \o << <<"cov", "cov", "con">>, <<"cov", "con", "con">>, <<"con", "cov", "con">>,
               <<"free", "cov", "con">>, <<"free", "free", "cov">>, <<"free", "con">> >>

VARIABLES world,   \* [pat: id -> index-type pattern, copy: id -> id whose CONTENT this object has, dim: id -> 2|3]
          nodes, unused, edges, err, hist, pc, result

vars == <<world, nodes, unused, edges, err, hist, pc, result>>

Ids == 1..NIds
Pat(id) == world.pat[id]
Dim(id) == world.dim[id]
RankOf(id) == Len(Pat(id))
AxesOfType(id, ty) == SelectSeq([i \in 1..RankOf(id) |-> i], LAMBDA i : Pat(id)[i] = ty)
CovAxes(id)  == AxesOfType(id, "cov")
ConAxes(id)  == AxesOfType(id, "con")
FreeAxes(id) == AxesOfType(id, "free")
AxisSize(id, ax) == IF Pat(id)[ax] = "free" THEN 2 ELSE Dim(id)

\* content of an object: an injective function of (content owner, multi-index) so that any wrong
\* pairing, transposition or permutation of axes changes the numbers
RECURSIVE Enc(_, _)
Enc(idx, i) == IF i > Len(idx) THEN 0 ELSE (idx[i] - 1) + 3 * Enc(idx, i + 1)
Val(id, idx) == 1 + world.copy[id] * 7 + Enc(idx, 1) * (1 + world.copy[id])

\* --------------------------------------------------------------------------
Worlds ==
  {w \in [pat : [Ids -> {Patterns[i] : i \in 1..Len(Patterns)}], copy : [Ids -> Ids], dim : [Ids -> {2, 3}]] :
      /\ \A i \in Ids : w.copy[i] <= i /\ w.copy[w.copy[i]] = w.copy[i]
                        /\ w.pat[w.copy[i]] = w.pat[i]                      \* a copy has the same type
      /\ \A i \in Ids : (w.dim[i] = 3) => (WithDim3 /\ i = NIds /\ w.copy[i] = i)
      /\ \A i \in Ids : w.dim[w.copy[i]] = w.dim[i]}

Init ==
  /\ world \in Worlds
  /\ nodes = <<>> /\ unused = <<>> /\ edges = <<>> /\ err = "none" /\ hist = <<>>
  /\ pc = "build" /\ result = [t |-> "none"]

PosOf(ns, id) == CHOOSE i \in 1..Len(ns) : ns[i] = id     \* first position (identity search)
Known(ns, id) == \E i \in 1..Len(ns) : ns[i] = id

\* add_edge(source, target)
AddEdge(s, t) ==
  /\ pc = "build" /\ err = "none" /\ Len(hist) < MaxEdges
  /\ LET \* first step: search both by identity; second step (else branch of the for loop): append the
         \* ones not found, source first; a loop edge on a new object reuses the node just appended
         \* (before geometer commit "fix: TensorDiagram added a node twice ..." it was appended twice: TLC
         \* reported that transcription as a violation of PairingAgrees, which is how the defect was found)
         n1 == IF Known(nodes, s) THEN nodes ELSE Append(nodes, s)
         u1 == IF Known(nodes, s) THEN unused ELSE Append(unused, <<CovAxes(s), ConAxes(s)>>)
         si == PosOf(n1, s)
         n2 == IF Known(n1, t) THEN n1 ELSE Append(n1, t)
         u2 == IF Known(n1, t) THEN u1 ELSE Append(u1, <<CovAxes(t), ConAxes(t)>>)
         ti == PosOf(n2, t)
         fs == u2[si][1]
         ft == u2[ti][2]
     IN /\ nodes' = n2
        /\ hist' = Append(hist, <<s, t>>)
        /\ IF fs = <<>> \/ ft = <<>>
           THEN /\ err' = "no-index-left" /\ unused' = u2 /\ UNCHANGED edges
           ELSE /\ unused' = [u2 EXCEPT ![si] = <<Tail(u2[si][1]), u2[si][2]>>,
                                        ![ti] = <<(IF si = ti THEN Tail(u2[si][1]) ELSE u2[ti][1]), Tail(u2[ti][2])>>]
                /\ IF AxisSize(s, Head(fs)) # AxisSize(t, Head(ft))
                   THEN err' = "size-mismatch" /\ UNCHANGED edges
                   ELSE edges' = Append(edges, <<si, ti, Head(fs), Head(ft)>>) /\ UNCHANGED err
  /\ UNCHANGED <<world, pc, result>>

\* add_node(x) for an object that is not yet in the diagram (a diagram without edges is a tensor product)
AddNode(s) ==
  /\ pc = "build" /\ err = "none" /\ Len(hist) < MaxEdges /\ ~Known(nodes, s)
  /\ nodes' = Append(nodes, s)
  /\ unused' = Append(unused, <<CovAxes(s), ConAxes(s)>>)
  /\ hist' = Append(hist, <<s, 0>>)
  /\ UNCHANGED <<world, edges, err, pc, result>>

\* --------------------------------------------------------------------------
\* Declarative denotation, computed from the history of edges only  (<<s, 0>> = add_node(s))
IsEdge(e) == e[2] # 0
EdgeIdx == {k \in 1..Len(hist) : IsEdge(hist[k])}
SrcCount(h, k, s) == Cardinality({i \in 1..(k - 1) : IsEdge(h[i]) /\ h[i][1] = s})
TgtCount(h, k, t) == Cardinality({i \in 1..(k - 1) : h[i][2] = t})
\* the objects of the diagram in order of first appearance
RECURSIVE Appear(_, _, _)
Appear(h, k, acc) ==
  IF k > Len(h) THEN acc
  ELSE LET a1 == IF Known(acc, h[k][1]) THEN acc ELSE Append(acc, h[k][1])
           a2 == IF ~IsEdge(h[k]) \/ Known(a1, h[k][2]) THEN a1 ELSE Append(a1, h[k][2])
       IN Appear(h, k + 1, a2)
DeclNodes == Appear(hist, 1, <<>>)
\* edge k pairs <<object, axis>> with <<object, axis>>   (defined when no error)
DeclPair(k) == LET s == hist[k][1] t == hist[k][2] IN
   << <<s, CovAxes(s)[SrcCount(hist, k, s) + 1]>>, <<t, ConAxes(t)[TgtCount(hist, k, t) + 1]>> >>
DeclErrAt(k) == LET s == hist[k][1] t == hist[k][2] IN
   IF ~IsEdge(hist[k]) THEN "none" ELSE
   IF SrcCount(hist, k, s) + 1 > Len(CovAxes(s)) \/ TgtCount(hist, k, t) + 1 > Len(ConAxes(t)) THEN "no-index-left"
   ELSE IF AxisSize(s, CovAxes(s)[SrcCount(hist, k, s) + 1]) # AxisSize(t, ConAxes(t)[TgtCount(hist, k, t) + 1])
        THEN "size-mismatch" ELSE "none"

\* labels: every <<object, axis>> slot gets a label; contracted slots share one; aligned free slots share one
Slots(ns) == UNION {{<<ns[i], a>> : a \in 1..RankOf(ns[i])} : i \in 1..Len(ns)}
UsedSlots == UNION {{DeclPair(k)[1], DeclPair(k)[2]} : k \in EdgeIdx}
MaxFree(ns) == IF ns = <<>> THEN 0 ELSE
               CHOOSE m \in 0..3 : (\A i \in 1..Len(ns) : Len(FreeAxes(ns[i])) <= m) /\ (\E i \in 1..Len(ns) : Len(FreeAxes(ns[i])) = m)
\* result axes: collection axes (right aligned), then unused covariant slots in node order, then contravariant
RECURSIVE CatSeqs(_, _)
CatSeqs(ss, i) == IF i > Len(ss) THEN <<>> ELSE ss[i] \o CatSeqs(ss, i + 1)
UnusedOf(ns, ty) ==
  CatSeqs([i \in 1..Len(ns) |->
             SelectSeq([a \in 1..RankOf(ns[i]) |-> <<ns[i], a>>],
                       LAMBDA sl : Pat(ns[i])[sl[2]] = ty /\ sl \notin UsedSlots)], 1)
ResultCov(ns) == UnusedOf(ns, "cov")
ResultCon(ns) == UnusedOf(ns, "con")

\* value of the result at (free index tuple fi (length MaxFree), cov/con index tuple xi):
\* sum over the values of the contracted pairs of the product of the node entries
NodeIndex(ns, id, fi, xi, ci) ==
  [a \in 1..RankOf(id) |->
     IF Pat(id)[a] = "free"
     THEN LET nf == Len(FreeAxes(id)) IN fi[MaxFree(ns) - nf + a]        \* free axes are leading: a-th free axis
     ELSE IF \E k \in EdgeIdx : <<id, a>> \in {DeclPair(k)[1], DeclPair(k)[2]}
          THEN ci[CHOOSE k \in EdgeIdx : <<id, a>> \in {DeclPair(k)[1], DeclPair(k)[2]}]
          ELSE LET outs == ResultCov(ns) \o ResultCon(ns)
               IN xi[CHOOSE j \in 1..Len(outs) : outs[j] = <<id, a>>]]
RECURSIVE ProdNodes(_, _, _, _, _)
ProdNodes(ns, i, fi, xi, ci) ==
  IF i > Len(ns) THEN 1 ELSE Val(ns[i], NodeIndex(ns, ns[i], fi, xi, ci)) * ProdNodes(ns, i + 1, fi, xi, ci)
EdgeDim(k) == AxisSize(DeclPair(k)[1][1], DeclPair(k)[1][2])
Einstein(ns, fi, xi) ==
  LET CIdx == {ci \in [1..Len(hist) -> 1..3] : \A k \in 1..Len(hist) : ci[k] <= (IF k \in EdgeIdx THEN EdgeDim(k) ELSE 1)}
  IN FoldSet(LAMBDA ci, acc : acc + ProdNodes(ns, 1, fi, xi, ci), 0, CIdx)

OutDims(ns) == LET outs == ResultCov(ns) \o ResultCon(ns) IN [j \in 1..Len(outs) |-> AxisSize(outs[j][1], outs[j][2])]
\* all index tuples in row-major order as a sequence
IdxSeq(dims) == SetToSortSeq({x \in [1..Len(dims) -> 1..3] : \A j \in 1..Len(dims) : x[j] <= dims[j]},
                             LAMBDA x, y : \E j \in 1..Len(dims) : (\A m \in 1..(j - 1) : x[m] = y[m]) /\ x[j] < y[j])

\* the value calculate() returns in the current state (a query: the diagram itself does not change)
CalcResult ==
  LET ns == DeclNodes
      mf == MaxFree(ns)
      fdims == [j \in 1..mf |-> 2]
      odims == OutDims(ns)
      fseq == IdxSeq(fdims)
      oseq == IdxSeq(odims)
  IN [t |-> "value",
      shape |-> fdims \o odims,
      nfree |-> mf, ncov |-> Len(ResultCov(ns)), ncon |-> Len(ResultCon(ns)),
      flat |-> CatSeqs([a \in 1..Len(fseq) |-> [b \in 1..Len(oseq) |-> Einstein(ns, fseq[a], oseq[b])]], 1)]

Calculate ==
  /\ pc = "build" /\ err = "none" /\ hist # <<>>
  /\ result' = CalcResult
  /\ pc' = "done"
  /\ UNCHANGED <<world, nodes, unused, edges, err, hist>>

Fail ==   \* an errored history is complete as it is
  /\ pc = "build" /\ err # "none"
  /\ pc' = "done" /\ result' = [t |-> "error", err |-> err, at |-> Len(hist)]
  /\ UNCHANGED <<world, nodes, unused, edges, err, hist>>

Next == (\E s \in Ids, t \in Ids : AddEdge(s, t)) \/ (\E s \in Ids : AddNode(s)) \/ Calculate \/ Fail
Spec == Init /\ [][Next]_vars

\* --------------------------------------------------------------------------
\* Certification: the code-shaped bookkeeping realises the declarative pairing
TypeOK == Len(nodes) = Len(unused)

\* every axis is consumed at most once
IndexOnce == \A k1, k2 \in 1..Len(edges) : k1 # k2 =>
    /\ <<edges[k1][1], edges[k1][3]>> # <<edges[k2][1], edges[k2][3]>>
    /\ <<edges[k1][2], edges[k1][4]>> # <<edges[k2][2], edges[k2][4]>>

\* the error of the state machine is the declarative error of the last edge, earlier edges had none
ErrAgrees == hist # <<>> =>
    /\ \A k \in 1..(Len(hist) - 1) : DeclErrAt(k) = "none"
    /\ (err = DeclErrAt(Len(hist)))

\* node list = objects in order of first appearance (one entry per OBJECT) and the bookkeeping pairs what the
\* declarative layer pairs.  (This is the invariant that a duplicated node entry violates.)
PairingAgrees == (err = "none") =>
    /\ nodes = DeclNodes
    /\ Len(edges) = Cardinality(EdgeIdx)
    /\ \A k \in EdgeIdx :
         LET e == edges[Cardinality({j \in EdgeIdx : j <= k})] IN
         DeclPair(k) = << <<nodes[e[1]], e[3]>>, <<nodes[e[2]], e[4]>> >>

Stratum ==
  IF result.t = "error" THEN result.err
  ELSE IF EdgeIdx = {} THEN "tensor-product"
  ELSE IF \E k \in 1..Len(hist) : hist[k][1] = hist[k][2] THEN "self-edge"
  ELSE IF \E k1, k2 \in 1..Len(hist) : k1 < k2 /\ hist[k1] = hist[k2] THEN "repeated-edge"
  ELSE IF \E i \in Ids : world.copy[i] # i /\ Known(DeclNodes, i) /\ Known(DeclNodes, world.copy[i]) THEN "value-equal-copies"
  ELSE IF MaxFree(DeclNodes) > 0 THEN "free-axes"
  ELSE "general"

DumpRec == [w |-> [pat |-> [i \in Ids |-> Pat(i)], copy |-> world.copy, dim |-> world.dim],
            h |-> hist, r |-> result, s |-> Stratum,
            vals |-> [i \in Ids |-> LET dims == [a \in 1..RankOf(i) |-> AxisSize(i, a)] sq == IdxSeq(dims)
                                    IN [b \in 1..Len(sq) |-> Val(i, sq[b])]]]
Dump == (pc = "done" /\ DoDump) => PrintT(ToJson(DumpRec))
=============================================================================
