------------------------------ MODULE C06_Group ------------------------------
(***************************************************************************)
(* C06: projective transformations act as a group on every kind of object. *)
(* State machine: an object x0 is chosen, then transformations are applied *)
(* one after the other (t * x, t.inverse() * x, (t ** k) * x); `acc` is    *)
(* the accumulated matrix.  Declarative layer: after ANY history           *)
(*     cur = Act(acc, x0)           (Act is a group action)                *)
(* for every kind, the kind never changes, identity and inverse laws.      *)
(* Every history TLC reaches is replayed on real geometer objects.         *)
(***************************************************************************)
EXTENDS Transform, Json

CONSTANTS Dims, MaxLen, PowExps, DoDump
PowQuick == {-2, 0, 2, 3}
PowFull == {-3, -2, -1, 0, 1, 2, 3, 4}
VARIABLES dim, x0, cur, acc, hist
vars == <<dim, x0, cur, acc, hist>>

ASSUME \A i \in DOMAIN Pool2 : Det(Pool2[i]) # 0
ASSUME \A i \in DOMAIN Pool3 : Det(Pool3[i]) # 0
ASSUME \A i \in DOMAIN Pool1 : Det(Pool1[i]) # 0 /\ Len(Pool1) = Len(Pool2)

\* points of the projective line (incl. the origin, the point at infinity, non-primitive and negative representatives)
Objects1 == { Obj("point", <<1,1>>), Obj("point", <<0,1>>), Obj("point", <<1,0>>), Obj("point", <<-3,2>>), Obj("point", <<4,-2>>), Obj("point", <<2,3>>) }

Objects2 == {
  Obj("point", <<1,2,1>>), Obj("point", <<0,0,1>>), Obj("point", <<1,1,0>>), Obj("point", <<-2,3,2>>),
  Obj("line", <<1,2,3>>), Obj("line", <<0,0,1>>), Obj("line", <<1,0,0>>), Obj("line", <<2,-1,0>>),
  Obj("quadric", SphereM(<<1,2>>, 4)),
  Obj("quadric", << <<1,0,0>>, <<0,-1,0>>, <<0,0,-1>> >>),
  Obj("quadric", << <<1,2,0>>, <<2,1,1>>, <<0,1,3>> >>),
  Obj("quadric", SymOuter(<<1,0,0>>, <<0,1,-1>>)),
  Obj("dualquadric", Adj(SphereM(<<1,2>>, 4))),
  Obj("dualquadric", Adj(<< <<1,2,0>>, <<2,1,1>>, <<0,1,3>> >>)),
  Obj("segment", << <<0,0,1>>, <<2,1,1>> >>), Obj("segment", << <<1,1,1>>, <<1,0,0>> >>),
  Obj("segment", << <<-1,2,1>>, <<3,2,1>> >>),
  Obj("polygon", << <<0,0,1>>, <<2,0,1>>, <<0,2,1>> >>),
  Obj("polygon", << <<0,0,1>>, <<2,0,1>>, <<2,1,1>>, <<0,1,1>> >>),
  Obj("polygon", << <<0,0,1>>, <<3,0,1>>, <<3,3,1>>, <<1,1,1>>, <<0,3,1>> >>) }

Tetra == << << <<0,0,0,1>>, <<1,0,0,1>>, <<0,1,0,1>> >>, << <<0,0,0,1>>, <<1,0,0,1>>, <<0,0,1,1>> >>,
            << <<0,0,0,1>>, <<0,1,0,1>>, <<0,0,1,1>> >>, << <<1,0,0,1>>, <<0,1,0,1>>, <<0,0,1,1>> >> >>
Objects3 == {
  Obj("point", <<1,2,3,1>>), Obj("point", <<0,0,0,1>>), Obj("point", <<1,0,1,0>>), Obj("point", <<2,-1,1,2>>),
  Obj("plane", <<1,2,3,4>>), Obj("plane", <<0,0,0,1>>), Obj("plane", <<1,0,0,0>>), Obj("plane", <<1,-1,2,0>>),
  Obj("line3", PlueckerOfPoints(<<0,0,0,1>>, <<1,2,3,1>>)),
  Obj("line3", PlueckerOfPoints(<<1,0,0,1>>, <<1,1,0,0>>)),
  Obj("line3", PlueckerOfPoints(<<1,1,0,0>>, <<0,1,1,0>>)),
  Obj("line3", PlueckerOfPoints(<<2,1,0,1>>, <<0,1,2,1>>)),
  Obj("quadric", SphereM(<<1,0,2>>, 9)),
  Obj("quadric", << <<1,0,0,0>>, <<0,1,0,0>>, <<0,0,-1,0>>, <<0,0,0,0>> >>),        \* cone
  Obj("quadric", << <<1,1,0,0>>, <<1,2,0,1>>, <<0,0,-1,1>>, <<0,1,1,3>> >>),
  Obj("dualquadric", Adj(SphereM(<<1,0,2>>, 9))),
  Obj("segment", << <<0,0,0,1>>, <<1,2,2,1>> >>), Obj("segment", << <<1,1,1,1>>, <<0,0,1,0>> >>),
  Obj("polygon", << <<0,0,0,1>>, <<2,0,0,1>>, <<0,2,1,1>> >>),
  Obj("polygon", << <<0,0,1,1>>, <<2,0,1,1>>, <<2,2,3,1>>, <<0,2,3,1>> >>),
  Obj("polyhedron", Tetra) }
ObjectsOf(d) == IF d = 1 THEN Objects1 ELSE IF d = 2 THEN Objects2 ELSE Objects3

Ops(d) == {<<"apply", i, 1>> : i \in DOMAIN PoolOf(d)}
          \cup {<<"inv", i, -1>> : i \in DOMAIN PoolOf(d)}
          \cup {<<"pow", i, k>> : i \in DOMAIN PoolOf(d), k \in PowExps}
\* the matrix (class) an operation applies
OpMatrix(d, op) == LET M == PoolOf(d)[op[2]] IN
  CASE op[1] = "apply" -> MatPrimitive(M) [] op[1] = "inv" -> MatPrimitive(Adj(M)) [] op[1] = "pow" -> PowClass(M, op[3])

Init ==
  /\ dim \in Dims
  /\ x0 \in ObjectsOf(dim)
  /\ cur = x0 /\ acc = Ident(dim + 1) /\ hist = <<>>

\* TLC integers are 32 bit: histories whose accumulated matrix has entries beyond this bound are not enumerated (the
\* invariants multiply four such entries); with the quick exponent table no history reaches it
SizeOK(M) == \A i \in DOMAIN M : \A j \in DOMAIN M[i] : Abs(M[i][j]) <= 400
Step(op) ==
  /\ Len(hist) < MaxLen
  /\ LET M == OpMatrix(dim, op) IN
       /\ SizeOK(MatPrimitive(MatMul(M, acc)))
       /\ cur' = CanonAny(ActAny(M, cur))
       /\ acc' = MatPrimitive(MatMul(M, acc))
  /\ hist' = Append(hist, op)
  /\ UNCHANGED <<dim, x0>>

Next == \E op \in Ops(dim) : Step(op)
Spec == Init /\ [][Next]_vars

\* ---------------------------------------------------------------------------
\* Declarative layer
GroupAction == CanonAny(cur) = CanonAny(ActAny(acc, x0))            \* (s*t)*x = s*(t*x) for every history
KindPreserved == cur.k = x0.k
\* the inverse undoes: applying t and then its inverse gives the class of x back (checked on the last two steps)
InverseUndoes == (Len(hist) >= 2 /\ hist[Len(hist)][1] = "inv" /\ hist[Len(hist) - 1][1] = "apply"
                  /\ hist[Len(hist)][2] = hist[Len(hist) - 1][2] /\ Len(hist) = 2) => CanonAny(cur) = CanonAny(x0)
\* t ** k is the k-fold composition, identity for k = 0, inverse for k < 0 (as classes of matrices)
PowLaw == \A d \in {2, 3} : \A i \in DOMAIN PoolOf(d) :
   LET M == PoolOf(d)[i] IN
   /\ PowClass(M, 0) = Ident(d + 1)
   /\ \A k \in 1..3 : SameClass(Flatten(MatMul(PowClass(M, k), PowClass(M, -k))), Flatten(Ident(d + 1)))
   /\ \A k \in 1..3 : SameClass(Flatten(PowClass(M, k + 1)), Flatten(MatMul(M, PowClass(M, k))))
ASSUME PowLaw
\* polytopes keep their vertices in order; incident configurations stay incident is C07

Stratum ==
  IF x0.k \in {"segment", "polygon", "polyhedron"} THEN "polytope"
  ELSE IF x0.k \in {"quadric", "dualquadric"} THEN (IF x0.k = "quadric" /\ Det(x0.v) = 0 THEN "degenerate-quadric" ELSE x0.k)
  ELSE IF x0.k = "line3" THEN "line3"
  ELSE IF \E j \in 1..Len(hist) : hist[j][1] = "pow" /\ hist[j][3] <= 0 THEN "nonpositive-power"
  ELSE IF \E j \in 1..Len(hist) : hist[j][1] = "inv" THEN "inverse"
  ELSE "general"

\* the supporting line / plane a polytope caches must be the image of the original one
Support(o) ==
  CASE o.k = "segment" /\ dim = 2 -> Obj("line", Primitive(Cross(o.v[1], o.v[2])))
    [] o.k = "segment" /\ dim = 3 -> Obj("line3", Primitive(PlueckerOfPoints(o.v[1], o.v[2])))
    [] o.k = "polygon" /\ dim = 3 -> Obj("plane", Primitive(Join3PPP(o.v[1], o.v[2], o.v[3])))
    [] OTHER -> Obj("none", <<0>>)
SupportIsImage == (x0.k = "segment" \/ (x0.k = "polygon" /\ dim = 3)) =>
    SameClass(Support(cur).v, ActAny(acc, Support(x0)).v)

DumpRec == [d |-> dim, x |-> x0, h |-> hist, c |-> CanonAny(cur), s |-> Stratum, sup |-> Support(cur),
            ms |-> [j \in 1..Len(hist) |-> PoolOf(dim)[hist[j][2]]]]
Dump == (DoDump /\ hist # <<>>) => PrintT(ToJson(DumpRec))
=============================================================================
