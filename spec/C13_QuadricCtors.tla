-------------------------- MODULE C13_QuadricCtors --------------------------
(***************************************************************************)
(* C13: quadric constructors produce the quadric of their defining data.   *)
(* Exact integer matrices (up to scale) from the Cartesian locus           *)
(* polynomials with rational radii p/q:                                    *)
(*   circle/sphere  q^2 |X - c|^2 = p^2                                    *)
(*   ellipse        v^2 (x-cx)^2 + h^2 (y-cy)^2 = h^2 v^2                  *)
(*   cone           (A q^2 + p^2) ((X-V).a)^2 = A^2 q^2 |X-V|^2, A = a.a   *)
(*   cylinder       q^2 (D |X-C|^2 - ((X-C).d)^2) = p^2 D,       D = d.d   *)
(*   conic through five points by the bracket formula.                     *)
(* Declarative: the five points lie on the conic; lattice and rational     *)
(* generator points (from rational orthonormal frames and Pythagorean      *)
(* angles) lie on the cone/cylinder/sphere; the cross-ratio form agrees.   *)
(* from_tangent / from_foci do not determine the matrix uniquely by the    *)
(* property: their inputs are enumerated, the harness checks the relation. *)
(***************************************************************************)
EXTENDS Euclid, Json, SequencesExt

CONSTANTS Tasks, Stride, Seed, DoDump
VARIABLES pc, task, first, res
vars == <<pc, task, first, res>>

VHash(v) == 100003 + DotFrom(v, [i \in 1..Len(v) |-> 7 * i * i + 3 * i + 1], 1)
Keep(v, s) == VHash(v) % s = Seed % s

GenPos5(P) == \A i, j, k \in 1..5 : (i < j /\ j < k) => Det3(<<P[i], P[j], P[k]>>) # 0

\* translate a quadric given in coordinates Y = X - c w : M' = T^T M T with T = [[I, -c], [0, 1]]
ShiftQ(M, c) == LET n == Len(c)
                    T == [i \in 1..(n + 1) |-> [j \in 1..(n + 1) |-> IF i = j THEN 1 ELSE IF j = n + 1 /\ i <= n THEN -c[i] ELSE 0]]
                IN MatMul(MatMul(Transpose(T), M), T)
Block(Q3, k) == LET n == Len(Q3) IN [i \in 1..(n + 1) |-> [j \in 1..(n + 1) |-> IF i <= n /\ j <= n THEN Q3[i][j] ELSE IF i = n + 1 /\ j = n + 1 THEN k ELSE 0]]
EllipseM(c, h, v) == ShiftQ(Block(<< <<v * v, 0>>, <<0, h * h>> >>, -(h * h * v * v)), c)
BallM(c, p, q) == ShiftQ(Block(MatScale(q * q, Ident(Len(c))), -(p * p)), c)          \* radius p/q, any dimension
ConeM(V, a, p, q) == LET A == Norm2(a) IN
   ShiftQ(Block(MatAdd(MatScale(A * q * q + p * p, Outer(a, a)), MatScale(-(A * A * q * q), Ident(3))), 0), V)
CylM(C, d, p, q) == LET D == Norm2(d) IN
   ShiftQ(Block(MatScale(q * q, MatAdd(MatScale(D, Ident(3)), MatScale(-1, Outer(d, d)))), -(p * p * D)), C)

\* orthogonal integer frames <<axis, u1, u2, common length>> and their sign/permutation images (all octants)
Frames == { << <<1,2,2>>, <<2,1,-2>>, <<2,-2,1>>, 3 >>, << <<0,0,1>>, <<1,0,0>>, <<0,1,0>>, 1 >>, << <<0,3,4>>, <<5,0,0>>, <<0,4,-3>>, 5 >>,
            << <<2,3,6>>, <<3,-6,2>>, <<6,2,-3>>, 7 >> }
SP == {<<s, p>> : s \in [1..3 -> {-1, 1}], p \in PermsOf(3)}
ApplySP(sp, v) == <<sp[1][1] * v[sp[2][1]], sp[1][2] * v[sp[2][2]], sp[1][3] * v[sp[2][3]]>>
Pyth == {<<1, 0, 1>>, <<0, 1, 1>>, <<3, 4, 5>>, <<-4, 3, 5>>, <<5, -12, 13>>, <<-3, -4, 5>>}
Radii == {<<1, 1>>, <<2, 1>>, <<1, 2>>, <<5, 1>>, <<3, 2>>}
Centers2 == {<<0, 0>>, <<1, 2>>, <<-3, 1>>, <<2, -2>>}
Centers3 == {<<0, 0, 0>>, <<1, 0, 2>>, <<-1, 2, 1>>}

Init == pc = "start" /\ task \in Tasks /\ first = <<>> /\ res = [t |-> "none"]
Choose ==
  /\ pc = "start" /\ pc' = "chosen" /\ UNCHANGED <<task, res>>
  /\ \/ task \in {"five", "tangent"} /\ \E a \in Classes(3, 2) : a[3] # 0 /\ Keep(a, Stride) /\ first' = a
     \/ task \in {"circle", "ellipse", "foci"} /\ \E c \in Centers2 : first' = c
     \/ task \in {"sphere", "cone", "cylinder"} /\ \E c \in Centers3 : first' = c

FinPts2 == {p \in Classes(3, 2) : p[3] = 1}
PoolB == {<<0, 0, 1>>, <<2, 1, 1>>, <<-1, 2, 1>>, <<1, -2, 1>>}
PoolC == {<<1, 0, 1>>, <<-2, -1, 1>>, <<2, 2, 1>>, <<0, -1, 1>>}
PoolD == {<<0, 1, 1>>, <<-1, -1, 1>>, <<2, -1, 1>>, <<-2, 2, 1>>}
PoolE == {<<1, 1, 1>>, <<-1, 0, 1>>, <<1, 2, 1>>, <<-2, 1, 1>>, <<2, 0, 1>>}
\* lattice / rational points of the plane to test membership: <<x, y, w>>
Probe2 == {<<x, y, w>> : x \in -6..6, y \in -6..6, w \in {1, 2}}

Compute ==
  /\ pc = "chosen" /\ pc' = "done" /\ UNCHANGED <<task, first>>
  /\ \/ /\ task = "five"
        /\ \E b \in PoolB, c \in PoolC, d \in PoolD, e \in PoolE :
             LET P == <<first, b, c, d, e>> IN
             /\ GenPos5(P)
             /\ res' = [t |-> "five", pts |-> P, M |-> MatPrimitive(ConicThrough5(first, b, c, d, e)),
                        \* cross ratio of a, b, c, d seen from e
                        cr |-> RNorm(Det3(<<e, first, c>>) * Det3(<<e, b, d>>), Det3(<<e, first, d>>) * Det3(<<e, b, c>>))]
     \/ /\ task = "tangent"
        /\ \E b \in PoolB, c \in PoolC, d \in PoolD,
              l \in {<<1, 0, -3>>, <<0, 1, 3>>, <<1, 1, 5>>, <<2, -1, 7>>, <<1, -2, -6>>, <<1, 2, 0>>, <<0, 0, 1>>} :
             LET P == <<first, b, c, d>> IN
             /\ \A i, j, k \in 1..4 : (i < j /\ j < k) => Det3(<<P[i], P[j], P[k]>>) # 0
             /\ \A i \in 1..4 : Dot(P[i], l) # 0
             \* general position with respect to the line: no diagonal point of the quadrangle on it (otherwise the involution
             \* that the pencil of conics induces on the line is degenerate and the only "tangent" conics are line pairs)
             /\ \A pr \in {<<1, 2, 3, 4>>, <<1, 3, 2, 4>>, <<1, 4, 2, 3>>} :
                   Dot(Cross(Cross(P[pr[1]], P[pr[2]]), Cross(P[pr[3]], P[pr[4]])), l) # 0
             /\ res' = [t |-> "tangent", pts |-> P, l |-> l]
     \/ /\ task = "foci"
        /\ \E f2 \in Centers2 \cup {<<4, 2>>, <<-3, 5>>}, b \in {<<5, 5>>, <<0, 4>>, <<-2, -3>>, <<6, 1>>, <<1, 1>>} :
             /\ f2 # first /\ b # first /\ b # f2
             /\ Det3(<<first \o <<1>>, f2 \o <<1>>, b \o <<1>>>>) # 0 \/ TRUE
             /\ res' = [t |-> "foci", f1 |-> first, f2 |-> f2, b |-> b]
     \/ /\ task = "circle"
        /\ \E r \in Radii : \E M \in {BallM(first, r[1], r[2])} :        \* (bound variable: evaluated once)
             res' = [t |-> "circle", c |-> first, r |-> r, M |-> MatPrimitive(M),
                     on |-> SetToSeq({p \in Probe2 : OnQuadric(M, p)}),
                     off |-> SetToSeq({p \in Probe2 : ~OnQuadric(M, p) /\ Keep(p, 40)})]
     \/ /\ task = "ellipse"
        /\ \E h \in {1, 2, 3, 5}, v \in {1, 2, 4, 5} : \E M \in {EllipseM(first, h, v)} :
             res' = [t |-> "ellipse", c |-> first, h |-> h, v |-> v, M |-> MatPrimitive(M),
                     on |-> SetToSeq({p \in Probe2 : OnQuadric(M, p)}),
                     off |-> SetToSeq({p \in Probe2 : ~OnQuadric(M, p) /\ Keep(p, 40)}),
                     \* foci when the linear eccentricity is rational: <<dx, dy>> offsets from the centre
                     ecc |-> IF IsSquare(Abs(h * h - v * v)) THEN ISqrt(Abs(h * h - v * v)) ELSE -1]
     \/ /\ task = "sphere"
        /\ \E r \in Radii, fr \in Frames, sp \in SP, a \in Pyth, pick \in {1, 2} :
             LET M == BallM(first, r[1], r[2])
                 u1 == ApplySP(sp, fr[pick]) u2 == ApplySP(sp, fr[pick + 1]) L == fr[4]
                 den == r[2] * a[3] * L
                 \* a rational point of the sphere: c + r (cos u1 + sin u2) / L
                 pt == Homog(VAdd(VScale(den, first), VScale(r[1], VAdd(VScale(a[1], u1), VScale(a[2], u2)))), den)
             IN /\ Keep(<<r[1], r[2], a[1], pick>> \o u1, 12 * Stride)
                /\ res' = [t |-> "sphere", c |-> first, r |-> r, M |-> MatPrimitive(M), pt |-> pt]
     \/ /\ task \in {"cone", "cylinder"}
        /\ \E r \in Radii, fr \in Frames, sp \in SP, ang \in {<<1, 0, 1>>, <<0, 1, 1>>, <<3, 4, 5>>, <<-4, 3, 5>>}, k \in {1, -1, 2} :
             LET ax == ApplySP(sp, fr[1]) u1 == ApplySP(sp, fr[2]) u2 == ApplySP(sp, fr[3]) L == fr[4]
                 \* a point of the base circle: C + r (cos u1 + sin u2)/L ; radius r = p/q ; cos, sin = ang/ang[3]
                 den == r[2] * ang[3] * L
                 rim(C) == Homog(VAdd(VScale(den, C), VScale(r[1], VAdd(VScale(ang[1], u1), VScale(ang[2], u2)))), den)
             IN /\ Keep(<<r[1], r[2], ang[1], k>> \o ax, 6 * Stride)
                /\ fr[4] * r[2] * ang[3] * Abs(k) <= 30              \* keeps every intermediate below 2^31
                /\ IF task = "cone"
                   THEN LET V == first C == VAdd(first, VScale(k, ax)) M == ConeM(V, VScale(k, ax), r[1], r[2]) IN
                        res' = [t |-> "cone", V |-> V, C |-> C, r |-> r, M |-> MatPrimitive(M), rim |-> rim(C), axis |-> VScale(k, ax)]
                   ELSE LET M == CylM(first, VScale(k, ax), r[1], r[2]) IN
                        res' = [t |-> "cylinder", C |-> first, d |-> VScale(k, ax), r |-> r, M |-> MatPrimitive(M), rim |-> rim(first),
                                rim2 |-> rim(VAdd(first, VScale(2, ax)))]

Next == Choose \/ Compute
Spec == Init /\ [][Next]_vars

\* ---------------------------------------------------------------------------
Done == pc = "done"
FiveOn == (Done /\ res.t = "five") => /\ \A i \in 1..5 : OnQuadric(res.M, res.pts[i])
                                     /\ ~IsZeroV(Flatten(res.M)) /\ IsSymmetric(res.M)
RimOn == (Done /\ res.t \in {"cone", "cylinder"}) =>
   /\ OnQuadric(res.M, res.rim)
   \* the apex of the cone / the point at infinity of the cylinder's axis is the singular point of the quadric
   /\ res.t = "cone" => IsZeroV(MatVec(res.M, Homog(res.V, 1)))
   /\ res.t = "cylinder" => (OnQuadric(res.M, res.rim2) /\ IsZeroV(MatVec(res.M, res.d \o <<0>>)))
SpherePt == (Done /\ res.t = "sphere") => OnQuadric(res.M, res.pt)
\* the circle matrix is the locus |X - c|^2 = r^2 : a probe point is on it iff its squared distance is r^2
CircleLocus == (Done /\ res.t = "circle") =>
   \A i \in 1..Len(res.on) : Dist2PP(res.on[i], Homog(res.c, 1)) = RNorm(res.r[1] * res.r[1], res.r[2] * res.r[2])

Stratum ==
  CASE res.t \in {"cone", "cylinder"} ->
         "axis-octant=" \o (IF res.t = "cone" THEN (IF res.axis[1] >= 0 THEN "+" ELSE "-") \o (IF res.axis[2] >= 0 THEN "+" ELSE "-") \o (IF res.axis[3] >= 0 THEN "+" ELSE "-")
                            ELSE (IF res.d[1] >= 0 THEN "+" ELSE "-") \o (IF res.d[2] >= 0 THEN "+" ELSE "-") \o (IF res.d[3] >= 0 THEN "+" ELSE "-"))
    [] res.t \in {"circle", "sphere", "ellipse"} -> (IF IsZeroV(res.c) THEN "centre-origin" ELSE "centre-elsewhere")
    [] OTHER -> res.t
Dump == (Done /\ DoDump) => PrintT(ToJson([r |-> res, s |-> Stratum]))
=============================================================================
