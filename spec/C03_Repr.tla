------------------------------- MODULE C03_Repr -------------------------------
(***************************************************************************)
(* C03: results depend on the projective object, not on its homogeneous    *)
(* representative.  State: an operation, its arguments as stored           *)
(* representatives (integer vectors / matrices), the answer.  The action   *)
(* Rescale(i, k) replaces the stored representative of argument i by a     *)
(* non-zero multiple - a step the user cannot observe through any query:   *)
(*      [][ Rescale => answer' = answer ]_vars.                            *)
(* Every answer is computed from the RAW representatives (the operators of *)
(* the library modules are written for arbitrary representatives: negative *)
(* last coordinates, non-primitive vectors), so TLC's check of the action  *)
(* property certifies the oracle itself before it is used on geometer.     *)
(* The replay multiplies the homogeneous arrays of the chosen arguments    *)
(* (per vertex for polytopes) by float factors, incl. negative ones.       *)
(***************************************************************************)
\* The action Rescale below is also replayed on every operand of the operation table shared with Purity.tla
\* (harness/tableinv.py): all workspace objects at once (two rescaled workspaces) and one object at a time; operations whose
\* answer is by definition not a function of the projective objects are listed there with the reason.
EXTENDS Poly, Json, SequencesExt

CONSTANTS DoDump
VARIABLES pc, op, args, answer, hist
vars == <<pc, op, args, answer, hist>>

Factors == {-3, -1, 2, 5}
H2(a) == <<a[1], a[2], 1>>
PosW(p) == IF W(p) < 0 THEN VNeg(p) ELSE p
\* homogeneous-robust helpers ------------------------------------------------------------
OnSegH(a, b, p) ==     \* closed segment between finite homogeneous points a, b; p finite
  LET A == PosW(a) B == PosW(b) P == PosW(p)
      u == VSub(VScale(W(A), AffPart(B)), VScale(W(B), AffPart(A)))            \* direction, scaled by wa wb > 0
      v == VSub(VScale(W(A), AffPart(P)), VScale(W(P), AffPart(A)))            \* p - a, scaled by wa wp > 0
  IN W(P) > 0 /\ Proportional(u, v) /\ (IsZeroV(v) \/ (0 <= Dot(u, v) /\ Dot(u, v) * W(B) <= W(P) * Norm2(u)))
EdgeWindH(a, b, p) ==
  LET A == PosW(a) B == PosW(b) P == PosW(p)
      o == Sign(Det3(<<A, B, P>>))
      ya == A[2] * P[3] * B[3] yb == B[2] * P[3] * A[3] yp == P[2] * A[3] * B[3]
  IN IF ya <= yp /\ yp < yb /\ o > 0 THEN 1 ELSE IF yb <= yp /\ yp < ya /\ o < 0 THEN -1 ELSE 0
InPolyH(poly, p) ==
  LET n == Len(poly) nx(i) == IF i = n THEN 1 ELSE i + 1
      RECURSIVE Wd(_)
      Wd(i) == IF i > n THEN 0 ELSE EdgeWindH(poly[i], poly[nx(i)], p) + Wd(i + 1)
  IN (\E i \in 1..n : OnSegH(poly[i], poly[nx(i)], p)) \/ Wd(1) # 0
Area2H(poly) ==       \* twice the signed area as a rational, from arbitrary representatives of the vertices
  LET n == Len(poly) nx(i) == IF i = n THEN 1 ELSE i + 1
      RECURSIVE S(_)
      S(i) == IF i > n THEN <<0, 1>>
              ELSE RAdd(RNorm(poly[i][1] * poly[nx(i)][2] - poly[i][2] * poly[nx(i)][1], poly[i][3] * poly[nx(i)][3]), S(i + 1))
  IN LET a == S(1) IN <<Abs(a[1]), a[2]>>
AngleH(a, b, c) ==    \* class [cos : sin] of angle(a, b, c) from arbitrary representatives
  LET u == VScale(W(a) * W(b), VSub(VScale(W(a), AffPart(b)), VScale(W(b), AffPart(a))))
      v == VScale(W(a) * W(c), VSub(VScale(W(a), AffPart(c)), VScale(W(c), AffPart(a))))
  IN Primitive(<<Dot(u, v), v[1] * u[2] - v[2] * u[1]>>)
CRH(P) ==             \* cross ratio of four collinear points from two coordinates in which the carrier is non-degenerate
  LET ks == {k \in (1..3) \X (1..3) : k[1] < k[2] /\ \E i, j \in 1..4 : P[i][k[1]] * P[j][k[2]] - P[i][k[2]] * P[j][k[1]] # 0}
      k == CHOOSE kk \in ks : \A k2 \in ks : kk[1] < k2[1] \/ (kk[1] = k2[1] /\ kk[2] <= k2[2])
      B(i, j) == P[i][k[1]] * P[j][k[2]] - P[i][k[2]] * P[j][k[1]]
  IN RNorm(B(1, 3) * B(2, 4), B(1, 4) * B(2, 3))

\* ---- the operation table: name -> sequence of configurations (each a sequence of arguments) ------------------
Q1 == SphereM(<<1, 2>>, 4)      \* circle, centre (1,2), radius 2: contains (3,2), (1,4), (-1,2), (1,0)
Q2 == << <<1,0,0>>, <<0,-1,0>>, <<0,0,-1>> >>
DiagM(d) == [i \in 1..Len(d) |-> [j \in 1..Len(d) |-> IF i = j THEN d[i] ELSE 0]]
T1 == << <<1,2,0>>, <<0,1,1>>, <<1,0,2>> >>
T2 == << <<1,1,0>>, <<0,1,0>>, <<0,0,1>> >>
TriA == << <<0,0,1>>, <<4,1,1>>, <<1,3,1>> >>
QuadA == << <<0,0,1>>, <<4,0,1>>, <<5,3,1>>, <<1,4,1>> >>
Tri3 == << <<1,0,0,1>>, <<0,2,0,1>>, <<0,0,3,1>> >>
Quad3 == << <<0,0,1,1>>, <<2,0,1,1>>, <<2,2,3,1>>, <<0,2,3,1>> >>
Rot(sq, k) == [i \in 1..Len(sq) |-> sq[((i - 1 + k) % Len(sq)) + 1]]
Rev(sq) == [i \in 1..Len(sq) |-> sq[Len(sq) + 1 - i]]
\* two vertex lists describe the same polytope when one is the other read from another start and / or backwards, vertex by
\* vertex up to the representative
SameCycleH(A, B) == /\ Len(A) = Len(B)
                    /\ \E k \in 0..(Len(A) - 1) : \/ \A i \in 1..Len(A) : SameClass(A[i], Rot(B, k)[i])
                                                    \/ \A j \in 1..Len(A) : SameClass(A[j], Rot(Rev(B), k)[j])
Configs(o) ==
  CASE o = "eq_pp" -> << << <<1,2,1>>, <<2,4,2>> >>, << <<1,2,1>>, <<1,2,2>> >>, << <<1,1,0>>, <<-2,-2,0>> >> >>
    [] o = "contains_lp" -> << << <<1,2,-5>>, <<1,2,1>> >>, << <<1,2,-5>>, <<3,1,1>> >>, << <<1,2,-5>>, <<0,0,1>> >>, << <<0,0,1>>, <<1,1,0>> >> >>
    [] o = "dist_pp" -> << << <<1,2,1>>, <<4,6,1>> >>, << <<0,0,1>>, <<3,1,2>> >> >>
    [] o = "dist_lp" -> << << <<3,4,-5>>, <<2,1,1>> >>, << <<1,0,-2>>, <<2,5,1>> >>, << <<1,1,0>>, <<1,3,2>> >> >>
    [] o = "angle_ppp" -> << << <<0,0,1>>, <<1,1,1>>, <<1,0,1>> >>, << <<1,2,1>>, <<4,6,1>>, <<-3,5,1>> >>, << <<1,1,1>>, <<2,3,1>>, <<0,4,1>> >> >>
    [] o = "crossratio" -> << << <<0,0,1>>, <<1,1,1>>, <<2,2,1>>, <<5,5,1>> >>, << <<1,0,1>>, <<1,2,1>>, <<0,1,0>>, <<1,-3,1>> >> >>
    [] o = "join_pp" -> << << <<1,2,1>>, <<3,-1,1>> >>, << <<0,0,1>>, <<1,1,0>> >> >>
    [] o = "meet_ll" -> << << <<1,2,-5>>, <<2,-1,0>> >>, << <<1,0,-1>>, <<1,0,3>> >> >>
    [] o = "seg_contains" -> << << <<0,0,1>>, <<4,2,1>>, <<2,1,1>> >>, << <<0,0,1>>, <<4,2,1>>, <<6,3,1>> >>, << <<0,0,1>>, <<4,2,1>>, <<-2,-1,1>> >>,
                                << <<0,0,1>>, <<4,2,1>>, <<4,2,1>> >>, << <<0,0,1>>, <<4,2,1>>, <<2,2,1>> >>, << <<1,1,1>>, <<1,4,1>>, <<1,3,1>> >> >>
    [] o = "poly_contains" -> << << <<0,0,1>>, <<4,0,1>>, <<4,4,1>>, <<0,4,1>>, <<2,1,1>> >>, << <<0,0,1>>, <<4,0,1>>, <<4,4,1>>, <<0,4,1>>, <<6,4,1>> >>,
                                 << <<0,0,1>>, <<4,0,1>>, <<4,4,1>>, <<0,4,1>>, <<2,0,1>> >>, << <<0,0,1>>, <<4,0,1>>, <<4,4,1>>, <<0,4,1>>, <<6,0,1>> >>,
                                 << <<0,0,1>>, <<4,0,1>>, <<4,4,1>>, <<0,4,1>>, <<-1,4,1>> >>, << <<0,0,1>>, <<3,0,1>>, <<1,1,1>>, <<0,3,1>>, <<2,2,1>> >>,
                                 << <<0,0,1>>, <<3,0,1>>, <<1,1,1>>, <<0,3,1>>, <<1,1,2>> >> >>
    [] o = "poly_area" -> << << <<0,0,1>>, <<4,0,1>>, <<4,4,1>>, <<0,4,1>> >>, << <<0,0,1>>, <<3,0,1>>, <<1,1,1>>, <<0,3,1>> >>, << <<1,1,1>>, <<5,2,1>>, <<2,6,1>> >> >>
    [] o = "conic_contains" -> << <<Q1, <<3,2,1>>>>, <<Q1, <<1,2,1>>>>, <<Q2, <<1,0,1>>>>, <<Q2, <<1,1,0>>>> >>
    [] o = "conic_polar" -> << <<Q1, <<3,2,1>>>>, <<Q2, <<2,1,1>>>> >>
    [] o = "trafo_apply" -> << <<T1, <<1,2,1>>>>, <<T2, <<1,1,0>>>> >>
    [] o = "trafo_apply_line" -> << <<T1, <<1,2,-5>>>>, <<T2, <<0,0,1>>>> >>
    [] o = "trafo_compose" -> << <<T1, T2>>, <<T2, T1>> >>
    [] o = "is_parallel" -> << << <<1,2,-5>>, <<2,4,1>> >>, << <<1,2,-5>>, <<2,-1,0>> >> >>
    [] o = "is_perpendicular" -> << << <<1,2,-5>>, <<2,-1,7>> >>, << <<1,2,-5>>, <<1,1,0>> >> >>
    [] o = "is_collinear" -> << << <<0,0,1>>, <<1,2,1>>, <<3,6,1>> >>, << <<0,0,1>>, <<1,2,1>>, <<3,5,1>> >> >>
    [] o = "is_cocircular" -> << << <<1,0,1>>, <<0,1,1>>, <<-1,0,1>>, <<0,-1,1>> >>, << <<1,0,1>>, <<0,1,1>>, <<-1,0,1>>, <<0,-2,1>> >> >>
    [] o = "seg_midpoint" -> << << <<0,0,1>>, <<4,2,1>> >>, << <<1,1,1>>, <<2,5,1>> >> >>
    [] o = "project_lp" -> << << <<3,4,-5>>, <<2,1,1>> >>, << <<1,0,-2>>, <<2,5,1>> >> >>
    [] o = "mirror_lp" -> << << <<3,4,-5>>, <<2,1,1>> >>, << <<1,1,0>>, <<1,3,1>> >> >>
    [] o = "dist_pp3" -> << << <<1,2,2,1>>, <<0,0,0,1>> >>, << <<1,0,1,1>>, <<3,2,0,2>> >> >>
    [] o = "contains_ep3" -> << << <<1,1,1,-3>>, <<1,1,1,1>> >>, << <<1,1,1,-3>>, <<1,2,3,1>> >> >>
    [] o = "join_ppp3" -> << << <<1,0,0,1>>, <<0,1,0,1>>, <<0,0,1,1>> >>, << <<0,0,0,1>>, <<1,2,3,1>>, <<1,1,0,0>> >> >>
    \* two vertex lists (first half / second half): the same cycle from another start, in the other orientation, both; another
    \* polygon; the same vertex set in another cyclic order; polygons embedded in 3-space; segments
    [] o = "eq_poly" -> << TriA \o TriA, TriA \o Rot(TriA, 1), TriA \o Rev(TriA), TriA \o Rot(Rev(TriA), 1), TriA \o Rot(Rev(TriA), 2),
                           QuadA \o Rot(QuadA, 2), QuadA \o Rev(QuadA), QuadA \o Rot(Rev(QuadA), 1), QuadA \o Rot(Rev(QuadA), 3),
                           QuadA \o << QuadA[1], QuadA[3], QuadA[2], QuadA[4] >>, TriA \o << TriA[1], TriA[2], <<3,5,1>> >>,
                           QuadA \o [QuadA EXCEPT ![3] = <<4,5,1>>], Tri3 \o Rot(Rev(Tri3), 1), Tri3 \o Rot(Tri3, 2),
                           Quad3 \o Rot(Rev(Quad3), 2), Quad3 \o [Rev(Quad3) EXCEPT ![2] = <<1,1,1,1>>],
                           << <<1,2,1>>, <<4,0,1>> >> \o << <<4,0,1>>, <<1,2,1>> >>, << <<1,2,1>>, <<4,0,1>> >> \o << <<4,0,1>>, <<1,3,1>> >> >>
    \* equality of matrices (transformations, quadrics): multiples; a column rescaled; a row rescaled; one entry changed
    [] o = "eq_mat" -> << <<T1, MatScale(-3, T1)>>, <<T1, MatMul(T1, DiagM(<<2, 3, 1>>))>>, <<T1, MatMul(DiagM(<<2, 3, 1>>), T1)>>,
                          <<T2, DiagM(<<1, 1, 1>>)>>, <<DiagM(<<2, 3, 1>>), DiagM(<<1, 1, 1>>)>>, <<DiagM(<<2, 2, 2>>), DiagM(<<1, 1, 1>>)>>,
                          <<Q1, MatScale(2, Q1)>>, <<Q1, MatMul(MatMul(DiagM(<<1, 2, 1>>), Q1), DiagM(<<1, 2, 1>>))>>,
                          <<T1, [T1 EXCEPT ![2][3] = 5]>> >>
OpNames == {"eq_mat", "eq_pp", "contains_lp", "dist_pp", "dist_lp", "angle_ppp", "crossratio", "join_pp", "meet_ll", "seg_contains", "poly_contains",
            "poly_area", "conic_contains", "conic_polar", "trafo_apply", "trafo_apply_line", "trafo_compose", "is_parallel", "is_perpendicular",
            "is_collinear", "is_cocircular", "seg_midpoint", "project_lp", "mirror_lp", "dist_pp3", "contains_ep3", "join_ppp3", "eq_poly"}

\* the answer, computed from whatever representatives are stored
Ans(o, a) ==
  CASE o = "eq_pp" -> [b |-> SameClass(a[1], a[2])]
    [] o = "contains_lp" -> [b |-> PointOnHyper(a[2], a[1])]
    [] o \in {"dist_pp", "dist_pp3"} -> [q |-> Dist2PP(a[1], a[2])]
    [] o = "dist_lp" -> [q |-> Dist2PH(a[2], a[1])]
    [] o = "angle_ppp" -> [c |-> AngleH(a[1], a[2], a[3])]
    [] o = "crossratio" -> [q |-> CRH(a)]
    [] o = "join_pp" -> [c |-> Primitive(Cross(a[1], a[2]))]
    [] o = "meet_ll" -> [c |-> Primitive(Cross(a[1], a[2]))]
    [] o = "seg_contains" -> [b |-> OnSegH(a[1], a[2], a[3])]
    [] o = "poly_contains" -> [b |-> InPolyH(SubSeq(a, 1, Len(a) - 1), a[Len(a)])]
    [] o = "poly_area" -> [q |-> Area2H(a)]
    [] o = "conic_contains" -> [b |-> OnQuadric(a[1], a[2])]
    [] o = "conic_polar" -> [c |-> Primitive(Polar(a[1], a[2]))]
    [] o = "trafo_apply" -> [c |-> Primitive(MatVec(a[1], a[2]))]
    [] o = "trafo_apply_line" -> [c |-> Primitive(ActHyper(a[1], a[2]))]
    [] o = "trafo_compose" -> [c |-> Primitive(Flatten(MatMul(a[1], a[2])))]
    [] o = "is_parallel" -> [b |-> Proportional(NormalOf(a[1]), NormalOf(a[2]))]
    [] o = "is_perpendicular" -> [b |-> Dot(NormalOf(a[1]), NormalOf(a[2])) = 0]
    [] o = "is_collinear" -> [b |-> Det3(<<a[1], a[2], a[3]>>) = 0]
    [] o = "is_cocircular" -> [b |-> Det4([i \in 1..4 |-> <<a[i][1] * a[i][1] + a[i][2] * a[i][2], a[i][1] * a[i][3], a[i][2] * a[i][3], a[i][3] * a[i][3]>>]) = 0]
    [] o = "seg_midpoint" -> [c |-> Primitive(MidPoint(a[1], a[2]))]
    [] o = "project_lp" -> [c |-> Primitive(FootPH(a[2], a[1]))]
    [] o = "mirror_lp" -> [c |-> Primitive(MirrorPH(a[2], a[1]))]
    [] o = "contains_ep3" -> [b |-> PointOnHyper(a[2], a[1])]
    [] o = "join_ppp3" -> [c |-> Primitive(Join3PPP(a[1], a[2], a[3]))]
    [] o = "eq_mat" -> [b |-> SameClass(Flatten(a[1]), Flatten(a[2]))]
    [] o = "eq_poly" -> [b |-> SameCycleH(SubSeq(a, 1, Len(a) \div 2), SubSeq(a, Len(a) \div 2 + 1, Len(a)))]

IsMat(o, i) == (o = "eq_mat") \/ (o \in {"conic_contains", "conic_polar", "trafo_apply", "trafo_apply_line", "trafo_compose"} /\ i = 1) \/ (o = "trafo_compose" /\ i = 2)
ScaleArg(o, i, x, k) == IF IsMat(o, i) THEN MatScale(k, x) ELSE VScale(k, x)

Init == pc = "start" /\ op \in OpNames /\ args = <<>> /\ answer = [b |-> FALSE] /\ hist = <<>>
Choose ==
  /\ pc = "start" /\ pc' = "ready"
  /\ \E i \in 1..Len(Configs(op)) : args' = Configs(op)[i] /\ hist' = <<i>>
  /\ answer' = Ans(op, args')
  /\ UNCHANGED op
\* replace the stored representative of argument i by a non-zero multiple
Rescale(i, k) ==
  /\ pc = "ready" /\ Len(hist) < 3
  /\ args' = [args EXCEPT ![i] = ScaleArg(op, i, args[i], k)]
  /\ answer' = Ans(op, args')                    \* what any later query answers
  /\ hist' = Append(hist, <<i, k>>)
  /\ UNCHANGED <<pc, op>>
Next == Choose \/ \E i \in 1..6, k \in Factors : i <= Len(args) /\ Rescale(i, k)
Spec == Init /\ [][Next]_vars

\* ---------------------------------------------------------------------------
\* the action property of C03: a rescaling step is not observable
RescaleUnobservable == [][(pc = "ready") => answer' = answer]_vars
\* == on projective objects: reflexive, symmetric, true for every multiple, false for clearly different classes
EqLaws == (pc = "ready" /\ op = "eq_pp") => /\ SameClass(args[1], args[1])
                                             /\ (SameClass(args[1], args[2]) <=> SameClass(args[2], args[1]))
                                             /\ \A k \in Factors : SameClass(args[1], VScale(k, args[1]))
Dump == (DoDump /\ pc = "ready" /\ Len(hist) = 1) => PrintT(ToJson([op |-> op, cfg |-> hist[1], a |-> args, ans |-> answer]))
=============================================================================
