------------------------------ MODULE C19_Index ------------------------------
(***************************************************************************)
(* C19 (indexing half): t[index] returns what the underlying array returns *)
(* and every surviving axis keeps its covariant / contravariant /           *)
(* collection type; inserted and fancy-indexed axes become collection axes. *)
(*                                                                          *)
(* A tensor is [sizes, types]; an index expression is a sequence over       *)
(*   "i"  integer            "s"  full slice        "s1" slice of length 1  *)
(*   "n"  None               "e"  Ellipsis                                  *)
(*   "in" negative integer (numpy scalar)   "s2" [::2]   "sr" [::-1]       *)
(*   "a0" 0-d integer array                                                 *)
(*   "a1" 1-D integer array (shape <<2>>)   "a2" 2-D integer array <<2,2>>  *)
(*   "b1" 1-D boolean mask with 2 True      "b2" 2-D boolean mask, 2 True   *)
(* The module transcribes numpy's rules (validated against numpy itself by  *)
(* the replay: the spec's result shape must be numpy's for every case):     *)
(*  1 at most one Ellipsis; it expands to rank - consumed full slices,      *)
(*    otherwise full slices are appended;                                   *)
(*  2 once an array index is present integers are advanced indices too;     *)
(*  3 the advanced indices are adjacent iff their positions in the ORIGINAL *)
(*    tuple are consecutive (an Ellipsis, slice or None between separates); *)
(*  4 adjacent: the broadcast block replaces them in place, otherwise it    *)
(*    comes first;  5 basic axes keep their provenance, None and block axes *)
(*    have none.                                                            *)
(***************************************************************************)
EXTENDS Integers, Sequences, FiniteSets, TLC, Json, SequencesExt

CONSTANTS MaxLen, MaxRank, DoDump
VARIABLES pc, tens, idx, res
vars == <<pc, tens, idx, res>>

Items == {"i", "in", "s", "s1", "s2", "sr", "n", "e", "a0", "a1", "a2", "b1", "b2"}
ItemsSmall == {"i", "s", "n", "e", "a1", "b1"}      \* for the longer index tuples of the quick tier (cfg: Items <- ItemsSmall)
IsInt(x) == x \in {"i", "in"}           \* "in": a negative integer given as a numpy integer scalar
Sizes == <<2, 3, 4, 5>>
IsArr(x) == x \in {"a0", "a1", "a2", "b1", "b2"}      \* "a0": a 0-d integer array (an advanced index with the empty shape)
Consumes(x) == IF x \in {"n", "e"} THEN 0 ELSE IF x = "b2" THEN 2 ELSE 1
RECURSIVE SumConsumes(_, _)
SumConsumes(ix, k) == IF k > Len(ix) THEN 0 ELSE Consumes(ix[k]) + SumConsumes(ix, k + 1)
NEll(ix) == Cardinality({k \in DOMAIN ix : ix[k] = "e"})
Valid(ix, rank) == NEll(ix) <= 1 /\ SumConsumes(ix, 1) <= rank

\* tensors: rank, number of leading collection (free) axes, type of the others
TypePatterns(rank) == {ty \in [1..rank -> {"free", "cov", "con"}] :
                          \A a \in 1..rank : ty[a] = "free" => \A b \in 1..a : ty[b] = "free"}

\* expand the ellipsis / pad : sequence of <<item, position in the original tuple (0 for padding)>>
Expand(ix, rank) ==
  LET extra == rank - SumConsumes(ix, 1)
      pad == [k \in 1..extra |-> <<"s", 0>>]
      tagged == [k \in DOMAIN ix |-> <<ix[k], k>>]
  IN IF NEll(ix) = 1
     THEN LET p == CHOOSE k \in DOMAIN ix : ix[k] = "e" IN SubSeq(tagged, 1, p - 1) \o pad \o SubSeq(tagged, p + 1, Len(ix))
     ELSE tagged \o pad

HasArr(ix) == \E k \in DOMAIN ix : IsArr(ix[k])
IsAdv(ix, x) == IsArr(x) \/ (IsInt(x) /\ HasArr(ix))
AdvPositions(ix) == {k \in DOMAIN ix : IsAdv(ix, ix[k])}
Adjacent(ix) == LET P == AdvPositions(ix) IN P = {} \/ \A k \in P : (\A m \in P : k <= m) \/ (k - 1) \in P
\* broadcast shape of the advanced block
BlockShape(ix) == IF \E k \in DOMAIN ix : ix[k] = "a2" THEN <<2, 2>>
                  ELSE IF \E k \in DOMAIN ix : ix[k] \in {"a1", "b1", "b2"} THEN <<2>> ELSE <<>>

\* walk the expanded index: each step yields the result axes it contributes as <<size, provenance>> (provenance 0 = none)
\* and advances the axis pointer; advanced items contribute nothing here (the block is placed afterwards)
RECURSIVE Walk(_, _, _, _, _)
Walk(ex, k, ax, ix, sizes) ==
  IF k > Len(ex) THEN <<>>
  ELSE LET x == ex[k][1] IN
       IF x = "n" THEN << <<1, 0, k>> >> \o Walk(ex, k + 1, ax, ix, sizes)
       ELSE IF x \in {"s", "sr"} THEN << <<sizes[ax], ax, k>> >> \o Walk(ex, k + 1, ax + 1, ix, sizes)      \* "sr" = [::-1]
       ELSE IF x = "s2" THEN << <<(sizes[ax] + 1) \div 2, ax, k>> >> \o Walk(ex, k + 1, ax + 1, ix, sizes)  \* [::2]
       ELSE IF x = "s1" THEN << <<1, ax, k>> >> \o Walk(ex, k + 1, ax + 1, ix, sizes)
       ELSE IF IsInt(x) /\ ~HasArr(ix) THEN Walk(ex, k + 1, ax + 1, ix, sizes)
       ELSE \* advanced (array, or integer next to an array): marks its place with size -1
            << <<-1, 0, k>> >> \o Walk(ex, k + 1, ax + Consumes(x), ix, sizes)

Result(ix, sizes, types) ==
  LET rank == Len(sizes)
      ex == Expand(ix, rank)
      w == Walk(ex, 1, 1, ix, sizes)
      basic == SelectSeq(w, LAMBDA t : t[1] # -1)
      block == [k \in 1..Len(BlockShape(ix)) |-> <<BlockShape(ix)[k], 0, 0>>]
      firstAdv == IF \E k \in DOMAIN w : w[k][1] = -1 THEN CHOOSE k \in DOMAIN w : w[k][1] = -1 /\ \A m \in 1..(k - 1) : w[m][1] # -1 ELSE 0
      axes == IF firstAdv = 0 THEN basic
              ELSE IF Adjacent(ix)
                   THEN SelectSeq(SubSeq(w, 1, firstAdv - 1), LAMBDA t : t[1] # -1) \o block
                        \o SelectSeq(SubSeq(w, firstAdv, Len(w)), LAMBDA t : t[1] # -1)
                   ELSE block \o basic
  IN [shape |-> [k \in DOMAIN axes |-> axes[k][1]],
      prov |-> [k \in DOMAIN axes |-> axes[k][2]],
      types |-> [k \in DOMAIN axes |-> IF axes[k][2] = 0 THEN "free" ELSE types[axes[k][2]]]]

Init == pc = "start" /\ tens = <<>> /\ idx = <<>> /\ res = [t |-> "none"]
ChooseTensor ==
  /\ pc = "start" /\ pc' = "tensor" /\ UNCHANGED <<idx, res>>
  /\ \E rank \in 1..MaxRank : \E ty \in TypePatterns(rank) : tens' = [sizes |-> SubSeq(Sizes, 1, rank), types |-> ty]
ChooseIndex ==
  /\ pc = "tensor" /\ pc' = "done" /\ UNCHANGED tens
  /\ \E n \in 1..MaxLen : \E ix \in [1..n -> Items] :
       /\ Valid(ix, Len(tens.sizes))
       /\ idx' = ix
       /\ res' = Result(ix, tens.sizes, tens.types)
Next == ChooseTensor \/ ChooseIndex
Spec == Init /\ [][Next]_vars

\* ---------------------------------------------------------------------------
Done == pc = "done"
\* provenance is a partial injection: no original axis appears twice, none that an integer removed survives
ProvInjective == Done => \A a, b \in DOMAIN res.prov : (a # b /\ res.prov[a] # 0) => res.prov[a] # res.prov[b]
\* every surviving axis keeps its type, every new axis is a collection axis
TypesFollowProvenance == Done => \A a \in DOMAIN res.prov :
    res.types[a] = IF res.prov[a] = 0 THEN "free" ELSE tens.types[res.prov[a]]
\* rank bookkeeping: result rank = basic axes kept + None axes + block rank
RankLaw == Done =>
   LET nNone == Cardinality({k \in DOMAIN idx : idx[k] = "n"})
       nInt == Cardinality({k \in DOMAIN idx : IsInt(idx[k])})
       nArrAxes == SumConsumes(SelectSeq(idx, IsArr), 1)
       removed == IF HasArr(idx) THEN nInt + nArrAxes ELSE nInt
   IN Len(res.shape) = Len(tens.sizes) - removed + nNone + Len(BlockShape(idx))

Stratum ==
  IF ~HasArr(idx) THEN (IF \E k \in DOMAIN idx : idx[k] = "e" THEN "basic/ellipsis" ELSE "basic")
  ELSE IF \E k \in DOMAIN idx : IsInt(idx[k]) THEN (IF Adjacent(idx) THEN "int+array/adjacent" ELSE "int+array/separated")
  ELSE IF \E k \in DOMAIN idx : idx[k] = "b2" THEN "bool-2d"
  ELSE IF Adjacent(idx) THEN "adv-adjacent" ELSE "adv-separated"
Dump == (Done /\ DoDump) => PrintT(ToJson([sizes |-> tens.sizes, types |-> tens.types, ix |-> idx, r |-> res, s |-> Stratum]))
=============================================================================
