------------------------------ MODULE Trace_Ops ------------------------------
(***************************************************************************)
(* Code -> specification binding for the stateless operations of           *)
(* C06/C07/C09/C10/C11/C13/C16/C17.  A seeded driver calls the real        *)
(* library on integer coordinates LARGER than the exhaustively enumerated  *)
(* lattices and logs one event per call                                    *)
(*        {op, a: <<arguments>>, r: projected result}                      *)
(* (rationals as <<n, d>>, classes of homogeneous vectors as primitive     *)
(* integer vectors, booleans).  Every event must be the corresponding      *)
(* operator of the library modules (Euclid, Poly, Transform, Proj)         *)
(* evaluated on the logged arguments.  Verdicts are total: a mismatching   *)
(* event goes to `bad` with the clause that failed and the trace is        *)
(* consumed to the end.                                                    *)
(***************************************************************************)
EXTENDS Poly, Json, IOUtils

VARIABLES l, bad
tvars == <<l, bad>>
Trace == ndJsonDeserialize(IOEnv.TRACE_FILE)

\* cross ratio of four collinear points (any dimension) from a coordinate pair in which they are not all proportional
CoordCR(P) ==
  LET n == Len(P[1])
      ks == {k \in (1..n) \X (1..n) : k[1] < k[2] /\ \E i, j \in 1..4 : P[i][k[1]] * P[j][k[2]] - P[i][k[2]] * P[j][k[1]] # 0}
      k == CHOOSE kk \in ks : TRUE
      B(i, j) == P[i][k[1]] * P[j][k[2]] - P[i][k[2]] * P[j][k[1]]
      nn == B(1, 3) * B(2, 4) dd == B(1, 4) * B(2, 3)
  IN IF nn = 0 /\ dd = 0 THEN <<0, 0>> ELSE IF dd = 0 THEN <<1, 0>> ELSE RNorm(nn, dd)
QuadForm(Q, p) == Dot(p, MatVec(Q, p))

\* what the specification says the call returns: <<"rat", <<n, d>>>>, <<"cls", vector>>, <<"bool", b>>
Expected(e) ==
  LET a == e.a IN
  CASE e.op = "dist2_pp"       -> <<"rat", Dist2PP(a[1], a[2])>>
    [] e.op = "dist2_ph"       -> <<"rat", Dist2PH(a[1], a[2])>>
    [] e.op = "foot_ph"        -> <<"cls", FootPH(a[1], a[2])>>
    [] e.op = "mirror_ph"      -> <<"cls", MirrorPH(a[1], a[2])>>
    [] e.op = "midpoint"       -> <<"cls", MidPoint(a[1], a[2])>>
    [] e.op = "seg_contains"   -> <<"bool", OnSegN(a[1], a[2], a[3])>>
    [] e.op = "poly_contains2" -> <<"bool", InClosed2(a[1], a[2])>>
    [] e.op = "poly_contains3" -> <<"bool", InClosed3(a[1], a[2])>>
    [] e.op = "area2"          -> <<"rat", RNorm(Abs(Area2(a[1])), 1)>>
    [] e.op = "crossratio"     -> <<"rat", CoordCR(a)>>
    [] e.op = "apply_point"    -> <<"cls", MatVec(a[1], a[2])>>
    [] e.op = "apply_hyper"    -> <<"cls", MatVec(Transpose(Adj(a[1])), a[2])>>     \* hyperplanes move by the cofactor matrix
    [] e.op = "is_collinear"   -> <<"bool", Det3(a) = 0>>
    [] e.op = "is_coplanar"    -> <<"bool", Det4(a) = 0>>
    [] e.op = "conic_contains" -> <<"bool", QuadForm(a[1], a[2]) = 0>>
    [] e.op = "on_hyper"       -> <<"bool", PointOnHyper(a[1], a[2])>>

Why(e) ==
  LET x == Expected(e) IN
  IF x[1] = "cls" THEN (IF IsZeroV(x[2]) THEN "spec-result-is-zero"
                        ELSE IF Len(e.r) # Len(x[2]) THEN "result-length"
                        ELSE IF SameClass(e.r, x[2]) THEN "ok" ELSE "result-class")
  ELSE IF x[1] = "rat" THEN (IF e.r = x[2] THEN "ok" ELSE "value")
  ELSE (IF e.r = x[2] THEN "ok" ELSE "truth-value")

TraceInit == l = 1 /\ bad = {}
TrOp ==
  /\ l <= Len(Trace) /\ l' = l + 1
  /\ LET e == Trace[l] w == Why(e) IN
       bad' = IF w = "ok" THEN bad ELSE bad \cup {<<l, e.op \o ":" \o w>>}
TraceNext == TrOp
TraceSpec == TraceInit /\ [][TraceNext]_tvars

AtEnd == l = Len(Trace) + 1
Report == AtEnd => PrintT(ToJson([consumed |-> l - 1, bad |-> bad]))
TraceAccepted == TLCGet("stats").diameter = Len(Trace) + 1
=============================================================================
