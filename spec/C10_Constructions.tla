-------------------------- MODULE C10_Constructions --------------------------
(***************************************************************************)
(* C10: perpendicular / parallel / project / mirror constructions and the  *)
(* predicates is_parallel, is_perpendicular, is_cocircular, is_collinear /  *)
(* is_coplanar / is_concurrent, angle_bisectors, base_point, direction,     *)
(* basis_matrix, general_point.                                             *)
(* Constructive: exact homogeneous integer results.  Declarative: the       *)
(* defining relations (through p, perpendicular/parallel to s, foot on s    *)
(* with p-foot normal to s, mirror = involution with midpoint the foot).    *)
(* Where the property leaves a choice (perpendicular through a point ON a   *)
(* line of 3-space, base point, basis) the expected outcome is a relation.  *)
(***************************************************************************)
EXTENDS Poly, Json, SequencesExt

CONSTANTS Tasks, Stride, Seed, DoDump
VARIABLES pc, task, first, res
vars == <<pc, task, first, res>>

VHash(v) == 100003 + DotFrom(v, [i \in 1..Len(v) |-> 7 * i * i + 3 * i + 1], 1)
Keep(v, s) == VHash(v) % s = Seed % s

Lines2 == {h \in NonZero(Lattice(3, 2)) : ~IsZeroV(NormalOf(h))}
Fin2 == {Homog(x, w) : x \in Lattice(2, 2), w \in {1, 2}}
Planes3 == {h \in NonZero(Lattice(4, 1)) : ~IsZeroV(NormalOf(h))} \cup {<<1, 2, -2, 3>>, <<2, -1, 0, 2>>}
Fin3 == {Homog(x, w) : x \in Lattice(3, 1), w \in {1, 2}}
C3 == Lattice(3, 1)                                              \* Cartesian points for spanning 3D lines

DirOf2(h) == <<h[2], -h[1], 0>>                                  \* point at infinity of a line of the plane
NormalPt(h) == NormalOf(h) \o <<0>>                              \* the direction normal to a hyperplane, as a point at infinity
ParHyper(h, p) == LET n == NormalOf(h) IN VScale(W(p), n) \o <<-Dot(n, AffPart(p))>>
H3(a) == a \o <<1>>

\* rational angle bisectors of two lines of the plane: directions u/|u| +- v/|v| with |u||v| an integer
BisectorDirs(l, m) == LET u == <<l[2], -l[1]>> v == <<m[2], -m[1]>> nu == Norm2(u) nv == Norm2(v) IN
   IF IsSquare(nu * nv) THEN LET s == ISqrt(nu * nv) IN      \* u/|u| +- v/|v|  ~  |v|^2... scale by |u||v|: u*nv*? use u*s/nu... integer form:
        \* u/|u| + v/|v| is proportional to  s*u + nu*v  (multiply by |u|^2 |v| ... since s = |u||v|, s*u + nu*v = |u|(|v| u + |u| v))
        {Primitive(VAdd(VScale(s, u), VScale(nu, v))), Primitive(VSub(VScale(s, u), VScale(nu, v)))}
   ELSE {}

Init == pc = "start" /\ task \in Tasks /\ first = <<>> /\ res = [t |-> "none"]
Choose ==
  /\ pc = "start" /\ pc' = "chosen" /\ UNCHANGED <<task, res>>
  /\ \/ task \in {"c2", "pred2", "bis"} /\ \E h \in {x \in Lines2 : Keep(x, Stride)} : first' = h
     \/ task \in {"c3e", "pred3e"} /\ \E h \in {x \in Planes3 : Keep(x, Stride)} : first' = h
     \/ task \in {"c3l", "pred3l"} /\ \E a \in C3 : first' = a
     \/ task \in {"cocirc", "coll2"} /\ \E a \in Lattice(2, 2) : first' = a
     \/ task = "copl3" /\ \E a \in {x \in C3 : Keep(x, Stride)} : first' = a

Compute ==
  /\ pc = "chosen" /\ pc' = "done" /\ UNCHANGED <<task, first>>
  /\ \/ /\ task = "c2"
        /\ \E p \in Fin2 :
             LET h == first IN
             res' = [t |-> "c2", h |-> h, p |-> p, on |-> PointOnHyper(p, h),
                     perp |-> Primitive(Cross(p, NormalPt(h))), par |-> Primitive(ParHyper(h, p)),
                     foot |-> Primitive(FootPH(p, h)), mir |-> Primitive(MirrorPH(p, h)), dir |-> Primitive(DirOf2(h))]
     \/ /\ task = "c3e"
        /\ \E p \in {x \in Fin3 : Keep(x, 2)} :
             LET h == first IN
             res' = [t |-> "c3e", h |-> h, p |-> p, on |-> PointOnHyper(p, h),
                     perp |-> Primitive(PlueckerOfPoints(p, NormalPt(h))), par |-> Primitive(ParHyper(h, p)),
                     foot |-> Primitive(FootPH(p, h)), mir |-> Primitive(MirrorPH(p, h)),
                     \* the direction of p (the point at infinity with the same affine part) reflected in h
                     mird |-> IF IsZeroV(AffPart(p)) THEN <<>> ELSE Primitive(MirrorPH(Homog(AffPart(p), 0), h))]
     \/ /\ task = "c3l"
        /\ \E b \in {x \in C3 : Keep(x, Stride)}, p \in {x \in Fin3 : Keep(x, 3)} :
             /\ b # first
             /\ LET a == first u == VSub(b, a) f == FootPL(p, H3(a), u)
                    on == SameClass(f, p)
                    m == Homog(VSub(VScale(2 * W(p), AffPart(f)), VScale(W(f), AffPart(p))), W(f) * W(p))     \* 2 f - p
                IN res' = [t |-> "c3l", a |-> a, b |-> b, p |-> p, on |-> on, u |-> u,
                           foot |-> Primitive(f),
                           perp |-> IF on THEN <<>> ELSE Primitive(PlueckerOfPoints(p, f)),
                           mir |-> IF on THEN <<>> ELSE Primitive(m),
                           par |-> Primitive(PlueckerOfPoints(p, u \o <<0>>)),
                           dir |-> Primitive(u \o <<0>>)]
     \/ /\ task = "pred2"
        /\ \E m \in Lines2 :
             res' = [t |-> "pred2", l |-> first, m |-> m, same |-> SameClass(first, m),
                     par |-> Proportional(NormalOf(first), NormalOf(m)), perp |-> Dot(NormalOf(first), NormalOf(m)) = 0]
     \/ /\ task = "pred3e"
        /\ \E g \in Planes3 :
             res' = [t |-> "pred3e", h |-> first, g |-> g, same |-> SameClass(first, g),
                     par |-> Proportional(NormalOf(first), NormalOf(g)), perp |-> Dot(NormalOf(first), NormalOf(g)) = 0]
     \/ /\ task = "pred3l"          \* two coplanar lines through a common lattice point: a + s u, a + t v
        /\ \E u \in {x \in C3 : ~IsZeroV(x) /\ Keep(x, 2)}, v \in {x \in C3 : ~IsZeroV(x)} :
             /\ ~Proportional(u, v)
             /\ res' = [t |-> "pred3l", a |-> first, u |-> u, v |-> v, perp |-> Dot(u, v) = 0]
     \/ /\ task = "bis"
        /\ \E m \in {x \in Lines2 : Keep(x, 2)} :
             /\ ~Proportional(NormalOf(first), NormalOf(m))
             /\ res' = [t |-> "bis", l |-> first, m |-> m, o |-> Primitive(Cross(first, m)),
                        dirs |-> SetToSeq(BisectorDirs(first, m))]
     \/ /\ task = "cocirc"
        /\ \E b \in Lattice(2, 2), c \in Lattice(2, 2), d \in Lattice(2, 2) :
             LET P == <<first, b, c, d>> IN
             /\ Keep(b \o c \o d, 5 * Stride)
             /\ \A i, j, k \in 1..4 : (i < j /\ j < k) => Area2(<<P[i], P[j], P[k]>>) # 0      \* no three collinear
             /\ res' = [t |-> "cocirc", pts |-> P,
                        b |-> Det4([i \in 1..4 |-> <<Norm2(P[i]), P[i][1], P[i][2], 1>>]) = 0]
     \/ /\ task = "coll2"        \* is_collinear with 3 and with 4 arguments (repeated points allowed)
        /\ \E b \in Lattice(2, 1), c \in Lattice(2, 2), d \in Lattice(2, 1) :
             /\ Keep(b \o c \o d, Stride)
             /\ res' = [t |-> "coll2", pts |-> <<first, b, c, d>>,
                        b3 |-> Area2(<<first, b, c>>) = 0,
                        b4 |-> \E l \in Classes(3, 4) : \A q \in {first, b, c, d} : PointOnHyper(H(q), l)]
     \/ /\ task = "copl3"
        /\ \E b \in C3, c \in C3, d \in C3, e \in {<<0,0,0>>, <<1,1,1>>, <<2,0,1>>, <<0,0,1>>} :
             /\ Keep(b \o c \o d, 9 * Stride)
             /\ LET P == <<first, b, c, d, e>>
                    Without(i) == [j \in 1..4 |-> H3(P[IF j < i THEN j ELSE j + 1])]
                IN res' = [t |-> "copl3", pts |-> P,
                           b4 |-> Det4(Without(5)) = 0,
                           \* five points are coplanar iff every four of them are
                           b5 |-> \A i \in 1..5 : Det4(Without(i)) = 0]

Next == Choose \/ Compute
Spec == Init /\ [][Next]_vars

\* ---------------------------------------------------------------------------
Done == pc = "done"
\* reflecting a direction twice gives it back, and its reflection is again a direction
DirectionMirror == (Done /\ res.t = "c3e" /\ res.mird # <<>>) =>
   /\ W(res.mird) = 0
   /\ SameClass(MirrorPH(res.mird, res.h), Homog(AffPart(res.p), 0))
HyperLaws == (Done /\ res.t \in {"c2", "c3e"}) =>
   LET h == res.h p == res.p f == res.foot m == res.mir n == NormalOf(h) IN
   /\ PointOnHyper(f, h)                                                            \* projection lies on s
   /\ Proportional(VSub(VScale(W(f), AffPart(p)), VScale(W(p), AffPart(f))), n)      \* p - projection is normal to s
   /\ SameClass(MidPoint(p, m), f)                                                   \* midpoint of p and its mirror image
   /\ SameClass(MirrorPH(m, h), p)                                                   \* involution
   /\ PointOnHyper(p, res.par) /\ Proportional(NormalOf(res.par), n)                 \* parallel through p
   /\ (res.on <=> SameClass(f, p))
Perp2Laws == (Done /\ res.t = "c2") =>
   /\ PointOnHyper(res.p, res.perp) /\ Dot(NormalOf(res.perp), NormalOf(res.h)) = 0
   /\ PointOnHyper(res.dir, res.h) /\ res.dir[3] = 0
Perp3eLaws == (Done /\ res.t = "c3e") =>
   /\ PointOnLine3(res.p, res.perp) /\ PointOnLine3(NormalPt(res.h), res.perp)
Line3Laws == (Done /\ res.t = "c3l") =>
   LET L == PlueckerOfPoints(H3(res.a), H3(res.b)) IN
   /\ PointOnLine3(res.foot, L)
   /\ Dot(VSub(VScale(W(res.foot), AffPart(res.p)), VScale(W(res.p), AffPart(res.foot))), res.u) = 0
   /\ (~res.on) => /\ PointOnLine3(res.p, res.perp) /\ PointOnLine3(res.foot, res.perp)
                   /\ SameClass(MidPoint(res.p, res.mir), res.foot)
   /\ PointOnLine3(res.p, res.par) /\ PointOnLine3(res.dir, res.par) /\ PointOnLine3(res.dir, L)
BisLaws == (Done /\ res.t = "bis" /\ Len(res.dirs) = 2) =>
   LET u == <<res.l[2], -res.l[1]>> v == <<res.m[2], -res.m[1]>> IN
   /\ Dot(res.dirs[1], res.dirs[2]) = 0                                              \* the two bisectors are perpendicular
   /\ \A i \in 1..2 : LET w == res.dirs[i] IN
        Dot(u, w) * Dot(u, w) * Norm2(v) = Dot(v, w) * Dot(v, w) * Norm2(u)           \* equal angles with both lines
CocircDef == (Done /\ res.t = "cocirc") =>
   \* declarative: some circle with small integer data passes through all four => b  (one direction on the lattice)
   ((\E c \in Lattice(2, 4), k \in 1..2 : \A i \in 1..4 :
        Norm2(VSub(VScale(k, res.pts[i]), c)) = Norm2(VSub(VScale(k, res.pts[1]), c))) => res.b)

Stratum ==
  CASE res.t \in {"c2", "c3e", "c3l"} -> (IF res.on THEN "point-on-subspace" ELSE "general")
    [] res.t \in {"pred2", "pred3e"} -> (IF res.same THEN "equal" ELSE IF res.par THEN "parallel" ELSE IF res.perp THEN "perpendicular" ELSE "general")
    [] res.t = "pred3l" -> (IF res.perp THEN "perpendicular" ELSE "general")
    [] res.t = "bis" -> (IF Len(res.dirs) = 2 THEN "rational-bisectors" ELSE "irrational-bisectors")
    [] res.t = "cocirc" -> (IF res.b THEN "cocircular" ELSE "general")
    [] res.t = "coll2" -> (IF Cardinality({res.pts[i] : i \in 1..4}) < 4 THEN "repeated-point" ELSE IF res.b4 THEN "collinear" ELSE "general")
    [] res.t = "copl3" -> (IF res.b5 THEN "coplanar" ELSE IF res.b4 THEN "first-four-coplanar" ELSE "general")
Dump == (Done /\ DoDump) => PrintT(ToJson([r |-> res, s |-> Stratum]))
=============================================================================
