--------------------------- MODULE C16_Membership ---------------------------
(***************************************************************************)
(* C16: segment / polygon / triangle membership is the closed Cartesian    *)
(* point set.  Declarative: p = a + x(b - a) with 0 <= x <= 1; on the      *)
(* boundary or winding number non-zero.  TLC enumerates ALL simple         *)
(* polygons with 3 and 4 vertices on a small grid (ordered vertex lists:   *)
(* every cyclic start, both directions, convex and non-convex) and asks    *)
(* about every point of the surrounding grid, half-grid points and points  *)
(* at infinity: on edges, at vertices, on edge extensions, level with a    *)
(* vertex, inside, outside; the same polygons embedded in 3-space by       *)
(* integer affine maps, with queries on and off the plane.                 *)
(***************************************************************************)
EXTENDS Poly, Json, SequencesExt

CONSTANTS Tasks, G, Stride, Seed, DoDump
VARIABLES pc, task, first, res
vars == <<pc, task, first, res>>

VHash(v) == 100003 + Dot(v, SubSeq(<<1, 5, 7, 11, 13, 17>>, 1, Len(v)))
Keep(v, s) == VHash(v) % s = Seed % s

Grid == {<<x, y>> : x \in 0..G, y \in 0..G}
QPts == SetToSortSeq({<<x, y, 1>> : x \in -1..(G + 1), y \in -1..(G + 1)}
                     \cup {<<x, y, 2>> : x \in {2 * i + 1 : i \in 0..(G - 1)}, y \in {2 * i + 1 : i \in -1..G}},
                     LAMBDA a, b : VHash(a) < VHash(b) \/ (VHash(a) = VHash(b) /\ a[1] < b[1]))
InfPts == <<<<1, 0, 0>>, <<0, 1, 0>>, <<1, 1, 0>>, <<1, -2, 0>>>>

Label(poly, p) ==
  IF \E i \in DOMAIN poly : p = <<poly[i][1] * p[3], poly[i][2] * p[3], p[3]>> THEN "V"
  ELSE IF OnBoundary2(poly, p) THEN "E"
  ELSE IF \E i \in DOMAIN poly : Orient(poly[i], poly[NextIdx(poly, i)], p) = 0 THEN "X"
  ELSE IF \E i \in DOMAIN poly : poly[i][2] * p[3] = p[2] THEN "L"
  ELSE IF Winding(poly, p) # 0 THEN "I" ELSE "O"

IsConvex(poly) == \/ \A i \in DOMAIN poly : Orient(poly[i], poly[NextIdx(poly, i)], H(poly[NextIdx(poly, NextIdx(poly, i))])) >= 0
                  \/ \A i \in DOMAIN poly : Orient(poly[i], poly[NextIdx(poly, i)], H(poly[NextIdx(poly, NextIdx(poly, i))])) <= 0

\* embeddings of the plane into 3-space: <<x, y>> |-> A (x, y) + t   (integer, rank 2)
Embeds == << << <<1,0>>, <<0,1>>, <<0,0>>, <<0,0,1>> >>,         \* the plane z = 1
             << <<1,0>>, <<0,1>>, <<1,1>>, <<0,0,0>> >>,         \* z = x + y (through the origin)
             << <<1,0>>, <<0,0>>, <<0,1>>, <<0,2,0>> >>,         \* the vertical plane y = 2
             << <<1,0>>, <<1,1>>, <<0,1>>, <<1,0,-1>> >>,        \* oblique, off the origin
             << <<0,1>>, <<2,0>>, <<1,-1>>, <<5,0,0>> >> >>      \* far from the origin, crossing z = 0
Emb(e, v) == <<Dot(e[1], v) + e[4][1], Dot(e[2], v) + e[4][2], Dot(e[3], v) + e[4][3]>>
EmbH(e, p) == <<Dot(e[1], <<p[1], p[2]>>) + e[4][1] * p[3], Dot(e[2], <<p[1], p[2]>>) + e[4][2] * p[3],
                Dot(e[3], <<p[1], p[2]>>) + e[4][3] * p[3], p[3]>>

\* ray from a in direction d (endpoint at infinity): finite points a + t d, t >= 0, and the endpoint itself
OnRayN(a, d, p) == LET w == W(p) v == VSub(AffPart(p), VScale(w, a)) IN
   IF w = 0 THEN SameClass(AffPart(p), d) ELSE w > 0 /\ Proportional(d, v) /\ Dot(d, v) >= 0

Init == pc = "start" /\ task \in Tasks /\ first = <<>> /\ res = [t |-> "none"]

Choose ==
  /\ pc = "start" /\ pc' = "chosen" /\ UNCHANGED <<task, res>>
  /\ \/ task \in {"tri", "quad", "tri3", "quad3"} /\ \E a \in Grid : first' = a
     \/ task = "seg2" /\ \E a \in {<<x, y>> : x \in -1..1, y \in -1..1} : first' = a
     \/ task = "seg3" /\ \E a \in {<<0, 0, 0>>, <<1, -1, 2>>, <<-1, 0, 1>>} : first' = a

AllQ(poly) == QPts \o InfPts
Answers(poly) == LET qs == AllQ(poly) IN
   [inside |-> [i \in 1..Len(qs) |-> IF qs[i][3] = 0 THEN FALSE ELSE InClosed2(poly, qs[i])],
    lab |-> [i \in 1..Len(qs) |-> IF qs[i][3] = 0 THEN "INF" ELSE Label(poly, qs[i])]]

Compute ==
  /\ pc = "chosen" /\ pc' = "done" /\ UNCHANGED <<task, first>>
  /\ \/ /\ task \in {"tri", "tri3"}
        /\ \E b \in Grid, c \in Grid :
             LET poly == <<first, b, c>> IN
             /\ Area2(poly) # 0
             /\ (task = "tri3" => Keep(first \o b \o c, Stride))
             /\ \E e \in (IF task = "tri" THEN {0} ELSE 1..Len(Embeds)) :
                  res' = [t |-> task, poly |-> poly, e |-> e, q |-> AllQ(poly), a |-> Answers(poly)]
     \/ /\ task \in {"quad", "quad3"}
        /\ \E b \in Grid, c \in Grid, d \in Grid :
             LET poly == <<first, b, c, d>> IN
             /\ IsSimple(poly) /\ Area2(<<first, b, c>>) # 0
             /\ Keep(first \o b \o c, IF task = "quad" THEN Stride ELSE 4 * Stride)
             /\ \E e \in (IF task = "quad" THEN {0} ELSE {((VHash(b \o c \o d)) % Len(Embeds)) + 1}) :
                  res' = [t |-> task, poly |-> poly, e |-> e, q |-> AllQ(poly), a |-> Answers(poly)]
     \/ /\ task = "seg2"
        /\ \/ \E b \in {<<x, y>> : x \in -1..2, y \in -1..2} :
                /\ b # first
                /\ LET qs == SetToSeq({<<x, y, w>> : x \in -3..5, y \in -3..5, w \in {1, 2}} \cup {<<1,0,0>>, <<0,1,0>>, <<1,1,0>>, <<1,-1,0>>, <<2,1,0>>})
                   IN res' = [t |-> "seg", d |-> 2, a |-> first, b |-> b, ray |-> FALSE, q |-> qs,
                              inside |-> [i \in 1..Len(qs) |-> OnSegN(first, b, qs[i])]]
           \/ \E dd \in {<<1, 0>>, <<0, 1>>, <<1, 1>>, <<-1, 2>>, <<-2, -1>>} :
                LET qs == SetToSeq({<<x, y, w>> : x \in -3..5, y \in -3..5, w \in {1, 2}} \cup {<<1,0,0>>, <<0,1,0>>, <<1,1,0>>, <<-1,2,0>>, <<2,1,0>>, <<1,-2,0>>})
                IN res' = [t |-> "seg", d |-> 2, a |-> first, b |-> dd, ray |-> TRUE, q |-> qs,
                           inside |-> [i \in 1..Len(qs) |-> OnRayN(first, dd, qs[i])]]
     \/ /\ task = "seg3"
        /\ \E b \in {<<2, 1, 2>>, <<1, 1, 1>>, <<0, 2, -1>>, <<3, -1, 0>>} :
             /\ b # first
             /\ LET qs == SetToSeq({<<x, y, z, w>> : x \in -1..3, y \in -1..2, z \in -1..2, w \in {1, 2}} \cup {<<1,1,1,0>>, <<2,1,2,0>>})
                IN res' = [t |-> "seg", d |-> 3, a |-> first, b |-> b, ray |-> FALSE, q |-> qs,
                           inside |-> [i \in 1..Len(qs) |-> OnSegN(first, b, qs[i])]]

Next == Choose \/ Compute
Spec == Init /\ [][Next]_vars

\* ---------------------------------------------------------------------------
\* Declarative layer
Done == pc = "done"
IsPoly == Done /\ res.t \in {"tri", "quad", "tri3", "quad3"}
\* the answer does not depend on where the vertex cycle starts or on its direction
CycleInvariant == IsPoly =>
   \A k \in 0..(Len(res.poly) - 1) : \A rev \in BOOLEAN :
      LET p2 == IF rev THEN Rotate(RevSeq(res.poly), k) ELSE Rotate(res.poly, k) IN
      \A i \in 1..Len(res.q) : res.q[i][3] # 0 => (InClosed2(p2, res.q[i]) <=> res.a.inside[i])
\* winding number and crossing parity agree for simple polygons off the boundary; the boundary is in the region
WindingIsParity == IsPoly =>
   \A i \in 1..Len(res.q) : (res.q[i][3] # 0 /\ ~OnBoundary2(res.poly, res.q[i])) =>
        ((Winding(res.poly, res.q[i]) # 0) <=> CrossParity(res.poly, res.q[i]))
\* triangles: barycentric characterisation agrees
TriangleBary == (Done /\ res.t = "tri") =>
   \A i \in 1..Len(res.q) : res.q[i][3] # 0 =>
      LET p == res.q[i] P == res.poly
          o1 == Orient(P[1], P[2], p) o2 == Orient(P[2], P[3], p) o3 == Orient(P[3], P[1], p)
      IN res.a.inside[i] <=> ((o1 >= 0 /\ o2 >= 0 /\ o3 >= 0) \/ (o1 <= 0 /\ o2 <= 0 /\ o3 <= 0))
\* segments: the parameter definition  p = a + x (b - a), 0 <= x <= 1  on 4 w |b-a|^2 sample parameters
SegParam == (Done /\ res.t = "seg" /\ ~res.ray) =>
   \A i \in 1..Len(res.q) : LET p == res.q[i] w == W(p) IN
      (w > 0) => (res.inside[i] <=>
         \E n \in 0..(12 * w) : VScale(12, AffPart(p)) = VAdd(VScale((12 * w) - n, res.a), VScale(n, res.b)))

Stratum ==
  CASE res.t = "seg" -> (IF res.ray THEN "ray" ELSE "segment")
    [] OTHER -> (IF IsConvex(res.poly) THEN "convex" ELSE "non-convex") \o (IF Area2(res.poly) > 0 THEN "/ccw" ELSE "/cw")
Dump == (Done /\ DoDump) => PrintT(ToJson([r |-> res, s |-> Stratum,
             emb |-> IF res.t \in {"tri3", "quad3"} THEN Embeds[res.e] ELSE <<>>]))
=============================================================================
