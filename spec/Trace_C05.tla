------------------------------ MODULE Trace_C05 ------------------------------
(***************************************************************************)
(* Trace validation for C05.  The recorder drives real TensorDiagram       *)
(* objects and logs, after every call, the abstract state read from the    *)
(* object itself (_nodes, _unused_indices, _contraction_list) and the      *)
(* outcome; calculate() logs the complete result.  Every event must be the *)
(* corresponding action of Diagram with exactly the logged next state.     *)
(* A trace file holds many diagrams: a "world" event starts a new one.     *)
(* Verdicts are total: a rejected event is recorded in `bad` with the      *)
(* failing clause and the rest of that diagram is skipped.                 *)
(***************************************************************************)
EXTENDS Diagram, IOUtils

VARIABLES l, bad, live
tvars == <<vars, l, bad, live>>
Trace == ndJsonDeserialize(IOEnv.TRACE_FILE)

TraceInit ==
  /\ l = 1 /\ bad = {} /\ live = FALSE
  /\ world = [pat |-> [i \in Ids |-> <<"cov">>], copy |-> [i \in Ids |-> i], dim |-> [i \in Ids |-> 2]]
  /\ nodes = <<>> /\ unused = <<>> /\ edges = <<>> /\ err = "none" /\ hist = <<>>
  /\ pc = "build" /\ result = [t |-> "none"]

IsEvent(o) == l <= Len(Trace) /\ Trace[l].op = o /\ l' = l + 1
Reject(why) == bad' = bad \cup {<<l, why>>} /\ live' = FALSE

ValTable(w) == [i \in Ids |-> LET dims == [a \in 1..Len(w.pat[i]) |-> IF w.pat[i][a] = "free" THEN 2 ELSE w.dim[i]]
                                  sq == IdxSeq(dims)
                              IN [b \in 1..Len(sq) |-> 1 + w.copy[i] * 7 + Enc(sq[b], 1) * (1 + w.copy[i])]]

\* a new diagram: the logged contents must be the contents the specification assumes
TrWorld ==
  /\ IsEvent("world")
  /\ LET e == Trace[l] w == [pat |-> e.pat, copy |-> e.copy, dim |-> e.dim] IN
       /\ world' = w
       /\ nodes' = <<>> /\ unused' = <<>> /\ edges' = <<>> /\ err' = "none" /\ hist' = <<>>
       /\ pc' = "build" /\ result' = [t |-> "none"]
       /\ IF e.vals = ValTable(w) THEN bad' = bad /\ live' = TRUE ELSE Reject("contents")

StateWhy(e) ==
  IF e.err # err' THEN "error: spec " \o err' \o ", logged " \o e.err
  ELSE IF e.nodes # nodes' THEN "nodes"
  ELSE IF e.unused # unused' THEN "unused-indices"
  ELSE IF e.edges # edges' THEN "contraction-list"
  ELSE "ok"

TrAddEdge ==
  /\ IsEvent("add_edge") /\ live
  /\ LET e == Trace[l] IN
       /\ AddEdge(e.s, e.t)
       /\ IF StateWhy(e) = "ok" THEN bad' = bad /\ live' = TRUE ELSE Reject(StateWhy(e))

TrAddNode ==
  /\ IsEvent("add_node") /\ live
  /\ LET e == Trace[l] IN
       /\ AddNode(e.s)
       /\ IF StateWhy(e) = "ok" THEN bad' = bad /\ live' = TRUE ELSE Reject(StateWhy(e))

ResultWhy(e) ==
  IF e.shape # result'.shape THEN "result-shape"
  ELSE IF <<e.nfree, e.ncov, e.ncon>> # <<result'.nfree, result'.ncov, result'.ncon>> THEN "result-index-types"
  ELSE IF e.flat # result'.flat THEN "result-values"
  ELSE "ok"

TrCalculate ==
  /\ IsEvent("calculate") /\ live
  /\ LET e == Trace[l] IN
       /\ pc = "build" /\ err = "none" /\ hist # <<>>
       /\ result' = CalcResult                    \* Diagram!Calculate without ending the history
       /\ UNCHANGED <<world, nodes, unused, edges, err, hist, pc>>
       /\ IF ResultWhy(e) = "ok" THEN bad' = bad /\ live' = TRUE ELSE Reject(ResultWhy(e))

\* the rest of a rejected diagram is consumed without being judged
TrSkip ==
  /\ l <= Len(Trace) /\ Trace[l].op # "world" /\ ~live /\ l' = l + 1
  /\ UNCHANGED <<vars, bad, live>>

\* an event that is no step of the specification at all (its action is not enabled in the current state, e.g. a
\* calculate() logged for an empty diagram because an earlier event is missing): rejected, like any other mismatch
TrNoStep ==
  /\ l <= Len(Trace) /\ Trace[l].op # "world" /\ live /\ l' = l + 1
  /\ ~ENABLED (TrAddEdge \/ TrAddNode \/ TrCalculate)
  /\ Reject("no-step-of-the-specification")
  /\ UNCHANGED vars

TraceNext == TrWorld \/ TrAddEdge \/ TrAddNode \/ TrCalculate \/ TrSkip \/ TrNoStep
TraceSpec == TraceInit /\ [][TraceNext]_tvars

AtEnd == l = Len(Trace) + 1
Report == AtEnd => PrintT(ToJson([consumed |-> l - 1, bad |-> bad]))
TraceAccepted == TLCGet("stats").diameter = Len(Trace) + 1
=============================================================================
