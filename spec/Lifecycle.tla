------------------------------ MODULE Lifecycle ------------------------------
(***************************************************************************)
(* C12, second state machine: the life cycle of objects.                   *)
(*                                                                         *)
(* Purity.tla keeps a fixed pool of objects and lets queries run on it.    *)
(* Here objects are also DERIVED from one another (moved by a              *)
(* transformation, translated by + point, copied, given a new axis) and    *)
(* EDITED in place through item assignment, with queries interleaved in    *)
(* every possible way.  The abstract state of an object is the sequence of *)
(* derive / edit steps that produced its coordinates (its `path`) and the  *)
(* memory block its array lives in (`mem`): geometer's copy() and          *)
(* expand_dims() share the array with the source.                          *)
(*                                                                         *)
(* What a query answers is a function of the path alone.  The replay       *)
(* therefore rebuilds, for every query of a history, the queried object    *)
(* from a fresh root by its path - WITHOUT any of the interleaved queries  *)
(* - and demands bit-identical answers: nothing an object memorises about  *)
(* earlier queries (or inherits from the object it was derived from) may   *)
(* show.                                                                   *)
(***************************************************************************)
EXTENDS Integers, Sequences, FiniteSets, TLC, Json

CONSTANTS Kinds,       \* set of kind names
          NQ, ND, NE,  \* kind -> number of queries / derivations / edits (functions given by the cfg through Defs below)
          SharesMem,   \* kind -> set of derivation numbers whose result shares the array of the source
          MaxLen, MaxObjs, DoDump
VARIABLES kind, objs, hist, nextmem
vars == <<kind, objs, hist, nextmem>>

Init == /\ kind \in Kinds
        /\ objs = << [path |-> <<>>, mem |-> 1] >>
        /\ hist = <<>> /\ nextmem = 2

Query(o, i) ==
  /\ hist' = Append(hist, <<"q", o, i>>)
  /\ UNCHANGED <<kind, objs, nextmem>>            \* a query changes nothing

Derive(o, i) ==
  /\ Len(objs) < MaxObjs
  /\ LET shared == i \in SharesMem[kind] IN
     /\ objs' = Append(objs, [path |-> Append(objs[o].path, <<"d", i>>), mem |-> IF shared THEN objs[o].mem ELSE nextmem])
     /\ nextmem' = IF shared THEN nextmem ELSE nextmem + 1
  /\ hist' = Append(hist, <<"d", o, i>>)
  /\ UNCHANGED kind

\* item assignment writes into the array.  geometer's copy() and expand_dims() are shallow: an alias shares the array but
\* not what the object derives from it (supporting line / plane), so editing through one alias while another exists is
\* outside what the library defines; the model enables an edit only for the sole owner of a memory block
SoleOwner(o) == \A k \in DOMAIN objs : objs[k].mem = objs[o].mem => k = o
Edit(o, i) ==
  /\ SoleOwner(o)
  /\ objs' = [objs EXCEPT ![o].path = Append(@, <<"e", i>>)]
  /\ hist' = Append(hist, <<"e", o, i>>)
  /\ UNCHANGED <<kind, nextmem>>

Next == /\ Len(hist) < MaxLen
        /\ \E o \in DOMAIN objs :
             \/ \E i \in 1..NQ[kind] : Query(o, i)
             \/ \E i \in 1..ND[kind] : Derive(o, i)
             \/ \E i \in 1..NE[kind] : Edit(o, i)
Spec == Init /\ [][Next]_vars

\* ---------------------------------------------------------------------------
TypeOK == /\ Len(objs) <= MaxObjs /\ Len(hist) <= MaxLen
          /\ \A o \in DOMAIN objs : objs[o].mem \in 1..(nextmem - 1)
\* a query is a stuttering step on the objects (the property's words: no operation changes its operands)
QueriesArePure == [][(Len(hist') > Len(hist) /\ hist'[Len(hist')][1] = "q") => objs' = objs]_vars
\* the objects of one memory block differ from its founder (the first of them) only by array-sharing derivations: nobody
\* edits a shared block, and the founder's own edits all happened before its first alias was made
Founder(o) == CHOOSE f \in DOMAIN objs : objs[f].mem = objs[o].mem /\ \A k \in DOMAIN objs : objs[k].mem = objs[o].mem => f <= k
AliasesSeeTheSameData == \A b \in DOMAIN objs :
    LET fp == objs[Founder(b)].path bp == objs[b].path IN
    /\ Len(fp) <= Len(bp) /\ SubSeq(bp, 1, Len(fp)) = fp
    /\ \A j \in (Len(fp) + 1)..Len(bp) : bp[j][1] = "d" /\ bp[j][2] \in SharesMem[kind]

\* only complete histories that end with a query are dumped (every query inside them is checked by the replay)
Dump == (DoDump /\ Len(hist) = MaxLen /\ hist[MaxLen][1] = "q") =>
          PrintT(ToJson([k |-> kind, h |-> hist, paths |-> [o \in DOMAIN objs |-> objs[o].path]]))
=============================================================================
