------------------------------ MODULE EpsDelta ------------------------------
(***************************************************************************)
(* C05 (second half): the Levi-Civita symbol and the generalised Kronecker *)
(* delta, entry by entry, from their definitions:                          *)
(*   eps_{i1..in}          = sign of the permutation, 0 if not one         *)
(*   delta^{m1..mp}_{n1..np} = det [ delta(m_i, n_j) ]   (p x p)           *)
(* geometer stores delta with the p covariant (lower, n) axes first.       *)
(***************************************************************************)
EXTENDS LinAlg, Json

CONSTANTS MaxEps, DeltaSizes, DoDump
DeltaQuick == {<<1,1>>, <<2,1>>, <<3,1>>, <<4,1>>, <<2,2>>, <<3,2>>, <<4,2>>, <<5,2>>, <<3,3>>, <<4,3>>,
               <<2,3>>, <<1,2>>, <<3,4>>, <<4,4>>, <<8,2>>}
DeltaFull == DeltaQuick \cup {<<5,1>>, <<5,3>>, <<2,4>>, <<6,2>>, <<7,2>>, <<9,2>>, <<6,3>>, <<7,1>>}
VARIABLES pc, item, out
vars == <<pc, item, out>>

Items == {[t |-> "eps", n |-> n, p |-> 0] : n \in 1..MaxEps}
         \cup {[t |-> "delta", n |-> np[1], p |-> np[2]] : np \in DeltaSizes}

KMat(mu, nu) == [i \in DOMAIN mu |-> [j \in DOMAIN nu |-> IF mu[i] = nu[j] THEN 1 ELSE 0]]
DeltaEntry(n, p, nu, mu) == IF p = 1 THEN (IF nu[1] = mu[1] THEN 1 ELSE 0) ELSE Det(KMat(mu, nu))
DeltaEntryDef(n, p, nu, mu) == DetLeibniz(KMat(mu, nu))

Init == pc = "start" /\ item \in Items /\ out = <<>>
Compute ==
  /\ pc = "start" /\ pc' = "done" /\ UNCHANGED item
  /\ out' = IF item.t = "eps"
            THEN LET ps == PermsOf(item.n) IN
                 [nz |-> {[i |-> p, s |-> PermSign(p)] : p \in ps}]
            ELSE LET I == [1..item.p -> 1..item.n] IN
                 [nz |-> {[i |-> x[1] \o x[2], s |-> DeltaEntry(item.n, item.p, x[1], x[2])] :
                           x \in {y \in I \X I : DeltaEntry(item.n, item.p, y[1], y[2]) # 0}}]
Next == Compute
Spec == Init /\ [][Next]_vars

Done == pc = "done"
\* definitions agree: Laplace expansion vs. Leibniz sum; antisymmetry; p = n is eps (x) eps; p > n vanishes
DeltaIsDefinition == (Done /\ item.t = "delta" /\ item.p <= 3) =>
   \A e \in out.nz : e.s = DeltaEntryDef(item.n, item.p, SubSeq(e.i, 1, item.p), SubSeq(e.i, item.p + 1, 2 * item.p))
DeltaEpsIdentity == (Done /\ item.t = "delta" /\ item.p = item.n) =>
   \A e \in out.nz : e.s = Eps(SubSeq(e.i, 1, item.p)) * Eps(SubSeq(e.i, item.p + 1, 2 * item.p))
DeltaVanishes == (Done /\ item.t = "delta" /\ item.p > item.n) => out.nz = {}
EpsAntisymmetric == (Done /\ item.t = "eps" /\ item.n >= 2) =>
   \A e \in out.nz : \E f \in out.nz : f.i = [e.i EXCEPT ![1] = e.i[2], ![2] = e.i[1]] /\ f.s = -e.s
EpsCount == (Done /\ item.t = "eps") => /\ Cardinality(out.nz) = Cardinality(PermsOf(item.n))
                                        /\ \E e \in out.nz : e.i = [k \in 1..item.n |-> k] /\ e.s = 1

Dump == (Done /\ DoDump) => PrintT(ToJson([t |-> item.t, n |-> item.n, p |-> item.p, nz |-> out.nz]))
=============================================================================
