---------------------------- MODULE C18_Intersect ----------------------------
(***************************************************************************)
(* C18: polytope intersections return exactly the common points.           *)
(* The expected result is a SET of projective points (exact), or - when    *)
(* the operands overlap in infinitely many points (collinear segments, a   *)
(* line inside the plane of a polygon) - the relation "a subset of the     *)
(* common points", which is all the property demands there.                *)
(* Declarative: every expected point lies on both operands, and every      *)
(* lattice point lying on both operands is expected.                       *)
(***************************************************************************)
EXTENDS Poly, Json, SequencesExt

CONSTANTS Tasks, Stride, Seed, DoDump
VARIABLES pc, task, first, res
vars == <<pc, task, first, res>>

VHash(v) == 100003 + DotFrom(v, [i \in 1..Len(v) |-> 7 * i * i + 3 * i + 1], 1)
Keep(v, s) == VHash(v) % s = Seed % s

G2 == {<<x, y>> : x \in 0..2, y \in 0..2}
Lines2 == {l \in Classes(3, 2) : ~IsZeroV(NormalOf(l))}
PosW(p) == IF W(p) < 0 THEN VNeg(p) ELSE p                \* representative with w >= 0
LineOf2(a, b) == Cross(H(a), H(b))

\* intersection of the closed segment ab with the line l: <<kind, set>>
SegLine2(a, b, l) ==
  LET m == LineOf2(a, b) IN
  IF Proportional(m, l) THEN [k |-> "rel", pts |-> {}]
  ELSE LET x == PosW(Cross(m, l)) IN
       IF W(x) > 0 /\ OnSeg2(a, b, x) THEN [k |-> "set", pts |-> {Primitive(x)}] ELSE [k |-> "set", pts |-> {}]
SegSeg2(a, b, c, d) ==
  LET m == LineOf2(a, b) n == LineOf2(c, d) IN
  IF Proportional(m, n) THEN [k |-> "rel", pts |-> {}]
  ELSE LET x == PosW(Cross(m, n)) IN
       IF W(x) > 0 /\ OnSeg2(a, b, x) /\ OnSeg2(c, d, x) THEN [k |-> "set", pts |-> {Primitive(x)}] ELSE [k |-> "set", pts |-> {}]
\* polygon (boundary) with a line / a segment: union over the edges; an edge along the operand makes it a relation
Edges(poly) == {<<poly[i], poly[NextIdx(poly, i)]>> : i \in DOMAIN poly}
PolyLine2(poly, l) ==
  LET rs == {SegLine2(e[1], e[2], l) : e \in Edges(poly)} IN
  [k |-> IF \E r \in rs : r.k = "rel" THEN "rel" ELSE "set", pts |-> UNION {r.pts : r \in rs}]
\* two collinear segments overlap in more than one point iff two distinct end points lie on both of them
OverlapLong(a, b, c, d) == Cardinality({x \in {a, b, c, d} : OnSeg2(a, b, H(x)) /\ OnSeg2(c, d, H(x))}) >= 2
\* an edge on the supporting line of the segment makes the result a relation only when the two overlap in infinitely many
\* points; when they are disjoint or touch in one point (then a vertex, which the neighbouring edge contributes) the common
\* points are finitely many and the result is the exact set (invariant PolySegSound checks this claim against the definition)
PolySeg2(poly, c, d) ==
  LET EdgeSeg(e) == IF Proportional(LineOf2(e[1], e[2]), LineOf2(c, d))
                    THEN (IF OverlapLong(e[1], e[2], c, d) THEN [k |-> "rel", pts |-> {}] ELSE [k |-> "set", pts |-> {}])
                    ELSE SegSeg2(e[1], e[2], c, d)
      rs == {EdgeSeg(e) : e \in Edges(poly)} IN
  [k |-> IF \E r \in rs : r.k = "rel" THEN "rel" ELSE "set", pts |-> UNION {r.pts : r \in rs}]

\* ---- 3-space (Cartesian integer vertices)
H3(a) == a \o <<1>>
Line3Of(a, b) == PlueckerOfPoints(H3(a), H3(b))
PlaneLine3(e, L) == LET x == Meet3LE(L, e) IN IF IsZeroV(x) THEN <<0, 0, 0, 0>> ELSE PosW(x)
SegPlane3(a, b, e) ==
  LET x == PlaneLine3(e, Line3Of(a, b)) IN
  IF IsZeroV(x) THEN (IF PointOnHyper(H3(a), e) THEN [k |-> "rel", pts |-> {}] ELSE [k |-> "set", pts |-> {}])
  ELSE IF W(x) > 0 /\ OnSegN3(a, b, x) THEN [k |-> "set", pts |-> {Primitive(x)}] ELSE [k |-> "set", pts |-> {}]
PolyLine3(poly, L) ==
  LET e == PlaneOf3(poly) x == PlaneLine3(e, L) IN
  IF IsZeroV(x) THEN (IF Line3InPlane(L, e) THEN [k |-> "rel", pts |-> {}] ELSE [k |-> "set", pts |-> {}])
  ELSE IF W(x) > 0 /\ InClosed3(poly, x) THEN [k |-> "set", pts |-> {Primitive(x)}] ELSE [k |-> "set", pts |-> {}]
PolySeg3(poly, a, b) ==
  LET r == PolyLine3(poly, Line3Of(a, b)) IN
  IF r.k = "rel" THEN r ELSE [k |-> "set", pts |-> {p \in r.pts : OnSegN3(a, b, p)}]
Box(c) ==
  { << <<0,0,0>>, <<0,0,c[3]>>, <<0,c[2],c[3]>>, <<0,c[2],0>> >>, << <<0,0,0>>, <<c[1],0,0>>, <<c[1],0,c[3]>>, <<0,0,c[3]>> >>,
    << <<0,0,0>>, <<c[1],0,0>>, <<c[1],c[2],0>>, <<0,c[2],0>> >>, << <<c[1],0,0>>, <<c[1],0,c[3]>>, <<c[1],c[2],c[3]>>, <<c[1],c[2],0>> >>,
    << <<0,c[2],0>>, <<c[1],c[2],0>>, <<c[1],c[2],c[3]>>, <<0,c[2],c[3]>> >>, << <<0,0,c[3]>>, <<c[1],0,c[3]>>, <<c[1],c[2],c[3]>>, <<0,c[2],c[3]>> >> }
BoxLine(c, L) ==
  LET rs == {PolyLine3(f, L) : f \in Box(c)} IN
  [k |-> IF \E r \in rs : r.k = "rel" THEN "rel" ELSE "set", pts |-> UNION {r.pts : r \in rs}]

Polys2 == { << <<0,0>>, <<2,0>>, <<2,2>>, <<0,2>> >>, << <<0,0>>, <<2,0>>, <<0,2>> >>,
            << <<0,0>>, <<2,0>>, <<2,2>>, <<1,1>>, <<0,2>> >>, << <<0,1>>, <<1,0>>, <<2,1>>, <<1,2>> >> }
Polys3 == { << <<0,0,1>>, <<2,0,1>>, <<2,2,1>>, <<0,2,1>> >>, << <<0,0,0>>, <<2,0,2>>, <<2,2,4>>, <<0,2,2>> >>,
            << <<1,0,0>>, <<0,1,0>>, <<0,0,1>> >>, << <<0,0,0>>, <<2,0,0>>, <<2,2,0>>, <<1,1,0>>, <<0,2,0>> >> }
P3small == {<<x, y, z>> : x \in -1..3, y \in -1..3, z \in -1..3}

Init == pc = "start" /\ task \in Tasks /\ first = <<>> /\ res = [t |-> "none"]
Choose ==
  /\ pc = "start" /\ pc' = "chosen" /\ UNCHANGED <<task, res>>
  /\ \/ task \in {"segseg2", "segline2"} /\ \E a \in G2 : first' = a
     \/ task \in {"polyline2", "polyseg2"} /\ \E P \in Polys2 : first' = P
     \/ task \in {"polyline3", "polyseg3"} /\ \E P \in Polys3 : first' = P
     \/ task = "segplane3" /\ \E a \in {<<0,0,0>>, <<1,-1,2>>, <<2,2,1>>} : first' = a
     \/ task = "boxline" /\ \E c \in {<<2, 2, 2>>, <<2, 1, 3>>} : first' = c

Compute ==
  /\ pc = "chosen" /\ pc' = "done" /\ UNCHANGED <<task, first>>
  /\ \/ /\ task = "segseg2"
        /\ \E b \in G2, c \in G2, d \in G2 :
             /\ b # first /\ c # d /\ Keep(first \o b \o c \o d, Stride)
             /\ res' = [t |-> "segseg2", a |-> first, b |-> b, c |-> c, d |-> d, r |-> SegSeg2(first, b, c, d)]
     \/ /\ task = "segline2"
        /\ \E b \in G2, l \in Lines2 :
             /\ b # first /\ Keep(first \o b \o l, Stride)
             /\ res' = [t |-> "segline2", a |-> first, b |-> b, l |-> l, r |-> SegLine2(first, b, l)]
     \/ /\ task = "polyline2"
        /\ \E l \in Lines2 : res' = [t |-> "polyline2", poly |-> first, l |-> l, r |-> PolyLine2(first, l)]
     \/ /\ task = "polyseg2"
        /\ \E c \in {<<x, y>> : x \in -1..3, y \in -1..3}, d \in {<<x, y>> : x \in -1..3, y \in -1..3} :
             /\ c # d /\ Keep(c \o d, Stride)
             /\ res' = [t |-> "polyseg2", poly |-> first, c |-> c, d |-> d, r |-> PolySeg2(first, c, d)]
     \/ /\ task = "polyline3"
        /\ \E a \in P3small, b \in P3small :
             /\ a # b /\ Keep(a \o b, 6 * Stride)
             /\ res' = [t |-> "polyline3", poly |-> first, a |-> a, b |-> b, r |-> PolyLine3(first, Line3Of(a, b))]
     \/ /\ task = "polyseg3"
        /\ \E a \in P3small, b \in P3small :
             /\ a # b /\ Keep(a \o b, 6 * Stride)
             /\ res' = [t |-> "polyseg3", poly |-> first, a |-> a, b |-> b, r |-> PolySeg3(first, a, b)]
     \/ /\ task = "segplane3"
        /\ \E b \in {<<2,1,2>>, <<1,1,1>>, <<0,2,-1>>}, e \in {h \in Classes(4, 1) : ~IsZeroV(NormalOf(h))} :
             /\ b # first
             /\ res' = [t |-> "segplane3", a |-> first, b |-> b, e |-> e, r |-> SegPlane3(first, b, e)]
     \/ /\ task = "boxline"
        /\ \E a \in P3small, b \in P3small :
             /\ a # b /\ Keep(a \o b, 3 * Stride)
             /\ res' = [t |-> "boxline", c |-> first, a |-> a, b |-> b, r |-> BoxLine(first, Line3Of(a, b))]

Next == Choose \/ Compute
Spec == Init /\ [][Next]_vars

\* ---------------------------------------------------------------------------
Done == pc = "done"
\* every expected point lies on both operands; and every lattice point on both operands is expected (2D families)
OnBoth2 == (Done /\ res.t = "segseg2" /\ res.r.k = "set") =>
   /\ \A p \in res.r.pts : OnSeg2(res.a, res.b, p) /\ OnSeg2(res.c, res.d, p)
   /\ \A q \in {<<x, y, w>> : x \in 0..4, y \in 0..4, w \in {1, 2}} :
        (OnSeg2(res.a, res.b, q) /\ OnSeg2(res.c, res.d, q)) => Primitive(q) \in res.r.pts
PolyLineSound == (Done /\ res.t = "polyline2" /\ res.r.k = "set") =>
   /\ \A p \in res.r.pts : PointOnHyper(p, res.l) /\ OnBoundary2(res.poly, p)
   /\ \A q \in {<<x, y, w>> : x \in 0..4, y \in 0..4, w \in {1, 2}} :
        (PointOnHyper(q, res.l) /\ OnBoundary2(res.poly, q)) => Primitive(q) \in res.r.pts
PolySegSound == (Done /\ res.t = "polyseg2" /\ res.r.k = "set") =>
   /\ \A p \in res.r.pts : OnSeg2(res.c, res.d, p) /\ OnBoundary2(res.poly, p)
   /\ \A q \in {<<x, y, w>> : x \in 0..4, y \in 0..4, w \in {1, 2}} :
        (OnSeg2(res.c, res.d, q) /\ OnBoundary2(res.poly, q)) => Primitive(q) \in res.r.pts
\* a transversal through the interior of a convex polygon meets the boundary in exactly two points
ConvexTwo == (Done /\ res.t = "polyline2" /\ res.r.k = "set" /\ Len(res.poly) <= 4) => Cardinality(res.r.pts) <= 2
BoxSound == (Done /\ res.t = "boxline" /\ res.r.k = "set") =>
   /\ Cardinality(res.r.pts) <= 2
   /\ \A p \in res.r.pts : \E f \in Box(res.c) : InClosed3(f, p)

Stratum ==
  LET n == Cardinality(res.r.pts) IN
  IF res.r.k = "rel" THEN "collinear-overlap"
  ELSE IF res.t = "polyseg2" /\ (\E e \in Edges(res.poly) : Proportional(LineOf2(e[1], e[2]), LineOf2(res.c, res.d)))
       THEN "segment-on-edge-line"
  ELSE IF n = 0 THEN "miss"
  ELSE IF res.t = "segseg2" /\ (\E p \in res.r.pts : p \in {H(res.a), H(res.b), H(res.c), H(res.d)}) THEN "touch-endpoint"
  ELSE IF res.t \in {"polyline2", "polyseg2"} /\ (\E p \in res.r.pts, i \in DOMAIN res.poly : p = H(res.poly[i])) THEN "through-vertex"
  ELSE IF res.t = "boxline" /\ n = 1 THEN "touch-edge-or-vertex"
  ELSE "transversal"
Dump == (Done /\ DoDump) => PrintT(ToJson([r |-> [res EXCEPT !.r = [k |-> res.r.k, pts |-> SetToSeq(res.r.pts)]], s |-> Stratum]))
=============================================================================
