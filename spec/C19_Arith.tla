------------------------------ MODULE C19_Arith ------------------------------
(***************************************************************************)
(* C19 (arithmetic half): t+x, t-x, x-t, t*c, t/c, -t are the elementwise  *)
(* array results with the index types of t; on points they are affine      *)
(* vector arithmetic in which a point at infinity acts as a direction;     *)
(* transpose permutes the index types with the axes.                       *)
(* Values are exact: entries are rationals <<n, d>>.                       *)
(***************************************************************************)
EXTENDS LinAlg, Json, SequencesExt

CONSTANTS Tasks, DoDump
VARIABLES pc, task, first, res
vars == <<pc, task, first, res>>

R(n) == <<n, 1>>
Mats == {<< <<1, 2>>, <<3, 4>> >>, << <<0, -1>>, <<5, 2>> >>, << <<-3, 0>>, <<1, 7>> >>}
Ops == {"add", "sub", "rsub", "radd", "mul", "rmul", "div", "neg"}
Scalars == {<<2, 1>>, <<-3, 1>>, <<1, 2>>, <<0, 1>>}          \* rationals; 1/2 is given to the library as the float 0.5
ElemOp(op, a, b) == CASE op \in {"add", "radd"} -> RAdd(a, b) [] op = "sub" -> RSub(a, b) [] op = "rsub" -> RSub(b, a)
                      [] op \in {"mul", "rmul"} -> RMul(a, b) [] op = "div" -> RDiv(a, b)

\* affine point arithmetic on homogeneous integer points (last coordinate w; w = 0: a direction, used as it is written)
Aff(p) == SubSeq(p, 1, Len(p) - 1)
Wt(p) == p[Len(p)]
PAdd(p, q, sgn) ==     \* p + sgn * q
  LET a == Aff(p) b == Aff(q) IN
  IF Wt(p) # 0 /\ Wt(q) # 0 THEN VAdd(VScale(Wt(q), a), VScale(sgn * Wt(p), b)) \o <<Wt(p) * Wt(q)>>
  ELSE IF Wt(p) # 0 THEN VAdd(a, VScale(sgn * Wt(p), b)) \o <<Wt(p)>>
  ELSE IF Wt(q) # 0 THEN VAdd(VScale(Wt(q), a), VScale(sgn, b)) \o <<Wt(q)>>
  ELSE VAdd(a, VScale(sgn, b)) \o <<0>>
PScale(p, k) ==        \* (k[1]/k[2]) * p
  IF Wt(p) # 0 THEN VScale(k[1], Aff(p)) \o <<k[2] * Wt(p)>> ELSE VScale(k[1], Aff(p)) \o <<0>>
Pts == {<<1, 2, 1>>, <<0, 0, 1>>, <<3, -1, 2>>, <<-2, 4, -2>>, <<1, 1, 0>>, <<2, -1, 0>>, <<1, 0, 2, 1>>, <<0, 3, -1, 3>>, <<1, 2, 2, 0>>}

Init == pc = "start" /\ task \in Tasks /\ first = <<>> /\ res = [t |-> "none"]
Choose ==
  /\ pc = "start" /\ pc' = "chosen" /\ UNCHANGED <<task, res>>
  /\ \/ task = "tens" /\ \E M \in Mats : first' = M
     \/ task = "pts" /\ \E p \in Pts : first' = p
     \/ task = "transpose" /\ \E r \in 2..4 : first' = <<r>>
     \/ task = "tprod" /\ \E r \in 1..3 : first' = <<r>>
     \/ task = "expand" /\ \E r \in 1..3 : first' = <<r>>

Compute ==
  /\ pc = "chosen" /\ pc' = "done" /\ UNCHANGED <<task, first>>
  /\ \/ /\ task = "tens"
        /\ \E op \in Ops, ty \in [1..2 -> {"cov", "con"}] :
             \/ /\ op \in {"add", "sub", "rsub", "radd"}
                /\ \E X \in Mats, kind \in {"tensor", "ndarray", "row"} :
                     LET Y == IF kind = "row" THEN <<X[1], X[1]>> ELSE X IN
                     res' = [t |-> "tens", op |-> op, ty |-> ty, M |-> first, kind |-> kind, X |-> IF kind = "row" THEN <<X[1]>> ELSE X,
                             val |-> [i \in 1..2 |-> [j \in 1..2 |-> ElemOp(op, R(first[i][j]), R(Y[i][j]))]]]
             \/ /\ op \in {"add", "sub", "rsub", "radd", "mul", "rmul", "div"}
                /\ \E c \in Scalars, kind \in {"pyscalar", "npscalar"} :
                     /\ (op = "div" => c[1] # 0)
                     /\ res' = [t |-> "tens", op |-> op, ty |-> ty, M |-> first, kind |-> kind, X |-> c,
                                val |-> [i \in 1..2 |-> [j \in 1..2 |-> ElemOp(op, R(first[i][j]), c)]]]
             \/ /\ op = "neg"
                /\ res' = [t |-> "tens", op |-> op, ty |-> ty, M |-> first, kind |-> "none", X |-> <<0, 1>>,
                           val |-> [i \in 1..2 |-> [j \in 1..2 |-> RNeg(R(first[i][j]))]]]
     \/ /\ task = "pts"
        /\ \/ \E q \in {x \in Pts : Len(x) = Len(first)}, op \in {"add", "sub"} :
                LET v == PAdd(first, q, IF op = "add" THEN 1 ELSE -1) IN
                res' = [t |-> "pts", op |-> op, p |-> first, q |-> q, k |-> <<0, 1>>, val |-> Primitive(v), finite |-> Wt(v) # 0]
           \/ \E k \in {<<2, 1>>, <<-3, 1>>, <<1, 2>>}, op \in {"mul", "rmul", "div"} :
                LET kk == IF op = "div" THEN <<k[2], k[1]>> ELSE k v == PScale(first, kk) IN
                res' = [t |-> "pts", op |-> op, p |-> first, q |-> <<>>, k |-> k, val |-> Primitive(v), finite |-> Wt(v) # 0]
           \/ res' = [t |-> "pts", op |-> "neg", p |-> first, q |-> <<>>, k |-> <<-1, 1>>, val |-> Primitive(PScale(first, <<-1, 1>>)),
                      finite |-> Wt(first) # 0]
     \/ /\ task = "transpose"
        /\ LET r == first[1] IN
           \E nfree \in 0..(r - 2), ty \in [1..r -> {"cov", "con"}] :
             \/ \E perm \in PermsOf(r) :
                  /\ \A a \in 1..nfree : perm[a] = a                  \* collection axes are not permuted
                  /\ res' = [t |-> "transpose", rank |-> r, nfree |-> nfree, ty |-> [a \in 1..r |-> IF a <= nfree THEN "free" ELSE ty[a]],
                             perm |-> perm, cyc |-> <<>>,
                             rty |-> [a \in 1..r |-> IF perm[a] <= nfree THEN "free" ELSE ty[perm[a]]]]
             \/ \E c \in {cc \in [1..2 -> (nfree + 1)..r] : cc[1] # cc[2] /\ 2 < r}
                         \cup {cc \in [1..3 -> (nfree + 1)..r] : Cardinality({cc[1], cc[2], cc[3]}) = 3 /\ 3 < r} :     \* a list shorter than the rank is a cycle
                  \* cycle notation: the axis at position c[k] moves ... the library defines a[c[k]] = c[k+1]
                  LET perm == [a \in 1..r |-> IF \E k \in DOMAIN c : c[k] = a
                                              THEN c[((CHOOSE k \in DOMAIN c : c[k] = a) % Len(c)) + 1] ELSE a] IN
                  res' = [t |-> "transpose", rank |-> r, nfree |-> nfree, ty |-> [a \in 1..r |-> IF a <= nfree THEN "free" ELSE ty[a]],
                          perm |-> perm, cyc |-> c,
                          rty |-> [a \in 1..r |-> IF perm[a] <= nfree THEN "free" ELSE ty[perm[a]]]]

     \/ /\ task = "tprod"        \* tensor product: every axis of both factors, covariant ones in front, each factor in its own order
        /\ LET r1 == first[1] IN
           \E r2 \in 1..2 : \E ty1 \in [1..r1 -> {"cov", "con"}], ty2 \in [1..r2 -> {"cov", "con"}] :
             LET sel(f, ty, x) == SelectSeq([a \in 1..Len(ty) |-> <<f, a>>], LAMBDA fa : ty[fa[2]] = x)
                 src == sel(1, ty1, "cov") \o sel(2, ty2, "cov") \o sel(1, ty1, "con") \o sel(2, ty2, "con") IN
             res' = [t |-> "tprod", ty1 |-> ty1, ty2 |-> ty2, src |-> src,
                     rty |-> [k \in DOMAIN src |-> IF src[k][1] = 1 THEN ty1[src[k][2]] ELSE ty2[src[k][2]]]]

     \/ /\ task = "expand"       \* expand_dims of a collection: a new collection axis at a position up to the number of collection axes
        /\ LET r == first[1] IN
           \E ty \in [1..r -> {"free", "cov", "con"}], ax \in (-(r + 1))..r :
             LET pos == IF ax < 0 THEN ax + r + 1 ELSE ax               \* 0-based position of the new axis
                 nfree == Cardinality({a \in 1..r : ty[a] = "free"}) IN
             /\ nfree > 0 /\ nfree < r /\ ty[1] = "free"      \* a collection as the constructors make it, possibly list-indexed afterwards
             /\ res' = [t |-> "expand", ty |-> ty, ax |-> ax, ok |-> pos <= nfree,
                        rty |-> [k \in 1..(r + 1) |-> IF k = pos + 1 THEN "free" ELSE IF k <= pos THEN ty[k] ELSE ty[k - 1]]]

Next == Choose \/ Compute
Spec == Init /\ [][Next]_vars

\* ---------------------------------------------------------------------------
Done == pc = "done"
\* algebraic laws that tie the operations together (what "array semantics" means for these operators)
TensorLaws == (Done /\ res.t = "tens" /\ res.kind \in {"tensor", "ndarray"}) =>
   \A i, j \in 1..2 : LET a == R(res.M[i][j]) b == R(res.X[i][j]) IN
      /\ res.op = "sub" => RAdd(res.val[i][j], b) = a
      /\ res.op = "rsub" => RAdd(res.val[i][j], a) = b
      /\ res.op \in {"add", "radd"} => RSub(res.val[i][j], b) = a
\* affine laws: (p + q) - q = p for finite p, q ; k*p then /k gives p back ; -p + p is the origin
PointLaws == (Done /\ res.t = "pts" /\ res.op = "add" /\ Wt(res.p) # 0 /\ Wt(res.q) # 0) =>
   SameClass(PAdd(res.val, res.q, -1), res.p)
TransposeIsPerm == (Done /\ res.t = "transpose") =>
   /\ Cardinality({res.perm[a] : a \in 1..res.rank}) = res.rank
   /\ \A a \in 1..res.rank : res.rty[a] = res.ty[res.perm[a]]

\* every axis of either factor appears exactly once, with its type; covariant axes first; the axes of one factor and one type
\* keep their order, and those of the first factor come before those of the second
TensorProductAxes == (Done /\ res.t = "tprod") =>
   LET n == Len(res.src) IN
   /\ n = Len(res.ty1) + Len(res.ty2)
   /\ {res.src[k] : k \in 1..n} = ({1} \X DOMAIN res.ty1) \cup ({2} \X DOMAIN res.ty2)
   /\ \A k, l \in 1..n : k < l => /\ ~(res.rty[k] = "con" /\ res.rty[l] = "cov")
                                  /\ (res.rty[k] = res.rty[l]) => \/ res.src[k][1] < res.src[l][1]
                                                                   \/ (res.src[k][1] = res.src[l][1] /\ res.src[k][2] < res.src[l][2])

\* the old axes keep their types and their order around the inserted collection axis
ExpandKeepsTypes == (Done /\ res.t = "expand") =>
   LET r == Len(res.ty) pos == IF res.ax < 0 THEN res.ax + r + 1 ELSE res.ax IN
   /\ Len(res.rty) = r + 1 /\ res.rty[pos + 1] = "free"
   /\ [k \in 1..r |-> IF k <= pos THEN res.rty[k] ELSE res.rty[k + 1]] = res.ty

Stratum == CASE res.t = "tens" -> "tensor/" \o res.kind
             [] res.t = "pts" -> (IF Wt(res.p) = 0 \/ (res.q # <<>> /\ Wt(res.q) = 0) THEN "point-at-infinity" ELSE "finite")
             [] res.t = "expand" -> (IF ~res.ok THEN "expand_dims/rejected-position"
                                     ELSE IF \E a, b \in DOMAIN res.ty : a < b /\ res.ty[a] # "free" /\ res.ty[b] = "free"
                                     THEN "expand_dims/collection-axis-behind-tensor-index" ELSE "expand_dims/leading-collection-axes")
             [] res.t = "tprod" -> (IF \E a \in DOMAIN res.ty1 : \E b \in DOMAIN res.ty1 : a < b /\ res.ty1[a] = "con" /\ res.ty1[b] = "cov"
                                    THEN "tensor_product/first-factor-contravariant-before-covariant"
                                    ELSE IF \E a \in DOMAIN res.ty2 : \E b \in DOMAIN res.ty2 : a < b /\ res.ty2[a] = "con" /\ res.ty2[b] = "cov"
                                    THEN "tensor_product/second-factor-contravariant-before-covariant"
                                    ELSE "tensor_product/covariant-first-factors")
             [] OTHER -> (IF res.cyc # <<>> THEN "transpose/cycle" ELSE "transpose/perm")
Dump == (Done /\ DoDump) => PrintT(ToJson([r |-> res, s |-> Stratum]))
=============================================================================
