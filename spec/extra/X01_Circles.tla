------------------------------ MODULE X01_Circles ------------------------------
(***************************************************************************)
(* Beyond the listed properties: the Lie coordinates of a circle and the    *)
(* angle in which two circles intersect (Circle.lie_coordinates,            *)
(* Circle.intersection_angle).                                              *)
(*                                                                          *)
(* A circle with centre m and radius r has the normalised Lie coordinates   *)
(*      ( (1 + x)/2, (1 - x)/2, m_1, m_2 ) / r ,   x = |m|^2 - r^2 ,        *)
(* a vector of Lorentz norm 1 for the form  -a0 b0 + a1 b1 + a2 b2 + a3 b3, *)
(* and the Lorentz product of two of them is the cosine                     *)
(*      (r1^2 + r2^2 - d^2) / (2 r1 r2)                                     *)
(* of the angle between the circles (law of cosines in the triangle of the  *)
(* two centres and an intersection point).  The Euclidean dot product of    *)
(* the same vectors is something else: it is not invariant under            *)
(* translations.  TLC checks these statements on the lattice of circles;    *)
(* the replay compares both library functions with them.                    *)
(***************************************************************************)
EXTENDS Exact, Json

CONSTANTS DoDump
VARIABLES pc, c1, res
vars == <<pc, c1, res>>

Centres == {<<x, y>> : x \in -2..3, y \in -2..2}
Radii == {1, 2, 3, 5}
Circles == {<<m, r>> : m \in Centres, r \in Radii}

Sq(z) == z * z
X(c) == Sq(c[1][1]) + Sq(c[1][2]) - Sq(c[2])
\* Lie coordinates as four rationals
Lie(c) == << RNorm(1 + X(c), 2 * c[2]), RNorm(1 - X(c), 2 * c[2]), RNorm(c[1][1], c[2]), RNorm(c[1][2], c[2]) >>
Lorentz(a, b) == RAdd(RAdd(RAdd(RNeg(RMul(a[1], b[1])), RMul(a[2], b[2])), RMul(a[3], b[3])), RMul(a[4], b[4]))
Euclid(a, b) == RAdd(RAdd(RAdd(RMul(a[1], b[1]), RMul(a[2], b[2])), RMul(a[3], b[3])), RMul(a[4], b[4]))
D2(a, b) == Sq(a[1][1] - b[1][1]) + Sq(a[1][2] - b[1][2])
CosAngle(a, b) == RNorm(Sq(a[2]) + Sq(b[2]) - D2(a, b), 2 * a[2] * b[2])
Shift(c, v) == << <<c[1][1] + v[1], c[1][2] + v[2]>>, c[2] >>

Init == pc = "start" /\ c1 \in Circles /\ res = [t |-> "none"]
Pick == /\ pc = "start" /\ pc' = "done" /\ UNCHANGED c1
        /\ \E c2 \in Circles :
             res' = [t |-> "pair", a |-> c1, b |-> c2, lie |-> Lie(c1), cos |-> CosAngle(c1, c2),
                     meet |-> (Sq(c1[2] - c2[2]) <= D2(c1, c2) /\ D2(c1, c2) <= Sq(c1[2] + c2[2]))]
Next == Pick
Spec == Init /\ [][Next]_vars

Done == pc = "done"
UnitLorentzNorm == Done => Lorentz(Lie(res.a), Lie(res.a)) = <<1, 1>>
LorentzIsCosine == Done => Lorentz(Lie(res.a), Lie(res.b)) = res.cos
\* the circles have a common point exactly when the cosine lies in [-1, 1]
MeetIffCosine == Done => (res.meet <=> (RLe(<<-1, 1>>, res.cos) /\ RLe(res.cos, <<1, 1>>)))
TranslationInvariant == Done => \A v \in {<<1, 0>>, <<-3, 2>>, <<5, 5>>} :
     Lorentz(Lie(Shift(res.a, v)), Lie(Shift(res.b, v))) = res.cos
\* ... which the Euclidean product of the same vectors is not (a witness exists on the lattice)
EuclidIsNotInvariantWitness ==
   LET a == << <<0, 0>>, 1 >> b == << <<1, 0>>, 1 >> v == <<5, 5>> IN
   /\ Euclid(Lie(a), Lie(b)) = CosAngle(a, b)                           \* agrees at the origin ...
   /\ Euclid(Lie(Shift(a, v)), Lie(Shift(b, v))) # CosAngle(a, b)       \* ... and nowhere else
ASSUME EuclidIsNotInvariantWitness

Stratum == IF ~res.meet THEN "disjoint-or-nested" ELSE IF res.cos[1] = 0 THEN "orthogonal"
           ELSE IF res.cos \in {<<1, 1>>, <<-1, 1>>} THEN "tangent" ELSE "intersecting"
Dump == (Done /\ DoDump) => PrintT(ToJson([r |-> res, s |-> Stratum]))
=============================================================================
