----------------------------- MODULE C20_Kernels -----------------------------
(***************************************************************************)
(* C20: the numeric kernels det / adjugate / inv / null_space / orth /      *)
(* roots / is_multiple / hat_matrix / outer / matmul / matvec.              *)
(*                                                                         *)
(* Declarative layer: Leibniz determinant, A adj(A) = det(A) I, rank by     *)
(* minors, roots by Vieta expansion of a chosen root multiset, "scalar      *)
(* multiple" by proportionality.                                            *)
(* Constructive layer: every formula geometer selects by matrix size and    *)
(* batch size (2x2 closed form, Sarrus, Laplace/LAPACK = any correct        *)
(* algorithm, minor table with the [1::2, ::2] sign pattern, epsilon        *)
(* contraction / (n-1)!).  TLC proves them equal on the enumerated domain,  *)
(* so the algorithm choice is an unlogged variable: a legitimate change of  *)
(* thresholds is not an alarm, a wrong formula on either side is.           *)
(***************************************************************************)
EXTENDS LinAlg, Json, Randomization, FiniteSetsExt, SequencesExt

CONSTANTS Tasks,     \* subset of {"m2","m3","m4","m5","roots","cubic","ismul","hat","mm"}
          NRand4, NRand5, \* number of pseudo-random 4x4 / 5x5 matrices
          DoDump

VARIABLES pc, task, M, res
vars == <<pc, task, M, res>>

E2 == (-2)..2
E1 == (-1)..1
Rows(n, E) == [1..n -> E]

\* --------------------------------------------------------------------------
\* formula variants transcribed from geometer/utils/math.py
Det2Code(A) == A[1][1]*A[2][2] - A[2][1]*A[1][2]
Det3Sarrus(A) == A[1][1]*A[2][2]*A[3][3] + A[1][2]*A[2][3]*A[3][1] + A[1][3]*A[2][1]*A[3][2]
               - A[3][1]*A[2][2]*A[1][3] - A[3][2]*A[2][3]*A[1][1] - A[3][3]*A[2][1]*A[1][2]
\* n = 2 : A[..., [[1,0],[1,0]], [[1,1],[0,0]]] with [0,1],[1,0] negated
Adj2Code(A) == << << A[2][2], -A[1][2] >>, << -A[2][1], A[1][1] >> >>
\* minor table: result[i][j] = det(minor(i,j)), transposed, then rows 1::2 / cols ::2 (0-based) negated
AdjMinorCode(A) ==
  LET n == Len(A)
      T == [i \in 1..n |-> [j \in 1..n |-> Det(Minor(A, j, i))]]       \* swapaxes
  IN [i \in 1..n |-> [j \in 1..n |->
        IF ((i - 1) % 2 = 1 /\ (j - 1) % 2 = 0) \/ ((i - 1) % 2 = 0 /\ (j - 1) % 2 = 1)
        THEN -T[i][j] ELSE T[i][j]]]
\* epsilon contraction for n = 3:  adj_ij = 1/2 eps_{i a b} eps_{j c d} A_{c a} A_{d b}
AdjEps3(A) ==
  LET I3 == 1..3
      S(i, j) == LET terms == {t \in I3 \X I3 \X I3 \X I3 :
                                   Eps(<<i, t[1], t[2]>>) # 0 /\ Eps(<<j, t[3], t[4]>>) # 0}
                 IN  FoldSet(LAMBDA t, acc : acc + Eps(<<i, t[1], t[2]>>) * Eps(<<j, t[3], t[4]>>)
                                                   * A[t[3]][t[1]] * A[t[4]][t[2]], 0, terms)
  IN [i \in I3 |-> [j \in I3 |-> S(i, j)]]

\* --------------------------------------------------------------------------
\* determinantal rank: the largest k such that some k x k minor does not vanish
SubMat(A, R, C) == LET rs == SetToSortSeq(R, <) cs == SetToSortSeq(C, <) IN
                   [i \in 1..Len(rs) |-> [j \in 1..Len(cs) |-> A[rs[i]][cs[j]]]]
HasMinor(A, k) == \E R \in kSubset(k, 1..Len(A)), C \in kSubset(k, 1..Len(A[1])) : Det(SubMat(A, R, C)) # 0
RECURSIVE RankFrom(_, _)
RankFrom(A, k) == IF k = 0 THEN 0 ELSE IF HasMinor(A, k) THEN k ELSE RankFrom(A, k - 1)
RankSq(A) == IF Det(A) # 0 THEN Len(A) ELSE RankFrom(A, Len(A) - 1)

\* --------------------------------------------------------------------------
\* polynomials: coefficients (highest first) from a root multiset, Gaussian-integer roots
\* (x - r) with r = <<re, im>> ; polynomial = sequence of Gaussian integers, highest degree first
PMulLin(p, r) ==   \* p(x) * (x - r)
  LET n == Len(p) IN
  [k \in 1..(n + 1) |->
     CSub(IF k <= n THEN p[k] ELSE CZero, IF k >= 2 THEN CMul(r, p[k - 1]) ELSE CZero)]
RECURSIVE PFromRoots(_, _)
PFromRoots(lead, rs) == IF rs = <<>> THEN <<lead>> ELSE PMulLin(PFromRoots(lead, Tail(rs)), Head(rs))
IsRealPoly(p) == \A k \in DOMAIN p : p[k][2] = 0

IntRoots == (-2)..2
\* root multisets: three integers; integer + conjugate Gaussian pair; two integers; conjugate pair; one
RootChoices ==
  {<<CRe(a), CRe(b), CRe(c)>> : a \in IntRoots, b \in IntRoots, c \in IntRoots}
  \cup {<<CRe(a), <<p, q>>, <<p, -q>>>> : a \in IntRoots, p \in -1..1, q \in 1..2}
  \cup {<<CRe(a), CRe(b)>> : a \in IntRoots, b \in IntRoots}
  \cup {<< <<p, q>>, <<p, -q>> >> : p \in -1..1, q \in 1..2}
  \cup {<<CRe(a)>> : a \in IntRoots}
Leads == {1, -2, 3}

\* EVERY polynomial a x^3 + b x^2 + c x + d of a coefficient box (a = 0: quadratic, a = b = 0: linear), not only those with
\* Gaussian-integer roots.  What the roots are is stated by Vieta's relations (the elementary symmetric functions of the
\* root multiset are -b/a, c/a, -d/a); the stratum is the case analysis of Cardano's method in exact integers:
\*   depressed cubic t^3 + f t + g with f = F / (3 a^2), g = G / (27 a^3), and the sign of h = g^2/4 + f^3/27 is that of Disc
CubA == {-2, -1, 0, 1, 2, 3}
CubBC == (-3)..3
CubD == (-9)..9
CubF(p) == 3 * p[1] * p[3] - p[2] * p[2]
CubG(p) == 2 * p[2] * p[2] * p[2] - 9 * p[1] * p[2] * p[3] + 27 * p[1] * p[1] * p[4]
CubDisc(p) == CubG(p) * CubG(p) + 4 * CubF(p) * CubF(p) * CubF(p)
Sgn(x) == IF x > 0 THEN 1 ELSE IF x < 0 THEN -1 ELSE 0
CubStratum(p) ==
  IF p[1] = 0 THEN
     (IF p[2] = 0 THEN "poly/linear"
      ELSE LET D == p[3] * p[3] - 4 * p[2] * p[4] IN
           IF D < 0 THEN "poly/quadratic-complex" ELSE IF D = 0 THEN "poly/quadratic-double" ELSE "poly/quadratic-real")
  ELSE IF CubF(p) = 0 /\ CubG(p) = 0 THEN "poly/cubic-triple"
  ELSE IF CubDisc(p) < 0 THEN "poly/cubic-three-real"
  ELSE IF CubDisc(p) = 0 THEN "poly/cubic-double"
  ELSE IF CubF(p) = 0 THEN (IF Sgn(CubG(p)) * Sgn(p[1]) > 0 THEN "poly/cubic-pure-positive" ELSE "poly/cubic-pure-negative")
  ELSE "poly/cubic-one-real"
\* a repeated root of an integer polynomial is rational, n / m with m | lead and n | constant term (or 0)
HasRationalDoubleRoot(p) == \E m \in 1..3, n \in (-9)..9 :
     /\ p[1]*n*n*n + p[2]*n*n*m + p[3]*n*m*m + p[4]*m*m*m = 0
     /\ 3*p[1]*n*n + 2*p[2]*n*m + p[3]*m*m = 0

RootStratum(rs) ==
  LET n == Len(rs) IN
  IF n = 3 /\ rs[1] = rs[2] /\ rs[2] = rs[3] THEN "roots/triple"
  ELSE IF \E i, j \in DOMAIN rs : i < j /\ rs[i] = rs[j] THEN "roots/double"
  ELSE IF \E i \in DOMAIN rs : rs[i][2] # 0 THEN "roots/complex-pair"
  ELSE "roots/simple"

\* --------------------------------------------------------------------------
\* is_multiple: scalar multiples, symmetric, the zero vector is a multiple of everything
IsMult(a, b) == IsZeroV(a) \/ IsZeroV(b) \/ SameClass(a, b)

\* hat_matrix for 3 scalars (documented layout) ; Hat3(x) v = v x x
Hat3(x) == << <<    0,  x[3], -x[2] >>,
              << -x[3],    0,  x[1] >>,
              <<  x[2], -x[1],    0 >> >>

\* --------------------------------------------------------------------------
\* pseudo-random 4x4 / 5x5 matrices plus structured singular ones derived from them
Rand4 == RandomSubset(NRand4, [1..4 -> [1..4 -> E2]])
Rand5 == RandomSubset(NRand5, [1..5 -> [1..5 -> E1]])
\* make a matrix singular in a controlled way: last row := combination of the first two / copy / zero
Degrade(A, how) ==
  LET n == Len(A) IN
  CASE how = 0 -> A
    [] how = 1 -> [A EXCEPT ![n] = VAdd(A[1], A[2])]
    [] how = 2 -> [A EXCEPT ![n] = A[1], ![n - 1] = VScale(2, A[1])]
    [] how = 3 -> [i \in 1..n |-> VScale(i - 2, A[1])]

MatResult(A) ==
  [t |-> "mat", n |-> Len(A), M |-> A, det |-> Det(A), adj |-> Adj(A), rank |-> RankSq(A)]

Init ==
  /\ pc = "start" /\ task \in Tasks /\ M = <<>> /\ res = [t |-> "none"]

\* first level: pick the first row (spreads the work over TLC's workers)
PickFirst ==
  /\ pc = "start"
  /\ \/ /\ task = "m2" /\ \E r \in Rows(2, E2) : M' = <<r>>
     \/ /\ task = "m3" /\ \E r \in Rows(3, E1) : M' = <<r>>
     \/ /\ task = "m4" /\ \E A \in Rand4 : M' = A
     \/ /\ task = "m5" /\ \E A \in Rand5 : M' = A
     \/ /\ task = "roots" /\ \E a \in Leads : M' = <<a>>
     \/ /\ task = "cubic" /\ \E a \in CubA : M' = <<a>>
     \/ /\ task = "ismul" /\ \E a \in Lattice(3, 2) : M' = <<a>>
     \/ /\ task = "hat" /\ \E a \in Lattice(3, 2) : M' = <<a>>
     \/ /\ task = "mm" /\ \E A \in RandomSubset(40, [1..2 -> [1..3 -> E2]]) : M' = A
  /\ pc' = "first"
  /\ UNCHANGED <<task, res>>

Finish ==
  /\ pc = "first"
  /\ \/ /\ task = "m2" /\ \E r \in Rows(2, E2) : res' = MatResult(<<M[1], r>>)
     \/ /\ task = "m3" /\ \E r2 \in Rows(3, E1), r3 \in Rows(3, E1) : res' = MatResult(<<M[1], r2, r3>>)
     \/ /\ task \in {"m4", "m5"} /\ \E how \in 0..3 : res' = MatResult(Degrade(M, how))
     \/ /\ task = "roots"
        /\ \E rs \in RootChoices :
             LET p == PFromRoots(CRe(M[1]), rs) IN
             /\ IsRealPoly(p)
             /\ res' = [t |-> "roots", p |-> [k \in DOMAIN p |-> p[k][1]], roots |-> rs, s |-> RootStratum(rs)]
     \/ /\ task = "cubic"
        /\ \E b \in CubBC, c \in CubBC, d \in CubD :
             LET p == <<M[1], b, c, d>> IN
             /\ ~(M[1] = 0 /\ b = 0 /\ c = 0)
             /\ res' = [t |-> "cubic", p |-> p, F |-> CubF(p), G |-> CubG(p), disc |-> CubDisc(p), s |-> CubStratum(p)]
     \/ /\ task = "ismul" /\ \E b \in Lattice(3, 2) :
             res' = [t |-> "ismul", a |-> M[1], b |-> b, r |-> IsMult(M[1], b)]
     \/ /\ task = "hat" /\ res' = [t |-> "hat", x |-> M[1], H |-> Hat3(M[1])]
     \/ /\ task = "mm" /\ \E B \in RandomSubset(12, [1..2 -> [1..3 -> E2]]) :
             res' = [t |-> "mm", A |-> M, B |-> B, ABt |-> MatMul(M, Transpose(B)), AtB |-> MatMul(Transpose(M), B),
                     outer |-> Outer(M[1], B[2]), mv |-> MatVec(M, B[1])]
  /\ pc' = "done"
  /\ UNCHANGED <<task, M>>

Next == PickFirst \/ Finish
Spec == Init /\ [][Next]_vars

\* --------------------------------------------------------------------------
\* Declarative layer / certification of the formula variants
Done == pc = "done"
IsMat == Done /\ res.t = "mat"

DetIsLeibniz   == IsMat => res.det = DetLeibniz(res.M)
AdjIsClassical == IsMat => MatMul(res.M, res.adj) = MatScale(res.det, Ident(res.n))
                        /\ MatMul(res.adj, res.M) = MatScale(res.det, Ident(res.n))
CodeFormulas ==
  IsMat => /\ res.n = 2 => (Det2Code(res.M) = res.det /\ Adj2Code(res.M) = res.adj)
           /\ res.n = 3 => (Det3Sarrus(res.M) = res.det /\ AdjEps3(res.M) = MatScale(2, res.adj))
           /\ AdjMinorCode(res.M) = res.adj
RankSound == IsMat => /\ (res.rank = res.n) <=> (res.det # 0)
                      /\ (res.rank <= 1) <=> RowsProportional(res.M)
                      /\ (res.rank = 0) <=> (\A i \in 1..res.n : IsZeroV(res.M[i]))
\* every chosen root is a root (Horner evaluation over the Gaussian integers), degree = number of roots
Horner(p, x) == LET RECURSIVE H(_, _)
                    H(k, acc) == IF k > Len(p) THEN acc ELSE H(k + 1, CAdd(CMul(acc, x), CRe(p[k])))
                IN H(1, CZero)
RootsAreRoots == (Done /\ res.t = "roots") =>
     /\ Len(res.p) = Len(res.roots) + 1
     /\ \A i \in DOMAIN res.roots : Horner(res.p, res.roots[i]) = CZero
\* Vieta on the chosen root multisets (certifies the oracle used for the coefficient box on the cases whose roots are known),
\* and the Cardano discriminant classifies them the way their multiplicities say
ESym(rs, k) == CASE k = 1 -> FoldSeq(LAMBDA r, acc : CAdd(acc, r), CZero, rs)
                 [] k = 2 -> (IF Len(rs) = 2 THEN CMul(rs[1], rs[2])
                              ELSE CAdd(CAdd(CMul(rs[1], rs[2]), CMul(rs[1], rs[3])), CMul(rs[2], rs[3])))
                 [] k = 3 -> CMul(CMul(rs[1], rs[2]), rs[3])
VietaOnChosenRoots == (Done /\ res.t = "roots") =>
     LET n == Len(res.roots) lead == res.p[1] IN
     \A k \in 1..n : CMul(CRe(lead), ESym(res.roots, k)) = CRe((IF k % 2 = 1 THEN -1 ELSE 1) * res.p[k + 1])
DiscriminantOnChosenRoots == (Done /\ res.t = "roots" /\ Len(res.roots) = 3) =>
     LET rs == res.roots
         rep == \E i, j \in 1..3 : i < j /\ rs[i] = rs[j]
         cpx == \E i \in 1..3 : rs[i][2] # 0 IN
     /\ (CubDisc(res.p) = 0) <=> rep
     /\ (CubDisc(res.p) > 0) <=> (cpx /\ ~rep)
     /\ (CubF(res.p) = 0 /\ CubG(res.p) = 0) <=> (rs[1] = rs[2] /\ rs[2] = rs[3])
\* on the whole coefficient box: the discriminant vanishes exactly when there is a repeated (hence rational) root
DiscriminantSound == (Done /\ res.t = "cubic" /\ res.p[1] # 0) => ((res.disc = 0) <=> HasRationalDoubleRoot(res.p))
IsMultLaws == (Done /\ res.t = "ismul") =>
     /\ res.r = IsMult(res.b, res.a)                                   \* symmetric
     /\ (res.r /\ ~IsZeroV(res.a) /\ ~IsZeroV(res.b)) =>
           \E k \in {-4,-3,-2,-1,1,2,3,4}, m \in {1, 2} : VScale(k, res.b) = VScale(m, res.a) \/ VScale(k, res.a) = VScale(m, res.b)
HatIsCross == (Done /\ res.t = "hat") =>
     \A v \in Lattice(3, 1) : MatVec(res.H, v) = Cross(v, res.x)

Stratum ==
  CASE res.t = "mat" -> (IF res.det = 0 THEN "singular-rank" \o ToString(res.rank) ELSE "n=" \o ToString(res.n))
    [] res.t = "roots" -> res.s
    [] res.t = "cubic" -> res.s
    [] res.t = "ismul" -> (IF IsZeroV(res.a) \/ IsZeroV(res.b) THEN "ismul/zero" ELSE IF res.r THEN "ismul/multiple" ELSE "ismul/not")
    [] OTHER -> "general"

Dump == (Done /\ DoDump) => PrintT(ToJson([r |-> res, s |-> Stratum]))
=============================================================================
